#!/bin/sh
# builds the overlay interpreter: /venv's packages + /repo + z3/cvc5 from the offline wheelhouse
set -e
cd "$(dirname "$0")"
if [ ! -x .venv/bin/python ] || ! .venv/bin/python -c "import z3, tensorly" >/dev/null 2>&1; then
  rm -rf .venv
  /venv/bin/python -m venv .venv
  printf '/venv/lib/python3.12/site-packages\n/repo\n' > .venv/lib/python3.12/site-packages/base.pth
  PIP_NO_INDEX=1 .venv/bin/pip install -q --no-index --find-links /opt/veriftools/wheels z3-solver cvc5 jsonschema >/dev/null
fi
.venv/bin/python -c "import z3, tensorly, numpy" 
