#!/bin/sh
# usage: tools/run.sh <ID> <tier> <timeout_s> [extra args]  -> summary of a check run
cd /verif
id=$1; tier=$2; to=$3; shift 3
timeout "$to" ./check "$id" --tier "$tier" --no-evidence -v "$@" > /tmp/run_$id.log 2>&1
echo "exit=$?"
grep -v "^  \[" /tmp/run_$id.log | cut -c1-260 | tail -25
echo "--- slowest"
grep "^  \[" /tmp/run_$id.log | awk '{print $NF, $0}' | sort -rn | head -6 | cut -c1-170
