#!/usr/bin/env python3
"""Final pass over /verif/seeded: for every confirmed seeded change apply it to /repo (git apply), run the quick tier of the listed
checks, undo it (git checkout -- .), and record the outcome in seeded/<id>/meta.json and seeded/RESULTS.md.
Usage: tools/record_seeds.py [id ...]     (sequential; do not run other checks meanwhile -- /repo is modified while a seed is applied)"""
import json
import os
import re
import subprocess
import sys
import time

ROOT = os.path.dirname(os.path.dirname(os.path.abspath(__file__)))
# checks to run per seed (first = the property the change was seeded for); extra ones where another property's check is the natural detector
EXTRA = {
    "C11-2": ["C12"],
    "C10-2": ["C11"],
    "C14-3": ["C08"],
    "C08-4": ["C14"],
    "C20-1": ["C04"],
    "C09-1": ["C15"],
    "C08-2": [],
    # round 2
    "C08-5": ["C06"],  # CMTF matrix part built after normalisation: also changes the pair whose error was reported
    "C08-6": ["C14"],  # unsorted fixed_factors (same edit as C14-2 / C14-4)
    # round 3
    "C19-6": ["C15"],  # CP_PLSR.transform writes into a 1-D target vector through a reshape view
}
ONLY = {}


def sh(cmd, **kw):
    return subprocess.run(cmd, shell=True, capture_output=True, text=True, **kw)


def main():
    ids = sys.argv[1:] or sorted(d for d in os.listdir(os.path.join(ROOT, "seeded")) if re.match(r"C\d+-\d+$", d))
    rows = []
    for sid in ids:
        d = os.path.join(ROOT, "seeded", sid)
        meta_p = os.path.join(d, "meta.json")
        if not os.path.exists(meta_p):
            continue
        meta = json.load(open(meta_p))
        pid = sid.split("-")[0]
        checks = [pid] + EXTRA.get(sid, [])
        st = sh("git -C /repo status --porcelain")
        if st.stdout.strip():
            print("refusing: /repo is not clean", st.stdout)
            sys.exit(2)
        ap = sh(f"git -C /repo apply {d}/patch.diff")
        results = {}
        if ap.returncode != 0:
            results = {c: {"exit": None, "note": "patch does not apply to the current tree: " + ap.stderr[-200:]} for c in checks}
        else:
            try:
                for c in checks:
                    t0 = time.time()
                    r = sh(f"cd {ROOT} && timeout 1700 ./check {c} --tier quick --no-evidence")
                    viol = [l for l in r.stdout.splitlines() if l.startswith("VIOLATION")]
                    inc = [l for l in r.stdout.splitlines() if l.startswith("INCONCLUSIVE")]
                    results[c] = {
                        "exit": r.returncode,
                        "violation_lines": len(viol),
                        "inconclusive_lines": len(inc),
                        "first_violation": viol[0][:300] if viol else None,
                        "wall_s": round(time.time() - t0, 1),
                    }
            finally:
                sh("git -C /repo checkout -- .")
        meta["checks_run"] = results
        meta["caught_by"] = [c for c, v in results.items() if v.get("exit") == 1 and v.get("violation_lines")]
        meta["how_run"] = "git -C /repo apply patch.diff; ./check <ID> --tier quick --no-evidence; git -C /repo checkout -- ."
        json.dump(meta, open(meta_p, "w"), indent=1)
        rows.append((sid, meta.get("confirmed"), meta["caught_by"], {c: (v.get("exit"), v.get("violation_lines")) for c, v in results.items()}))
        print(rows[-1], flush=True)
    with open(os.path.join(ROOT, "seeded", "RESULTS.md"), "a") as f:
        for sid, conf, caught, res in rows:
            f.write(f"| {sid} | confirmed={conf} | caught_by={','.join(caught) or '-'} | {res} |\n")


if __name__ == "__main__":
    main()
