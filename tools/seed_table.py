#!/usr/bin/env python3
"""Markdown table of the seeded changes under /verif/seeded from their meta.json (filled by tools/record_seeds.py).
Usage: tools/seed_table.py > seeded/RESULTS.md"""
import json
import os
import re

ROOT = os.path.dirname(os.path.dirname(os.path.abspath(__file__)))

# why a confirmed change is not reported by the check of the property it was seeded for (kept here, next to the table generator,
# and copied into meta.json["missed_because"])
MISSED = {
    "C14-6": "initialize_tucker casts the supplied decomposition to the data's dtype: only visible when data and initialisation differ in dtype "
    "(float32 data, float64 init); E1 runs every tensor as dtype=object and replays in float64 -- dtype flow is outside the engine (C18 not applicable)",
    "C03-2": "needs projections stored in a narrower dtype than the slices they produce; E1 is blind to dtype (dtype=object symbolically, float64 in replay)",
    "C13-3": "needs a passive sub-solution with two non-positive entries at once, i.e. >= 3 unknowns with a warm start; the active-set "
    "exploration is bounded to <= 2 unknowns (3 unknowns: undecided in 25 min, stated under OUTSIDE)",
}
NOTES = {
    "C19-6": "CP_PLSR.transform centres / deflates a 1-D target vector in place: an input mutation, reported by C15 (cp_plsr, Y_vector); C19 transforms fresh data per call",
    "C08-6": "same edit as C14-2: the factors come back in the wrong positions -- reported by C14 (fixed factors bit-identical); C08's shape obligation uses sorted lists",
    "C08-5": "reported by C08 (represented matrix) and by C06 (reported error no longer belongs to the returned pair)",
    "C09-1": "the change is an in-place edit of the caller's rank list: reported by C15 (rank_lists), not by C09",
    "C20-1": "scatter instead of gather in cp_permute_factors: reported by C04 (permutation preserves the tensor); C20's metrics are unaffected",
    "C11-2": "hard_thresholding keeps ties: reported by C12 (prox oracle); C11 replaces the prox by a tagging stub on purpose",
    "C10-2": "same edit as C11-3 (ADMM variables indexed by position): reported by C11; the factors stay non-negative, so C10 is rightly silent",
    "C14-3": "same edit as C08-2: reported by C08 (weights folded back), C14's warm-start obligations hold",
    "C08-4": "same edit as C14-2 (fixed_factors unsorted): reported by C14",
}


def first_sentence(txt):
    lines = [l.strip(" #-") for l in txt.strip().split("\n") if l.strip()]
    s = " ".join(lines[:2])
    s = re.sub(r"\s+", " ", s)
    return s[:210] + ("..." if len(s) > 210 else "")


def main():
    rows = []
    for sid in sorted(os.listdir(os.path.join(ROOT, "seeded"))):
        mp = os.path.join(ROOT, "seeded", sid, "meta.json")
        if not os.path.exists(mp):
            continue
        m = json.load(open(mp))
        caught = m.get("caught_by") or []
        runs = m.get("checks_run") or {}
        res = ", ".join(f"{c}: exit {v.get('exit')}, {v.get('violation_lines')} VIOLATION lines, {v.get('wall_s')} s" for c, v in runs.items())
        note = NOTES.get(sid, "")
        if not caught and m.get("confirmed") in (True, "True"):
            note = MISSED.get(sid, note) or "MISSED"
            m["missed_because"] = note
            json.dump(m, open(mp, "w"), indent=1)
        rows.append((sid, m.get("confirmed"), ",".join(caught) or "-", res, first_sentence(m.get("needs", "")), note))
    print("| seed | confirmed | caught by | quick-tier runs on the patched tree | change | note |")
    print("|---|---|---|---|---|---|")
    for r in rows:
        print("| " + " | ".join(str(x).replace("|", "/") for x in r) + " |")


if __name__ == "__main__":
    main()
