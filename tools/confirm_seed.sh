#!/bin/sh
# usage: tools/confirm_seed.sh <PID> <i>   (run from anywhere)
# Confirms seeded change <i> produced by an independent sub-agent in the scratch worktree /tmp/seed/<PID>:
#   demo passes on the clean worktree, fails with the patch; the repository's own test-suite passes with the patch.
# Then stores it under /verif/seeded/<PID>-<i>/ (patch.diff, demo.py, notes.md, meta.json).  The worktree is left clean.
pid=$1; i=$2
wt=/tmp/seed/$pid
out=/verif/seeded/$pid-$i
cd $wt || exit 2
git checkout -q -- . 2>/dev/null
mkdir -p $out
cp _out/patch$i.diff $out/patch.diff
cp _out/demo$i.py $out/demo.py
cp _out/notes$i.md $out/notes.md 2>/dev/null
/venv/bin/python -W ignore _out/demo$i.py > $out/demo_clean.log 2>&1; clean_rc=$?
if ! git apply _out/patch$i.diff; then echo "patch does not apply" > $out/FAILED; exit 1; fi
/venv/bin/python -W ignore _out/demo$i.py > $out/demo_patched.log 2>&1; patched_rc=$?
/venv/bin/python -m pytest -q -p no:cacheprovider -p no:randomly --timeout=900 tensorly -k "not test_indian_pines and not test_svd_time" > $out/suite_patched.log 2>&1; suite_rc=$?
tail -3 $out/suite_patched.log > $out/suite_tail.txt
git checkout -q -- .
python3 - "$pid" "$i" "$clean_rc" "$patched_rc" "$suite_rc" "$out" <<'EOF'
import json, sys
pid, i, c, p, s, out = sys.argv[1:]
tail = open(out + "/suite_tail.txt").read().strip().splitlines()[-1:]
json.dump({
  "property": pid, "index": int(i),
  "demo_exit_clean_tree": int(c), "demo_exit_patched_tree": int(p),
  "test_suite_exit_patched_tree": int(s), "test_suite_summary": tail,
  "suite_cmd": "/venv/bin/python -m pytest -q -p no:cacheprovider -p no:randomly --timeout=900 tensorly -k 'not test_indian_pines and not test_svd_time' (in a scratch worktree with the patch applied)",
  "confirmed": int(c) == 0 and int(p) != 0 and int(s) == 0,
  "needs": open(out + "/notes.md").read() if __import__("os").path.exists(out + "/notes.md") else "",
}, open(out + "/meta.json", "w"), indent=1)
print(pid, i, "clean", c, "patched", p, "suite", s)
EOF
