#!/usr/bin/env python3
"""Regenerates MANIFEST.json from the table below and validates it against the schema."""
import json
import os
import sys

ROOT = os.path.dirname(os.path.dirname(os.path.abspath(__file__)))

LEVEL_NOTE = (
    "Trusted: z3 (cvc5 as cross-check where stated); NumPy's object-dtype structural operations; the kernel stubs listed in the "
    "evidence file (each with its contract); real arithmetic instead of IEEE-754 (every reported violation is replayed in float64 "
    "on the real NumPy backend before it is printed). Bounded: the claim covers exactly the shapes/ranks/iteration counts listed "
    "under 'bounds' in the evidence; nothing outside them."
)

CLAIMED = {
    "C01": dict(
        engine="E2-symshape",
        text="The real tensorly/base.py re-arrangement functions run on an index-map backend whose mode sizes are z3 Ints in [1,B] (all symbolic at once) and whose "
        "multi-index is symbolic; z3 (QF_NIA, with a size case split as fallback) decides documented shape, documented layout, refold-after-unfold identity and "
        "size-compatibility of every reshape for ALL shapes within the bound -- not for a sampled list of shapes. The 'no entry re-typed' clause is covered by an "
        "uninterpreted-sort element run and a finite dtype table that are labelled as non-solver parts in the evidence.",
        design="DESIGN.md section 2, C01",
        technique="symbolic-shape execution of base.py on an index-map backend; QF_NIA/LIA validity queries (z3)",
    ),
    "C14": dict(
        text="Zero-budget runs, weight absorption and fixed modes of every decomposition that accepts a user initialisation are executed symbolically with init weights "
        "unrestricted in sign: dense(result) == dense(init) at zero budget (own index-sum oracle), one sweep from (w, F) and from the weight-absorbed re-expression gives the "
        "same iterate (exact Cramer solves, order 2), and the returned factor of every fixed mode is the supplied term array (bit-identical in the float replay).",
        design="DESIGN.md section 2, C14",
        technique="symbolic execution; polynomial/term-identity validity queries incl. R-th root atoms (z3)",
    ),
    "C16": dict(
        text="Non-interference: every seed-accepting entry point is executed twice symbolically with the same integer seed (and with two identically seeded generators); draws from a "
        "seeded stream are uninterpreted terms rnd(seed, k, pos), draws from the global NumPy stream (incl. module-level np.random.* calls, which are intercepted) are fresh "
        "unrelated variables per run; z3 decides whether the two outputs can differ and the harness checks that the global stream was not consumed or reseeded.",
        design="DESIGN.md section 2, C16",
        technique="two-run symbolic execution with an uninterpreted-function RNG model; equality validity queries (z3)",
    ),
    "C15": dict(
        text="For each listed public entry point and argument kind (arrays, transposed views, factor tuples/lists, wrapper objects, option lists, masks, fixed modes, "
        "user initialisations, a raising call) every caller-owned argument is snapshotted term by term, the real function runs symbolically (the in-place inner "
        "solvers run for real, one sweep), and afterwards `exists input values: argument entry != snapshot` must be unsatisfiable on every path and every container "
        "structurally unchanged. The solver matters because an in-place clip / masked write / row reset only changes the buffer for some values.",
        design="DESIGN.md section 2, C15",
        technique="symbolic execution with argument snapshots; term-equality validity queries per path (z3)",
    ),
    "C17": dict(
        engine="E3-symstate",
        text="One-step inductive check of the real BackendManager/TenalgBackendManager from an arbitrary pre-state (shared default, optional per-thread overrides) "
        "on real threads with token backends of an uninterpreted sort; the observed post-state is compared with the abstract per-thread-override transition "
        "relation by EUF validity queries; context exits are checked after re-havocking the whole state, so the steps compose to histories and interleavings of "
        "any length at operation granularity.",
        design="DESIGN.md section 2, C17",
        technique="inductive-step state exploration on the real managers; EUF validity queries over token identities (z3)",
    ),
    "C02": dict(
        text="Bounded symbolic execution of the real core/einsum tenalg routines (all operand entries are solver variables); every output entry is "
        "compared with its textbook index sum by an SMT validity query. Within the listed shapes and option sets the verdict covers every real "
        "value, which is what a sampled unit test cannot give; outside them nothing is claimed.",
        design="DESIGN.md section 2, C02",
        technique="symbolic execution of the real functions on z3-real object arrays; polynomial-identity validity queries (z3)",
    ),
    "C03": dict(
        text="The real conversion routines, views, norms, wrapper classes and validators of the six factorised formats run on solver variables under both tenalg backends; every dense / "
        "unfolded / vectorised / matrix / slice entry is compared with the defining contraction written over the input variables (polynomial-identity queries), reported shape/rank with the "
        "sizes built by the harness, norm**2 with the sum of squared dense entries, and a finite family of structurally invalid factor sets must be rejected.",
        design="DESIGN.md section 2, C03", technique="symbolic execution on z3-real object arrays; polynomial-identity validity queries (z3)",
    ),
    "C04": dict(
        text="Normalisation, sign flip, component permutation (assignment solver stubbed by its optimality contract, forked over all permutations), factorised mode products, TT padding, "
        "CP->PARAFAC2 conversion and SVD compression/decompression run on solver variables (zero columns, zero-mean columns, negative weights inside the quantifier); the dense tensor "
        "before/after (index-sum oracle) must be identical and the advertised canonical form must hold, on every zero/non-zero path of the column norms.",
        design="DESIGN.md section 2, C04", technique="path-forking symbolic execution; identity + canonical-form validity queries with root atoms (z3)",
    ),
    "C05": dict(
        text="Everything tensorly adds around LAPACK in the SVD interface (shape/clamping logic, slicing, symeig reordering, sign canonicalisation incl. ties, NNDSVD/NNDSVDa non-negativity and "
        "finiteness, dispatch, mask imputation, randomized-SVD shape logic) is executed on solver variables relative to contract stubs of svd/eigh/qr whose orthonormal outputs are generated "
        "identically (Givens). That LAPACK returns the true singular triple and randomized_svd accuracy are outside the claim (see not_applicable clauses in the evidence).",
        design="DESIGN.md section 2, C05", technique="symbolic execution relative to Givens-generated LAPACK contract stubs; validity queries (z3)",
    ),
    "C09": dict(
        text="Exactness at sufficient rank: TT-SVD, TT-matrix, TR-SVD (every starting mode) and Tucker/HOOI run on solver variables with the SVD replaced by its factorisation contract; one lemma per "
        "SVD call (core contracted with the remainder equals the matrix handed to that SVD) is decided over that call's facts alone and composed by induction into reconstruction == input; used ranks "
        "never exceed requested ones. The quasi-optimality inequalities for insufficient ranks are declared not applicable (evidence: outside_claim).",
        design="DESIGN.md section 2, C09", technique="symbolic execution with SVD factorisation-contract stubs; per-call lemma chain of identity queries (z3)",
    ),
    "C10": dict(
        text="Compositional sign proof: unit obligations on the real update code (HALS rows, FISTA iterate, active-set return, ADMM with non-negativity, PARAFAC2 line step, NNDSVD) with arbitrary signed "
        "inputs, and loop obligations where each non-negative decomposition runs 0-2 sweeps on signed symbolic data with inner solvers replaced by exactly the contract the unit obligations proved; "
        "every returned entry on a declared mode must be >= 0.",
        design="DESIGN.md section 2, C10", technique="compositional symbolic execution; sign validity queries in LRA/NRA (z3)",
    ),
    "C13": dict(
        text="Fixed-point characterisation: a point that one real HALS sweep / FISTA step leaves unchanged, or at which the real active-set loop exits through its own test, satisfies the KKT system "
        "of the (l1/ridge penalised) NNLS problem; every HALS row update is the exact clipped coordinate minimiser; ADMM without constraints returns the normal-equation solution. Convergence "
        "itself (a limit statement) is outside the claim.",
        design="DESIGN.md section 2, C13", technique="symbolic execution of one solver step from an arbitrary state; KKT validity queries (z3)",
    ),
    "C19": dict(
        text="CP/Tucker regressors: fit() runs on solver variables with havoc'd solves; weight_tensor_, vec_W_ and predict() on fresh symbolic samples are compared with index-sum oracles built from the exposed "
        "factors. CP-PLSR: transform(train) == scores, unit-norm loadings, and two-run invariance obligations (constant shifts of X / Y, sample permutation) with functional SVD/lstsq models.",
        design="DESIGN.md section 2, C19", technique="symbolic execution; polynomial-identity and two-run equality queries (z3)",
    ),
    "C20": dict(
        text="The real metric functions run on solver variables; SciPy's assignment solver is a contract stub (fork over all permutations, optimality as a named fact group). The cost matrix handed to it, "
        "the returned value/permutation, range [0,1] (via per-pair Cauchy-Schwarz lemmas proved separately), invariance under column permutation/rescaling, correlation index, MSE/RMSE/R2/correlation "
        "definitions and leverage-score properties are validity queries.",
        design="DESIGN.md section 2, C20", technique="symbolic execution with an assignment-contract stub; hierarchical lemma + validity queries (z3)",
    ),
    "C06": dict(
        text="The real CP-ALS (plain, normalised, l2, masked, sparse+low-rank, line-search, orthogonalised, fixed-mode, SVD/random/user init), HOOI/Tucker and PARAFAC2 loops are "
        "executed symbolically with havoc'd or Givens-generated kernels, so every sweep starts from an arbitrary iterate; each reported error (list entries and callback "
        "arguments, for prefix runs n_iter_max=1..K) is proved equal to the from-scratch relative error of the iterate it belongs to (root atoms interned modulo "
        "polynomial identity, denominators cleared before z3 decides), and every sqrt argument is checked for rounding robustness. Bounded to sizes 2-3, ranks 1-2, K<=3 (8 for line search).",
        design="DESIGN.md section 2, C06",
        technique="symbolic execution with havoc/Givens kernel stubs; identity validity queries (z3) + rounding-model query on sqrt arguments",
    ),
    "C07": dict(
        text="Descent by certificate: the real CP-ALS, HALS-CP, HOOI and PARAFAC2-projection sweeps run symbolically with recording kernel stubs; for every block update the "
        "arguments handed to solve / hals_nnls / svd are proved entrywise identical to the normal-equation data of the block least-squares problem rebuilt independently from "
        "the current iterate (a harness-side mirror of the sweep's data flow), the generic descent identity and the 1-D clipped-quadratic lemma are solver-proved, and the real "
        "hals_nnls row update is proved to be the clipped exact coordinate minimiser. Optimality of SVD-based block updates (Ky Fan, Procrustes) is the trusted SVD contract.",
        design="DESIGN.md section 2, C07",
        technique="symbolic execution with recording stubs; polynomial-identity certificates + solver-proved generic lemmas (z3)",
    ),
    "C08": dict(
        text="The real decomposition entry points (parafac, non-negative CP both variants, tucker/partial_tucker, TT-SVD, TT-matrix, TR-SVD, PARAFAC2) are executed "
        "symbolically; the tolerance is a solver variable so that the convergence-break and the iteration-cap exits are both explored, and on every feasible path the "
        "returned object is checked for shapes/ranks/boundary ranks, unit-norm columns (or weights == 1), orthonormal HOOI factors with core == X x^T U, left-orthogonal "
        "TT cores, orthonormal PARAFAC2 projections with a shared cross-product. Orthonormality-dependent claims are relative to Givens-generated SVD outputs.",
        design="DESIGN.md section 2, C08",
        technique="path-forking symbolic execution with a symbolic tolerance; identity validity queries after denominator clearing (z3)",
    ),
    "C11": dict(
        text="Compositional: (1) the real validate_constraints is executed on a finite family of specifications (12 kinds; scalar / per-mode list / per-mode dict; pairs of kinds; "
        "symbolic positive parameters) and must return exactly the specification's (kind, parameter) per mode and reject exactly the double constraints; (2) constrained_parafac "
        "runs symbolically with proximal_operator replaced by a tagging stub with fresh outputs: each returned factor of a constrained non-fixed mode is term-identical to the "
        "output of a stub call made with that mode's order and the user's keywords (so nothing un-projected can be returned, for every value of data and iterates); "
        "(3) feasibility of the real operators' outputs is C12's KKT obligation.",
        design="DESIGN.md section 2, C11",
        technique="symbolic execution with a tagging proximal-operator stub; term-identity validity queries (z3)",
    ),
    "C12": dict(
        text="Every branch of each proximal/projection operator is executed symbolically (sorts and comparisons fork the path, clips merge into If-terms) on vectors "
        "and n x 2 matrices of solver variables with a symbolic positive parameter; the returned point is checked against the KKT / nearest-point "
        "characterisation of the operator's prox problem (linear for polyhedral sets, root atoms for l2 norms, closer-competitor query for the non-convex "
        "unimodal set), plus idempotence on feasible inputs and firm non-expansiveness with two symbolic inputs. Bounded to n <= 4 (5 thorough).",
        design="DESIGN.md section 2, C12",
        technique="path-forking symbolic execution + KKT-oracle validity queries in LRA/NRA (z3)",
    ),
}

NOT_APPLICABLE = {
    "C18": "dtype preservation is a value-independent, finite configuration property decided by NumPy's compiled type-promotion rules; the symbolic engine runs "
    "at dtype=object and has no symbolic quantity for a solver to range over (DESIGN.md C18)",
}

NOT_YET = {}


def main():
    props = [json.loads(l)["id"] for l in open(os.path.join(ROOT, "properties.jsonl"))]
    checks = []
    for pid in props:
        if pid not in CLAIMED:
            continue
        c = CLAIMED[pid]
        checks.append(
            {
                "property_id": pid,
                "quick_cmd": f"./check {pid} --tier quick",
                "thorough_cmd": f"./check {pid} --tier thorough",
                "evidence_file": f"/verif/evidence/{pid}.json",
                "replay_cmd_template": f"./check {pid} --replay {{path}}",
                "engine": c.get("engine", "E1-symtensor"),
                "level_claimed": {"category": "other", "text": c["text"], "design_ref": c["design"]},
                "level_note": c.get("note", LEVEL_NOTE),
                "technique": c["technique"],
            }
        )
    na = []
    for pid in props:
        if pid in CLAIMED:
            continue
        reason = NOT_APPLICABLE.get(pid) or NOT_YET.get(pid) or "check not built yet in this round (planned: DESIGN.md section 2); no claim is made"
        na.append({"property_id": pid, "reason": reason})
    man = {
        "version": 1,
        "setup_cmd": "sh ./setup.sh",
        "hooks": {
            "guard": "TENSORLY_VERIF",
            "enable": "no source hooks are needed: stubs are installed from outside the repository (backend instance via tl.set_backend, module-attribute rebinding inside the harness process)",
            "baseline_off_cmd": "cd /repo && /venv/bin/python -m pytest -ra -q -p no:cacheprovider --timeout=900 --continue-on-collection-errors",
            "source_commits": [],
            "add_only": True,
        },
        "engines": [
            {"name": "E1-symtensor", "path": "vt/sym.py vt/backend.py vt/harness.py", "serves_properties": [p for p in props if p in CLAIMED and CLAIMED[p].get("engine", "E1-symtensor") == "E1-symtensor"], "kind_free_text": "path-forking symbolic execution of the real tensorly functions on NumPy object arrays of z3 reals; obligations decided by z3"},
            {"name": "E2-symshape", "path": "vt/shape.py", "serves_properties": [p for p in props if p in CLAIMED and CLAIMED[p].get("engine") == "E2-symshape"], "kind_free_text": "index-map backend with symbolic mode sizes (QF_NIA)"},
            {"name": "E3-symstate", "path": "vt/state.py", "serves_properties": [p for p in props if p in CLAIMED and CLAIMED[p].get("engine") == "E3-symstate"], "kind_free_text": "one-step inductive harness on the real backend managers with real threads and token backends (EUF)"},
        ],
        "checks": checks,
        "notes": "All checks: exit 0 = discharged or matched known_findings.jsonl; exit 1 = replayed violation (VIOLATION line); exit 2 = harness error. Undecided obligations are printed as INCONCLUSIVE and counted in the evidence, never reported as success of that obligation.",
        "not_applicable": na,
    }
    path = os.path.join(ROOT, "MANIFEST.json")
    with open(path, "w") as f:
        json.dump(man, f, indent=1)
    try:
        import jsonschema

        jsonschema.validate(man, json.load(open("/root/.vp/MANIFEST.schema.json")))
        print("MANIFEST valid;", len(checks), "checks;", len(na), "not claimed")
    except ImportError:
        print("jsonschema missing; not validated")


if __name__ == "__main__":
    main()
