#!/bin/sh
# usage: tools/try_patch.sh <label> <patchfile> <check id> [tier] [extra check args...]
label=$1; pf=$2; pid=$3; tier=${4:-quick}; [ $# -ge 4 ] && shift 4 || shift $#
cd /repo && git apply $pf || { echo "APPLY-FAILED $label"; exit 3; }
cd /verif && timeout 1500 ./check $pid --tier $tier --no-evidence "$@" > /tmp/try_${label}_$pid.log 2>&1; rc=$?
cd /repo && git checkout -- .
nv=$(grep -c "^VIOLATION" /tmp/try_${label}_$pid.log); ni=$(grep -c "^INCONCLUSIVE" /tmp/try_${label}_$pid.log)
echo "$label check=$pid tier=$tier exit=$rc violations=$nv inconclusive=$ni :: $(grep '^VIOLATION' /tmp/try_${label}_$pid.log | head -2 | sed -E 's/.*config=//' | cut -c1-150 | tr '\n' '|')"
