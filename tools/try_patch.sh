#!/bin/sh
# usage: tools/try_patch.sh <label> <patchfile> <check id> [tier] [extra check args...]
# Exploratory run of a check against a seeded change WITHOUT touching /repo: the patch is applied to a scratch copy of the package
# that is put in front of /repo on PYTHONPATH (replay subprocesses inherit it).  tools/try_seed.sh is the prescribed in-place variant.
label=$1; pf=$2; pid=$3; tier=${4:-quick}
[ $# -ge 4 ] && shift 4 || shift $#
d=/tmp/try_$label; rm -rf $d; mkdir -p $d && git -C /repo archive HEAD tensorly | tar -x -C $d  # committed tree: /repo's working tree may carry a seed applied by tools/record_seeds.py
( cd $d && git apply $pf ) || { echo "APPLY-FAILED $label"; rm -rf $d; exit 3; }
cd /verif && sh ./setup.sh >/dev/null 2>&1
PYTHONPATH=$d PYTHONDONTWRITEBYTECODE=1 PYTHONWARNINGS=ignore timeout 1500 .venv/bin/python -u -m vt.main $pid --tier $tier --no-evidence "$@" > /tmp/try_${label}_$pid.log 2>&1; rc=$?
rm -rf $d
nv=$(grep -c "^VIOLATION" /tmp/try_${label}_$pid.log); ni=$(grep -c "^INCONCLUSIVE" /tmp/try_${label}_$pid.log)
echo "$label check=$pid tier=$tier exit=$rc violations=$nv inconclusive=$ni :: $(grep '^VIOLATION' /tmp/try_${label}_$pid.log | head -2 | sed -E 's/.*config=//' | cut -c1-150 | tr '\n' '|')"
