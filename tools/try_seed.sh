#!/bin/sh
# usage: tools/try_seed.sh <seed-dir-name e.g. C02-1> [check id] [tier]  -- applies the seeded patch to /repo, runs the check, undoes it
d=/verif/seeded/$1; pid=${2:-$(echo $1 | cut -d- -f1)}; tier=${3:-quick}
cd /repo && git apply $d/patch.diff || { echo "APPLY-FAILED $1"; exit 3; }
cd /verif && timeout 1500 ./check $pid --tier $tier --no-evidence > /tmp/try_$1_$pid.log 2>&1; rc=$?
cd /repo && git checkout -- . 
nv=$(grep -c "^VIOLATION" /tmp/try_$1_$pid.log); ni=$(grep -c "^INCONCLUSIVE" /tmp/try_$1_$pid.log)
echo "$1 check=$pid tier=$tier exit=$rc violations=$nv inconclusive=$ni :: $(grep '^VIOLATION' /tmp/try_$1_$pid.log | head -2 | cut -c1-200 | tr '\n' '|')"
