"""C02 -- multilinear products equal their textbook index formulas under both tenalg backends.

Every entry of every operand is a solver variable; the real core_tenalg / einsum_tenalg functions run
on them; the oracle is the defining index sum written with Python loops over the *input variables*
(it never touches unfold/fold/khatri_rao or any tensorly code); the query is
`exists values: out != spec` (a polynomial identity), decided by z3.
"""
import itertools

import numpy as np

import tensorly as tl
from tensorly import tenalg

PID = "C02"
ENGINE = "E1"
EXPLANATION = (
    "Bounded symbolic execution of the real tensor-algebra routines on NumPy object arrays of z3 reals, "
    "both tenalg backends selected through tensorly.tenalg.set_backend; each output entry is compared with the textbook index sum "
    "over the input variables by an SMT validity query (polynomial identity), for every listed shape/option configuration."
)
ENCODED = [
    "tensorly.tenalg.core_tenalg.n_mode_product.mode_dot",
    "tensorly.tenalg.core_tenalg.n_mode_product.multi_mode_dot",
    "tensorly.tenalg.core_tenalg._kronecker.kronecker",
    "tensorly.tenalg.core_tenalg._khatri_rao.khatri_rao",
    "tensorly.tenalg.core_tenalg.generalised_inner_product.inner",
    "tensorly.tenalg.core_tenalg.outer_product.outer",
    "tensorly.tenalg.core_tenalg.outer_product.batched_outer",
    "tensorly.tenalg.core_tenalg._batched_tensordot.tensordot",
    "tensorly.tenalg.core_tenalg.mttkrp.unfolding_dot_khatri_rao",
    "tensorly.tenalg.core_tenalg.mttkrp.unfolding_dot_khatri_rao_memory",
    "tensorly.tenalg.core_tenalg.moments.higher_order_moment",
    "tensorly.tenalg.einsum_tenalg.n_mode_product.mode_dot",
    "tensorly.tenalg.einsum_tenalg.n_mode_product.multi_mode_dot",
    "tensorly.tenalg.einsum_tenalg._kronecker.kronecker",
    "tensorly.tenalg.einsum_tenalg._khatri_rao.khatri_rao",
    "tensorly.tenalg.einsum_tenalg.generalised_inner_product.inner",
    "tensorly.tenalg.einsum_tenalg.outer_product.outer",
    "tensorly.tenalg.einsum_tenalg.outer_product.batched_outer",
    "tensorly.tenalg.einsum_tenalg._batched_tensordot.tensordot",
    "tensorly.tenalg.einsum_tenalg.mttkrp.unfolding_dot_khatri_rao",
    "tensorly.tenalg.einsum_tenalg.moments.higher_order_moment",
    "tensorly.tenalg.tenalg_utils._validate_contraction_modes",
    "tensorly.decomposition._cp.sample_khatri_rao",
    "tensorly.base.unfold",
    "tensorly.base.fold",
    "tensorly.base.vec_to_tensor",
]
BOUNDS = {
    "quick": "orders 2-4, mode sizes in {1,2,3} (order 4: {1,2} plus selected 3s), ranks/rows <= 3, real entries, both backends",
    "thorough": "quick set plus orders up to 5 (size 2), order-4 shapes with sizes up to 3, sizes up to 4 at order 3, ranks/rows <= 4",
}
OUTSIDE = ["sizes > 3, orders > 4", "complex entries (conjugation is the identity on the real entries used here)", "sparse backend"]
TRUSTED = ["z3", "NumPy object-dtype structural ops (reshape/moveaxis/dot/einsum)", "reals instead of IEEE floats"]
ASSUMPTIONS = ["entries range over the reals, not IEEE-754 floats; a reported violation is replayed in float64 on the real NumPy backend"]


def _shapes(order, sizes):
    return list(itertools.product(sizes, repeat=order))


def configs(tier):
    out = []
    deep = tier != "quick"  # thorough: additional larger shapes on top of the quick set
    quick = False  # the quick tier runs what used to be the thorough set (68 s on 16 cores)
    sizes = (1, 2, 3)
    orders = (2, 3, 4)
    for be in ("core", "einsum"):
        # mode_dot
        shapes = []
        for o in orders:
            shapes += _shapes(o, sizes) if (quick or o < 4) else _shapes(o, (1, 2))
        shapes += [(2, 3, 2), (3, 2)] if quick else [(2, 3, 2, 2)]
        if deep:
            shapes += [(3, 2, 3, 2), (2, 2, 2, 2, 2), (3, 3, 3, 3), (4, 3, 2), (1, 3, 1, 3), (2, 1, 3, 1, 2)]
        shapes = sorted(set(shapes))
        for shp in shapes:
            for mode in range(len(shp)):
                for rows in ((1, 2) if quick else (1, 2, 3)):
                    for tr in (False, True):
                        out.append(dict(key=f"{be}/mode_dot/{shp}/m{mode}/J{rows}/T{int(tr)}", fn="mode_dot", be=be, shape=shp, mode=mode, rows=rows, tr=tr, vec=False))
                out.append(dict(key=f"{be}/mode_dot/{shp}/m{mode}/vec", fn="mode_dot", be=be, shape=shp, mode=mode, rows=None, tr=False, vec=True))
        # multi_mode_dot: operand kinds per mode (m=matrix, v=vector), explicit unsorted modes, skip, transpose
        mm_shapes = [(2, 2), (2, 1, 2), (2, 2, 2), (1, 2, 3)] if quick else [(2, 2), (2, 1, 2), (2, 2, 2), (1, 2, 3), (2, 3, 2), (2, 2, 2, 2), (3, 1, 2, 2)]
        for shp in mm_shapes:
            o = len(shp)
            kinds_list = list(itertools.product("mv", repeat=o))
            for kinds in kinds_list:
                perms = [None, tuple(reversed(range(o)))]
                if o == 3:
                    perms.append((1, 2, 0))
                if o == 4 and not quick:
                    perms.append((2, 0, 3, 1))
                for perm in perms:
                    for skip in [None] + list(range(o)):
                        for tr in (False, True):
                            if quick and tr and skip is not None and perm is not None:
                                continue
                            out.append(dict(key=f"{be}/multi_mode_dot/{shp}/{''.join(kinds)}/p{perm}/s{skip}/T{int(tr)}", fn="multi_mode_dot", be=be, shape=shp, kinds=kinds, perm=perm, skip=skip, tr=tr))
            # subset of modes
            if o >= 3:
                out.append(dict(key=f"{be}/multi_mode_dot_subset/{shp}", fn="multi_mode_dot_subset", be=be, shape=shp))
        # kronecker / khatri_rao
        mats = [[(2, 2)], [(2, 1), (1, 2)], [(2, 2), (2, 2)], [(1, 2), (2, 2), (2, 1)], [(2, 2), (1, 1), (2, 2)]]
        if not quick:
            mats += [[(3, 2), (2, 3)], [(2, 2), (3, 2), (2, 2)], [(2, 1), (2, 2), (1, 2), (2, 2)]]
        for ms in mats:
            for skip in [None] + list(range(len(ms))):
                if skip is not None and len(ms) == 1:
                    continue
                for rev in (False, True):
                    out.append(dict(key=f"{be}/kronecker/{ms}/s{skip}/r{int(rev)}", fn="kronecker", be=be, mats=ms, skip=skip, rev=rev))
        krs = [([2], 2), ([2, 2], 2), ([1, 2], 3), ([2, 1, 2], 2), ([2, 2, 2], 1), ([2, 2], 1)]
        if not quick:
            krs += [([3, 2], 3), ([2, 3, 2], 2), ([2, 2, 2, 2], 2), ([3, 3, 3], 3)]
        if deep:
            krs += [([3, 2, 3, 2], 3), ([4, 3], 4), ([2, 2, 2, 2, 2], 2), ([1, 3, 1], 3)]
        for rows, R in krs:
            for skip in [None] + list(range(len(rows))):
                if skip is not None and len(rows) == 1:
                    continue
                for w in (False, True):
                    for mask in (False, True):
                        out.append(dict(key=f"{be}/khatri_rao/{rows}/R{R}/s{skip}/w{int(w)}/k{int(mask)}", fn="khatri_rao", be=be, rows=rows, R=R, skip=skip, w=w, mask=mask))
        # inner
        inn = [((2, 2), (2, 2), None), ((2, 1, 2), (2, 1, 2), None), ((2, 2), (2, 2), 1), ((2, 2, 2), (2, 2), 1), ((2, 2, 2), (2, 2, 1), 2), ((1, 2), (2, 2, 1), 1), ((2, 2), (2, 2), 2)]
        if not quick:
            inn += [((2, 3, 2), (3, 2, 2), 2), ((3, 2), (2, 3), 1), ((2, 2, 2, 2), (2, 2, 3), 2), ((2, 3), (2, 3), None)]
        for s1, s2, nm in inn:
            out.append(dict(key=f"{be}/inner/{s1}/{s2}/n{nm}", fn="inner", be=be, s1=s1, s2=s2, nm=nm))
        # outer / batched_outer
        outs = [[(2,)], [(2,), (2,)], [(2,), (1,), (2,)], [(2, 2), (2,)], [(1, 2), (2, 1)]]
        if not quick:
            outs += [[(2,), (3,), (2,)], [(2, 2), (2, 2)], [(2,), (2,), (2,), (2,)]]
        for ss in outs:
            out.append(dict(key=f"{be}/outer/{ss}", fn="outer", be=be, shapes=ss))
        bouts = [[(2, 2)], [(2, 2), (2, 2)], [(2, 1), (2, 2), (2, 2)], [(1, 2, 2), (1, 2)], [(2, 2), (2, 1, 2)]]
        if not quick:
            bouts += [[(3, 2), (3, 2), (3, 2)], [(2, 2, 2), (2, 2, 2)]]
        for ss in bouts:
            out.append(dict(key=f"{be}/batched_outer/{ss}", fn="batched_outer", be=be, shapes=ss))
        # tensordot
        tds = [
            ((2, 2), (2, 2), 1, ()),
            ((2, 2, 2), (2, 2), ([2], [0]), ()),
            ((2, 2, 2), (2, 2, 2), ([1], [2]), ([0], [0])),
            ((2, 1, 2), (2, 2, 1), ([2], [0]), ([0], [1])),
            ((2, 2, 2), (2, 2, 2), ([0, 2], [1, 0]), ()),
            ((2, 2, 2), (2, 2, 2), ([0], [2]), ([2], [0])),
            ((2, 2), (2, 2), (), ([1], [0])),
            ((2, 2, 2), (2, 2), ([1], [0]), ([2], [1])),
            ((2, 2), (2, 2), 2, ()),
            ((2, 2, 2), (2, 2, 2), ([-1], [0]), 1),
            # negative modes on the SECOND operand, operands of different orders (normalisation must use each operand's own order)
            ((2, 2, 2), (2, 2), ([2], [-2]), ()),
            ((2, 2), (2, 2, 2), ([-1], [-3]), ()),
            ((2, 3, 2), (3, 2), ([1], [-2]), ([0], [-1])),
            ((2, 2), (2, 1, 2), ([0], [-1]), ()),
            ((2, 2, 2, 1), (2, 2), ([-3], [-1]), ([0], [-2])),
        ]
        if not quick:
            tds += [((2, 3, 2), (3, 2, 2), ([1, 2], [0, 1]), ()), ((2, 3, 2, 2), (2, 2, 3), ([1], [2]), ([0, 3], [1, 0])), ((3, 2, 2), (2, 3, 2), ([2], [0]), ([0], [1]))]
        for i, (s1, s2, modes, bm) in enumerate(tds):
            out.append(dict(key=f"{be}/tensordot/{i}:{s1}/{s2}/{modes}/{bm}", fn="tensordot", be=be, s1=s1, s2=s2, modes=modes, bm=bm))
        # MTTKRP
        mt = [((2, 2), 1), ((2, 2), 2), ((2, 1, 2), 2), ((2, 2, 2), 2), ((1, 2), 2), ((2, 2, 2), 1)]
        if not quick:
            mt += [((3, 3, 3), 3), ((3, 4, 2), 3), ((2, 2, 2, 2), 2), ((2, 3), 3), ((3, 2, 1, 2), 2)]
        if deep:
            mt += [((3, 3, 3, 2), 3), ((4, 3, 3), 4), ((2, 2, 2, 2, 2), 2), ((3, 1, 3), 2), ((4, 4), 3)]
        for shp, R in mt:
            for mode in range(len(shp)):
                for w in (False, True):
                    out.append(dict(key=f"{be}/mttkrp/{shp}/R{R}/m{mode}/w{int(w)}", fn="mttkrp", be=be, shape=shp, R=R, mode=mode, w=w))
                    if be == "core":
                        out.append(dict(key=f"{be}/mttkrp_memory/{shp}/R{R}/m{mode}/w{int(w)}", fn="mttkrp_memory", be=be, shape=shp, R=R, mode=mode, w=w))
        # higher-order moments
        hm = [((2, 2), 2), ((2, 2), 3), ((2, 1), 2), ((3, 2), 2), ((2, 2, 2), 2), ((2, 2), 1)]
        for shp, order in hm:
            out.append(dict(key=f"{be}/higher_order_moment/{shp}/o{order}", fn="moment", be=be, shape=shp, order=order))
    # cross-backend agreement via dispatch + sample_khatri_rao (backend independent)
    sk = [([2, 2], 2, None, 2), ([2, 3, 2], 2, 1, 3), ([3, 2], 1, None, 2), ([2, 2, 2], 2, 0, 2), ([2, 2], 2, None, 1)]
    for rows, R, skip, ns in sk:
        for symidx in (False, True):
            out.append(dict(key=f"any/sample_khatri_rao/{rows}/R{R}/s{skip}/n{ns}/rng{int(symidx)}", fn="sample_kr", be="core", rows=rows, R=R, skip=skip, ns=ns, rng=symidx, max_paths=4000))
    return out


# ----------------------------------------------------------------------------- oracles (index sums)
def obj(shape):
    return np.empty(shape, dtype=object)


def o_mode_dot(T, M, mode):
    """(T x_mode M)[..., j, ...] = sum_l M[j, l] T[..., l, ...];  vector: mode removed"""
    shp = T.shape
    if M.ndim == 2:
        new = shp[:mode] + (M.shape[0],) + shp[mode + 1 :]
        out = obj(new)
        for idx in np.ndindex(*new):
            out[idx] = sum(M[idx[mode], l] * T[idx[:mode] + (l,) + idx[mode + 1 :]] for l in range(shp[mode]))
        return out
    new = shp[:mode] + shp[mode + 1 :]
    out = obj(new)
    for idx in np.ndindex(*new):
        out[idx] = sum(M[l] * T[idx[:mode] + (l,) + idx[mode:]] for l in range(shp[mode]))
    return out


def o_kron(mats):
    rows = [m.shape[0] for m in mats]
    cols = [m.shape[1] for m in mats]
    out = obj((int(np.prod(rows)), int(np.prod(cols))))
    for ri, i in enumerate(np.ndindex(*rows)):
        for ci, j in enumerate(np.ndindex(*cols)):
            p = 1
            for k, m in enumerate(mats):
                p = p * m[i[k], j[k]]
            out[ri, ci] = p
    return out


def o_kr(mats, w=None, mask=None):
    rows = [m.shape[0] for m in mats]
    R = mats[0].shape[1]
    out = obj((int(np.prod(rows)), R))
    for ri, i in enumerate(np.ndindex(*rows)):
        for r in range(R):
            p = 1
            for k, m in enumerate(mats):
                p = p * m[i[k], r]
            if w is not None:
                p = p * w[r]
            if mask is not None:
                p = p * mask[ri]
            out[ri, r] = p
    return out


def o_mttkrp(T, w, factors, mode):
    shp = T.shape
    R = factors[0].shape[1]
    out = obj((shp[mode], R))
    for i in range(shp[mode]):
        for r in range(R):
            tot = 0
            for idx in np.ndindex(*shp):
                if idx[mode] != i:
                    continue
                p = T[idx]
                for k, f in enumerate(factors):
                    if k != mode:
                        p = p * f[idx[k], r]
                tot = tot + p
            if w is not None:
                tot = tot * w[r]
            out[i, r] = tot
    return out


def harness(E, cfg):
    tenalg.set_backend(cfg["be"])
    try:
        _harness(E, cfg)
    finally:
        tenalg.set_backend("core")


def _inputs(E, names_shapes):
    return [E.real(n, s) for n, s in names_shapes]


def _harness(E, cfg):
    fn = cfg["fn"]
    if fn == "mode_dot":
        shp, mode = cfg["shape"], cfg["mode"]
        T = E.real("T", shp)
        if cfg["vec"]:
            M = E.real("v", (shp[mode],))
            out = tenalg.mode_dot(T, M, mode)
            spec = o_mode_dot(T, M, mode)
        else:
            J = cfg["rows"]
            if cfg["tr"]:
                M = E.real("M", (shp[mode], J))
                out = tenalg.mode_dot(T, M, mode, transpose=True)
                spec = o_mode_dot(T, M.T, mode)
            else:
                M = E.real("M", (J, shp[mode]))
                out = tenalg.mode_dot(T, M, mode)
                spec = o_mode_dot(T, M, mode)
        E.prove("shape", tuple(np.shape(out)) == spec.shape)
        E.prove_eq("value", out, spec)
    elif fn == "multi_mode_dot":
        shp, kinds, perm, skip, tr = cfg["shape"], cfg["kinds"], cfg["perm"], cfg["skip"], cfg["tr"]
        o = len(shp)
        T = E.real("T", shp)
        modes = list(range(o)) if perm is None else list(perm)
        ops = []
        for i, m in enumerate(modes):
            if kinds[i] == "v":
                ops.append(E.real(f"v{i}", (shp[m],)))
            elif tr:
                ops.append(E.real(f"M{i}", (shp[m], 2)))
            else:
                ops.append(E.real(f"M{i}", (2, shp[m])))
        out = tenalg.multi_mode_dot(T, ops, modes=None if perm is None else modes, skip=skip, transpose=tr)
        # spec: apply in descending mode order so that earlier axes keep their position
        spec = np.asarray(T, dtype=object)
        for i in sorted(range(o), key=lambda i: -modes[i]):
            if skip is not None and i == skip:
                continue
            op = ops[i]
            if op.ndim == 2 and tr:
                op = op.T
            spec = o_mode_dot(spec, np.asarray(op, dtype=object), modes[i])
        E.prove("shape", tuple(np.shape(out)) == spec.shape)
        if spec.shape == ():
            E.prove("value", E.eq(out if not isinstance(out, np.ndarray) else out[()], spec[()]))
        else:
            E.prove_eq("value", out, spec)
    elif fn == "multi_mode_dot_subset":
        shp = cfg["shape"]
        T = E.real("T", shp)
        M0 = E.real("M0", (2, shp[-1]))
        v1 = E.real("v1", (shp[0],))
        out = tenalg.multi_mode_dot(T, [M0, v1], modes=[len(shp) - 1, 0])
        spec = o_mode_dot(o_mode_dot(np.asarray(T, dtype=object), M0, len(shp) - 1), v1, 0)
        E.prove("shape", tuple(np.shape(out)) == spec.shape)
        E.prove_eq("value", out, spec)
    elif fn == "kronecker":
        mats = [E.real(f"A{i}", s) for i, s in enumerate(cfg["mats"])]
        out = tenalg.kronecker(mats, skip_matrix=cfg["skip"], reverse=cfg["rev"])
        use = [m for i, m in enumerate(mats) if i != cfg["skip"]]
        if cfg["rev"]:
            use = use[::-1]
        spec = o_kron(use)
        E.prove("shape", tuple(np.shape(out)) == spec.shape)
        E.prove_eq("value", out, spec)
    elif fn == "khatri_rao":
        R = cfg["R"]
        mats = [E.real(f"A{i}", (n, R)) for i, n in enumerate(cfg["rows"])]
        use = [m for i, m in enumerate(mats) if i != cfg["skip"]]
        w = E.real("w", (R,)) if cfg["w"] else None
        nrows = int(np.prod([m.shape[0] for m in use]))
        mask = E.real("mask", (nrows,)) if cfg["mask"] else None
        mk = None
        if mask is not None:
            # core expects something reshapeable to (-1, 1); einsum a tensor over the row modes
            mk = mask if cfg["be"] == "core" else mask.reshape([m.shape[0] for m in use])
        out = tenalg.khatri_rao(mats, weights=w, skip_matrix=cfg["skip"], mask=mk)
        spec = o_kr(use, w, mask)
        E.prove("shape", tuple(np.shape(out)) == spec.shape)
        E.prove_eq("value", out, spec)
    elif fn == "inner":
        s1, s2, nm = cfg["s1"], cfg["s2"], cfg["nm"]
        A = E.real("A", s1)
        B = E.real("B", s2)
        out = tenalg.inner(A, B, n_modes=nm)
        if nm is None:
            spec = sum(A[i] * B[i] for i in np.ndindex(*s1))
            E.prove("value", E.eq(out, spec))
        else:
            free1 = s1[: len(s1) - nm]
            com = s1[len(s1) - nm :]
            free2 = s2[nm:]
            spec = obj(free1 + free2)
            for i in np.ndindex(*free1):
                for j in np.ndindex(*free2):
                    spec[i + j] = sum(A[i + c] * B[c + j] for c in np.ndindex(*com))
            E.prove("shape", tuple(np.shape(out)) == spec.shape)
            if spec.shape == ():
                E.prove("value", E.eq(out if not isinstance(out, np.ndarray) else out[()], spec[()]))
            else:
                E.prove_eq("value", out, spec)
    elif fn == "outer":
        ts = [E.real(f"t{i}", s) for i, s in enumerate(cfg["shapes"])]
        out = tenalg.outer(ts)
        full = tuple(itertools.chain(*cfg["shapes"]))
        spec = obj(full)
        for idx in np.ndindex(*full):
            p = 1
            pos = 0
            for t in ts:
                p = p * t[idx[pos : pos + t.ndim]]
                pos += t.ndim
            spec[idx] = p
        E.prove("shape", tuple(np.shape(out)) == spec.shape)
        E.prove_eq("value", out, spec)
    elif fn == "batched_outer":
        ts = [E.real(f"t{i}", s) for i, s in enumerate(cfg["shapes"])]
        out = tenalg.batched_outer(ts)
        b = cfg["shapes"][0][0]
        full = (b,) + tuple(itertools.chain(*[s[1:] for s in cfg["shapes"]]))
        spec = obj(full)
        for idx in np.ndindex(*full):
            p = 1
            pos = 1
            for t in ts:
                k = t.ndim - 1
                p = p * t[(idx[0],) + idx[pos : pos + k]]
                pos += k
            spec[idx] = p
        E.prove("shape", tuple(np.shape(out)) == spec.shape)
        E.prove_eq("value", out, spec)
    elif fn == "tensordot":
        s1, s2, modes, bm = cfg["s1"], cfg["s2"], cfg["modes"], cfg["bm"]
        A = E.real("A", s1)
        B = E.real("B", s2)
        out = tenalg.tensordot(A, B, modes, batched_modes=bm)
        # independent normalisation of the mode specification
        def norm(m, batched):
            if isinstance(m, int):
                return ([m], [m]) if batched else (list(range(len(s1) - m, len(s1))), list(range(m)))
            if len(m) == 0:
                return [], []
            a, b = m
            return [x % len(s1) for x in a], [x % len(s2) for x in b]

        m1, m2 = norm(modes, False)
        b1, b2 = norm(bm, True)
        rem1 = [i for i in range(len(s1)) if i not in m1]  # batch modes stay in place among tensor1's modes
        rem2 = [i for i in range(len(s2)) if i not in m2 + b2]
        oshape = tuple(s1[i] for i in rem1) + tuple(s2[i] for i in rem2)
        spec = obj(oshape)
        cshape = tuple(s1[i] for i in m1)
        for idx in np.ndindex(*oshape):
            tot = 0
            for c in np.ndindex(*cshape):
                i1 = [None] * len(s1)
                i2 = [None] * len(s2)
                for p, i in enumerate(rem1):
                    i1[i] = idx[p]
                for p, i in enumerate(rem2):
                    i2[i] = idx[len(rem1) + p]
                for p, (x, y) in enumerate(zip(m1, m2)):
                    i1[x] = c[p]
                    i2[y] = c[p]
                for x, y in zip(b1, b2):
                    i2[y] = i1[x]
                tot = tot + A[tuple(i1)] * B[tuple(i2)]
            spec[idx] = tot
        E.prove("shape", tuple(np.shape(out)) == spec.shape)
        if spec.shape == ():
            E.prove("value", E.eq(out if not isinstance(out, np.ndarray) else out[()], spec[()]))
        else:
            E.prove_eq("value", out, spec)
    elif fn in ("mttkrp", "mttkrp_memory"):
        shp, R, mode = cfg["shape"], cfg["R"], cfg["mode"]
        T = E.real("T", shp)
        fs = [E.real(f"A{i}", (n, R)) for i, n in enumerate(shp)]
        w = E.real("w", (R,)) if cfg["w"] else None
        if fn == "mttkrp":
            out = tenalg.unfolding_dot_khatri_rao(T, (w, fs), mode)
        else:
            from tensorly.tenalg.core_tenalg.mttkrp import unfolding_dot_khatri_rao_memory

            out = unfolding_dot_khatri_rao_memory(T, (w, fs), mode)
        spec = o_mttkrp(T, w, fs, mode)
        E.prove("shape", tuple(np.shape(out)) == spec.shape)
        E.prove_eq("value", out, spec)
    elif fn == "moment":
        shp, order = cfg["shape"], cfg["order"]
        X = E.real("X", shp)
        try:
            out = tenalg.higher_order_moment(X, order)
        except Exception as e:  # the routine must not reject a valid sample matrix
            E.prove("no_exception", False, detail=f"{type(e).__name__}: {e}")
            return
        n = shp[0]
        feat = shp[1:]
        oshape = feat * order
        spec = obj(oshape)
        for idx in np.ndindex(*oshape):
            tot = 0
            for s in range(n):
                p = 1
                for k in range(order):
                    p = p * X[(s,) + idx[k * len(feat) : (k + 1) * len(feat)]]
                tot = tot + p
            spec[idx] = tot / n
        E.prove("shape", tuple(np.shape(out)) == spec.shape)
        E.prove_eq("value", out, spec)
    elif fn == "sample_kr":
        from tensorly.decomposition._cp import sample_khatri_rao

        R, ns, skip = cfg["R"], cfg["ns"], cfg["skip"]
        mats = [E.real(f"A{i}", (n, R)) for i, n in enumerate(cfg["rows"])]
        use = [m for i, m in enumerate(mats) if i != skip]
        if cfg["rng"] and E.symbolic:
            # indices drawn from the (stubbed) generator: the run forks over every index tuple
            skr, idx_list, idx_kr = sample_khatri_rao(mats, ns, skip_matrix=skip, return_sampled_rows=True, random_state=7)
        else:
            if cfg["rng"]:
                skr, idx_list, idx_kr = sample_khatri_rao(mats, ns, skip_matrix=skip, return_sampled_rows=True, random_state=7)
            else:
                idx_list = [[(3 * s + 2 * k + 1) % m.shape[0] for s in range(ns)] for k, m in enumerate(use)]
                skr, idx_list, idx_kr = sample_khatri_rao(mats, ns, skip_matrix=skip, indices_list=idx_list, return_sampled_rows=True)
        full = o_kr(use)
        E.prove("shape", tuple(np.shape(skr)) == (ns, R))
        ok = []
        for s in range(ns):
            row = 0
            for k, m in enumerate(use):
                row = row * m.shape[0] + int(idx_list[k][s])
            ok.append(int(idx_kr[s]) == row)
            for r in range(R):
                ok.append(E.eq(skr[s, r], full[row, r]))
        E.prove("rows_are_kr_rows", ok)
        E.prove("indices_in_range", [0 <= int(idx_list[k][s]) < m.shape[0] for k, m in enumerate(use) for s in range(ns)])
    else:
        raise KeyError(fn)
