"""C03 -- factorised tensors (CP, Tucker, TT, TR, TT-matrix, PARAFAC2) reconstruct to their defining
contraction; unfolded / vectorised / matrix / slice views, reported shape and rank, and the norm agree with
that dense reconstruction; structurally invalid factor sets are rejected.

Every factor / core / weight / mask entry is a solver variable; the real conversion functions and wrapper
classes run on them under both tenalg backends; the oracle is the defining index sum written with Python
loops over the *input variables* (it never calls tensorly); views are compared with index formulas
(row = i_mode, column = row-major rank of the remaining indices; vec = row-major ravel).

Families of configurations (key = <tenalg backend>/<family>/...):
  cp, cp_order1, tucker, tt, tr, ttm, p2   valid factor sets: conversion, views, shape/rank, norm, tuple and wrapper input
  tucker_opts                   skip_factor / transpose_factors options of tucker_to_tensor/_unfolded/_vec
  reject/<format>/<case>        structurally invalid concrete shape combination: validator, wrapper constructor and
                                conversion must raise
  p2_orth                       unconstrained symbolic projections: the validator raises iff max|P^T P - I| > 1e-5
"""
import itertools

import numpy as np

import tensorly as tl
from tensorly import tenalg
from tensorly import cp_tensor as CP
from tensorly import tucker_tensor as TK
from tensorly import tt_tensor as TT
from tensorly import tr_tensor as TR
from tensorly import tt_matrix as TM
from tensorly import parafac2_tensor as P2

PID = "C03"
ENGINE = "E1"
EXPLANATION = (
    "Bounded symbolic execution of the real conversion routines and wrapper classes of the six factorised formats on NumPy object "
    "arrays of z3 reals (every factor, core, weight and mask entry is a solver variable; PARAFAC2 projections are matrices of solver "
    "variables under the precondition P^T P = I, which the reconstruction identities do not need and which only lets the validator's "
    "tolerance test pass), under both tenalg backends. Each dense entry is compared with the defining "
    "sum of outer products / chain contraction over the input variables by an SMT validity query (polynomial identity); unfolded, "
    "vectorised, matrix and slice views with row-major index formulas of that reconstruction; reported shape/rank with the sizes the "
    "harness built; norms through the root atom's argument (norm*norm == sum of squared dense entries, norm >= 0). Structural "
    "rejection: every listed invalid shape combination must make the validator, the wrapper constructor and the conversion raise; "
    "for PARAFAC2 orthonormality the validator's accept/raise branch is compared per path with max|P^T P - I| > 1e-5 on "
    "unconstrained symbolic projections."
)
ENCODED = [
    "tensorly.cp_tensor.cp_to_tensor",
    "tensorly.cp_tensor.cp_to_unfolded",
    "tensorly.cp_tensor.cp_to_vec",
    "tensorly.cp_tensor.cp_norm",
    "tensorly.cp_tensor._validate_cp_tensor",
    "tensorly.cp_tensor.CPTensor",
    "tensorly.tucker_tensor.tucker_to_tensor",
    "tensorly.tucker_tensor.tucker_to_unfolded",
    "tensorly.tucker_tensor.tucker_to_vec",
    "tensorly.tucker_tensor._validate_tucker_tensor",
    "tensorly.tucker_tensor.TuckerTensor",
    "tensorly.tt_tensor.tt_to_tensor",
    "tensorly.tt_tensor.tt_to_unfolded",
    "tensorly.tt_tensor.tt_to_vec",
    "tensorly.tt_tensor._validate_tt_tensor",
    "tensorly.tt_tensor.TTTensor",
    "tensorly.tr_tensor.tr_to_tensor",
    "tensorly.tr_tensor.tr_to_unfolded",
    "tensorly.tr_tensor.tr_to_vec",
    "tensorly.tr_tensor._validate_tr_tensor",
    "tensorly.tr_tensor.TRTensor",
    "tensorly.tt_matrix.tt_matrix_to_matrix",
    "tensorly.tt_matrix.tt_matrix_to_unfolded",
    "tensorly.tt_matrix.tt_matrix_to_vec",
    "tensorly.tt_matrix._validate_tt_matrix",
    "tensorly.tt_matrix.TTMatrix",
    "tensorly.tenalg.core_tenalg._tt_matrix.tt_matrix_to_tensor",
    "tensorly.tenalg.einsum_tenalg._tt_matrix.tt_matrix_to_tensor",
    "tensorly.parafac2_tensor.parafac2_to_tensor",
    "tensorly.parafac2_tensor.parafac2_to_slice",
    "tensorly.parafac2_tensor.parafac2_to_slices",
    "tensorly.parafac2_tensor.parafac2_to_unfolded",
    "tensorly.parafac2_tensor.parafac2_to_vec",
    "tensorly.parafac2_tensor.apply_parafac2_projections",
    "tensorly.parafac2_tensor._validate_parafac2_tensor",
    "tensorly.parafac2_tensor.Parafac2Tensor",
    "tensorly._factorized_tensor.FactorizedTensor",
    "tensorly.tenalg.core_tenalg._khatri_rao.khatri_rao",
    "tensorly.tenalg.einsum_tenalg._khatri_rao.khatri_rao",
    "tensorly.tenalg.core_tenalg.n_mode_product.multi_mode_dot",
    "tensorly.tenalg.einsum_tenalg.n_mode_product.multi_mode_dot",
    "tensorly.base.unfold",
    "tensorly.base.fold",
    "tensorly.base.tensor_to_vec",
]
BOUNDS = {
    "quick": "orders 1-3 (CP/TT; Tucker/TR 2-3; TT-matrix 1-2 cores), mode sizes in {1,2} plus one shape with a 3, ranks in {1,2} (TT/TR rank vectors incl. rank-1 bonds, "
    "TR ring rank 1-2), weights absent/present, CP mask, tuple and wrapper input, every unfolding mode, both tenalg backends; PARAFAC2: 1-2 slices of lengths 2/3, R <= 2, third mode 1-2",
    "thorough": "orders 1-4, mode sizes in {1,2,3}, ranks in {1,2,3}, TT-matrix 1-3 cores, PARAFAC2 up to 3 slices; same option spaces",
}
OUTSIDE = [
    "sizes > 3, orders > 4, ranks > 3",
    "numerical orthonormality tolerance: only the two sides of the validator's own 1e-5 threshold are distinguished",
    "complex entries, sparse backend, IEEE rounding",
]
TRUSTED = ["z3", "NumPy object-dtype structural ops (reshape/moveaxis/transpose/dot/einsum/tensordot)", "reals instead of IEEE floats", "root-atom abstraction of sqrt (norm compared through its argument)"]
ASSUMPTIONS = ["entries range over the reals, not IEEE-754 floats; a reported violation is replayed in float64 on the real NumPy backend"]


# ----------------------------------------------------------------------------- configurations
def _shapes(orders, sizes):
    out = []
    for o in orders:
        out += list(itertools.product(sizes, repeat=o))
    return out


def _rank_vectors(n_inner, rs):
    return list(itertools.product(rs, repeat=n_inner))


REJECT_CASES = {
    # name: (format, payload) -- payload = concrete shapes of an invalid factor set
    "cp/col_mismatch_second": ("cp", dict(w=None, fs=[(2, 2), (2, 1)])),
    "cp/col_mismatch_wider": ("cp", dict(w=None, fs=[(2, 2), (2, 3)])),
    "cp/col_mismatch_last_of_three": ("cp", dict(w=(2,), fs=[(2, 2), (2, 2), (2, 1)])),
    "cp/col_mismatch_first": ("cp", dict(w=None, fs=[(2, 1), (2, 2), (2, 2)])),
    "cp/weights_too_long": ("cp", dict(w=(3,), fs=[(2, 2), (2, 2)])),
    "cp/weights_too_short": ("cp", dict(w=(1,), fs=[(2, 2), (2, 2)])),
    "cp/factor_3d": ("cp", dict(w=None, fs=[(2, 2), (2, 2, 1)])),
    "tucker/rank_mismatch_last": ("tucker", dict(core=(2, 2), fs=[(2, 2), (2, 1)])),
    "tucker/rank_mismatch_first": ("tucker", dict(core=(1, 2), fs=[(2, 2), (2, 2)])),
    "tucker/rank_mismatch_middle": ("tucker", dict(core=(2, 2, 2), fs=[(2, 2), (2, 3), (2, 2)])),
    "tucker/too_few_factors": ("tucker", dict(core=(2, 2, 2), fs=[(2, 2), (2, 2)])),
    "tucker/too_many_factors": ("tucker", dict(core=(2, 2), fs=[(2, 2), (2, 2), (2, 2)])),
    "tt/neighbour_mismatch": ("tt", dict(fs=[(1, 2, 2), (1, 2, 1)])),
    "tt/neighbour_mismatch_middle": ("tt", dict(fs=[(1, 2, 2), (2, 2, 1), (2, 2, 1)])),
    "tt/first_boundary": ("tt", dict(fs=[(2, 2, 2), (2, 2, 1)])),
    "tt/last_boundary": ("tt", dict(fs=[(1, 2, 2), (2, 2, 2)])),
    "tt/both_boundaries": ("tt", dict(fs=[(2, 2, 2), (2, 2, 2)])),
    "tt/single_core_boundary": ("tt", dict(fs=[(1, 2, 2)])),
    "tt/core_2d": ("tt", dict(fs=[(1, 2, 2), (2, 2)])),
    "tt/core_4d": ("tt", dict(fs=[(1, 2, 2), (2, 2, 1, 1)])),
    "tr/neighbour_mismatch": ("tr", dict(fs=[(2, 2, 1), (2, 2, 2)])),
    "tr/neighbour_mismatch_middle": ("tr", dict(fs=[(2, 2, 2), (2, 2, 1), (2, 2, 2)])),
    "tr/ring_not_closed": ("tr", dict(fs=[(2, 2, 2), (2, 2, 1)])),
    "tr/ring_not_closed_three": ("tr", dict(fs=[(1, 2, 2), (2, 2, 2), (2, 2, 2)])),
    "tr/core_2d": ("tr", dict(fs=[(2, 2, 2), (2, 2)])),
    "tr/core_4d": ("tr", dict(fs=[(2, 2, 2), (2, 2, 1, 2)])),
    "ttm/neighbour_mismatch": ("ttm", dict(fs=[(1, 2, 2, 2), (1, 2, 2, 1)])),
    "ttm/first_boundary": ("ttm", dict(fs=[(2, 2, 2, 2), (2, 2, 2, 1)])),
    "ttm/last_boundary": ("ttm", dict(fs=[(1, 2, 2, 2), (2, 2, 2, 2)])),
    "ttm/core_3d": ("ttm", dict(fs=[(1, 2, 2, 2), (2, 2, 1)])),
    "ttm/core_5d": ("ttm", dict(fs=[(1, 2, 2, 2), (2, 2, 2, 1, 1)])),
    # PARAFAC2: w, A, B, C shapes and projection shapes (orthonormal frames wherever rows >= cols)
    "p2/projection_cols_too_few": ("p2", dict(w=None, A=(2, 2), B=(2, 2), C=(2, 2), Ps=[(2, 2), (2, 1)])),
    "p2/projection_cols_too_many": ("p2", dict(w=None, A=(2, 1), B=(1, 1), C=(2, 1), Ps=[(2, 1), (2, 2)])),
    "p2/too_few_projections": ("p2", dict(w=None, A=(2, 2), B=(2, 2), C=(2, 2), Ps=[(2, 2)])),
    "p2/too_many_projections": ("p2", dict(w=None, A=(1, 2), B=(2, 2), C=(2, 2), Ps=[(2, 2), (2, 2)])),
    "p2/C_cols": ("p2", dict(w=None, A=(2, 2), B=(2, 2), C=(2, 1), Ps=[(2, 2), (2, 2)])),
    "p2/B_cols": ("p2", dict(w=None, A=(2, 2), B=(2, 1), C=(2, 2), Ps=[(2, 2), (2, 2)])),
    "p2/B_rows": ("p2", dict(w=None, A=(2, 2), B=(1, 2), C=(2, 2), Ps=[(2, 2), (2, 2)])),
    "p2/weights_too_long": ("p2", dict(w=(3,), A=(2, 2), B=(2, 2), C=(2, 2), Ps=[(2, 2), (2, 2)])),
    "p2/weights_too_short": ("p2", dict(w=(1,), A=(2, 2), B=(2, 2), C=(2, 2), Ps=[(2, 2), (2, 2)])),
    "p2/two_factors": ("p2", dict(w=None, A=(2, 2), B=(2, 2), C=None, Ps=[(2, 2), (2, 2)])),
}


def configs(tier):
    q = tier == "quick"
    out = []

    def add(key, **kw):
        kw["key"] = key
        kw.setdefault("be", key.split("/")[0] if key.split("/")[0] in ("core", "einsum") else "core")
        kw.setdefault("timeout_s", 170 if q else 1500)
        out.append(kw)

    sizes = (1, 2) if q else (1, 2, 3)
    rs = (1, 2) if q else (1, 2, 3)
    for be in ("core", "einsum"):
        # ---- CP
        shapes = _shapes((2, 3), sizes) if q else _shapes((2, 3), sizes) + _shapes((4,), (1, 2)) + [(3, 2, 2, 2), (2, 3, 1, 3), (3, 3, 3, 3)]
        if q:
            shapes += [(2, 3, 2), (3, 2)]
        for shp in sorted(set(shapes)):
            for R in rs:
                for w in (0, 1):
                    add(f"{be}/cp/{shp}/R{R}/w{w}", fam="cp", shape=shp, R=R, w=w)
        # order-1 CP tensors (vectors) have their own branch in cp_to_tensor: separate family so that findings can be matched by key
        for shp in [(2,)] if q else [(1,), (2,), (3,)]:
            for R in (1, 2):
                for w in (0, 1):
                    add(f"{be}/cp_order1/{shp}/R{R}/w{w}", fam="cp", shape=shp, R=R, w=w)
        # ---- Tucker
        shapes = _shapes((2, 3), sizes) if q else _shapes((2, 3), sizes) + _shapes((4,), (1, 2)) + [(3, 2, 2, 3)]
        if q:
            shapes += [(2, 3, 2)]
        for shp in sorted(set(shapes)):
            o = len(shp)
            rks = {tuple([1] * o), tuple([2] * o), tuple(1 + (k % 2) for k in range(o)), tuple(2 - (k % 2) for k in range(o))}
            if not q and o <= 3:
                rks |= {tuple([3] * o), tuple((3, 1, 2, 3)[:o])}
            for rk in sorted(rks):
                add(f"{be}/tucker/{shp}/r{rk}", fam="tucker", shape=shp, ranks=rk)
        for shp, rk in [((2, 2), (2, 2)), ((2, 1, 2), (1, 2, 2)), ((2, 2, 2), (2, 1, 2))] + ([] if q else [((3, 2, 2), (2, 3, 2)), ((2, 2, 2, 2), (2, 1, 2, 2))]):
            add(f"{be}/tucker_opts/{shp}/r{rk}", fam="tucker_opts", shape=shp, ranks=rk)
        # ---- TT-matrix
        ttm = []
        for d in (1, 2) if q else (1, 2, 3):
            dims = list(itertools.product((1, 2), repeat=2)) if d > 1 else list(itertools.product(sizes, repeat=2))
            for io in itertools.product(dims, repeat=d):
                if d == 3 and sum(a * b for a, b in io) < 8:
                    continue
                for inner in _rank_vectors(d - 1, (1, 2) if d > 1 else (1,)):
                    ttm.append((tuple(io), (1,) + inner + (1,)))
        if not q:
            ttm += [(((3, 2), (2, 3)), (1, 3, 1)), (((2, 3), (3, 1), (1, 2)), (1, 2, 3, 1))]
        else:
            ttm += [(((3, 2), (2, 1)), (1, 2, 1))]
        for io, rk in ttm:
            add(f"{be}/ttm/{io}/r{rk}", fam="ttm", io=io, ranks=rk)
        # ---- TT / TR / PARAFAC2 only use tl.dot/reshape (no tenalg dispatch): full grid under 'core', a sample under 'einsum'
        sample = be == "einsum"
        shapes = _shapes((1, 2, 3), sizes) if q else _shapes((1, 2, 3), sizes) + _shapes((4,), (1, 2)) + [(3, 2, 2, 3)]
        if q:
            shapes += [(2, 3, 2)]
        for shp in sorted(set(shapes)):
            o = len(shp)
            inner = _rank_vectors(o - 1, rs if o <= 3 else (1, 2))
            if sample:
                inner = inner[-1:]
                if 1 in shp:
                    continue
            for iv in inner:
                rk = (1,) + iv + (1,)
                add(f"{be}/tt/{shp}/r{rk}", fam="tt", shape=shp, ranks=rk)
        shapes = _shapes((2, 3), sizes) if q else _shapes((2, 3), sizes) + _shapes((4,), (1, 2))
        if q:
            shapes += [(2, 3, 2)]
        for shp in sorted(set(shapes)):
            o = len(shp)
            rvs = _rank_vectors(o, (1, 2))
            if not q and o <= 3:
                rvs += [tuple([3] * o), tuple((3, 1, 2)[:o]), tuple((2, 3, 3)[:o])]
            if sample:
                rvs = [tuple([2] * o)]
                if 1 in shp:
                    continue
            for rv_ in rvs:
                rk = tuple(rv_) + (rv_[0],)
                add(f"{be}/tr/{shp}/r{rk}", fam="tr", shape=shp, ranks=rk)
        p2 = []
        for R in (1, 2):
            for K in (1, 2):
                p2 += [((2,), R, K), ((2, 3), R, K), ((3, 2), R, K), ((2, 2), R, K)]
        p2 += [((1,), 1, 2), ((1, 2), 1, 2), ((3,), 1, 1)]
        if not q:
            p2 += [((2, 3, 2), 2, 2), ((3, 3), 2, 2), ((2, 2, 3), 1, 3), ((3, 2), 2, 3), ((3,), 3, 2)]
        if sample:
            p2 = [((2, 3), 2, 2)]
        for Js, R, K in p2:
            for w in (0, 1):
                add(f"{be}/p2/J{Js}/R{R}/K{K}/w{w}", fam="p2", Js=Js, R=R, K=K, w=w)
    # ---- structural rejection (shape level: independent of the tenalg backend)
    for name, (fmt, _) in REJECT_CASES.items():
        for be in ("core", "einsum") if fmt in ("cp", "tucker", "ttm") else ("core",):
            add(f"{be}/reject/{name}", fam="reject", case=name, be=be)
    # ---- PARAFAC2 orthonormality branch of the validator on unconstrained projections
    orth = [((2,), 1), ((2,), 2), ((2, 2), 1), ((3,), 2), ((2, 3), 2)]
    if not q:
        orth += [((2, 2), 2), ((3, 3), 2), ((3,), 3), ((2, 2, 2), 1)]
    for Js, R in orth:
        add(f"any/p2_orth/J{Js}/R{R}", fam="p2_orth", Js=Js, R=R, be="core", max_paths=200)
    return out


# ----------------------------------------------------------------------------- oracles (index sums over the inputs)
def obj(shape):
    return np.empty(shape, dtype=object)


def d_cp(w, fs, mask=None):
    """sum_r w_r prod_k A_k[i_k, r]  (entrywise times mask)"""
    shape = tuple(f.shape[0] for f in fs)
    R = fs[0].shape[1]
    out = obj(shape)
    for idx in np.ndindex(*shape):
        tot = 0
        for r in range(R):
            p = 1 if w is None else w[r]
            for k, f in enumerate(fs):
                p = p * f[idx[k], r]
            tot = tot + p
        if mask is not None:
            tot = tot * mask[idx]
        out[idx] = tot
    return out


def d_tucker(core, fs):
    """sum_{r_1..r_n} G[r_1..r_n] prod_k U_k[i_k, r_k]"""
    shape = tuple(f.shape[0] for f in fs)
    out = obj(shape)
    for idx in np.ndindex(*shape):
        tot = 0
        for ridx in np.ndindex(*core.shape):
            p = core[ridx]
            for k, f in enumerate(fs):
                p = p * f[idx[k], ridx[k]]
            tot = tot + p
        out[idx] = tot
    return out


def _chain(mats):
    """entries of the matrix product of a list of 2-D object arrays, by explicit sums"""
    cur = mats[0]
    for m in mats[1:]:
        nxt = obj((cur.shape[0], m.shape[1]))
        for a in range(cur.shape[0]):
            for b in range(m.shape[1]):
                nxt[a, b] = sum(cur[a, c] * m[c, b] for c in range(m.shape[0]))
        cur = nxt
    return cur


def _slice_mat(G, sel):
    """G[:, sel..., :] as an explicit (r_left, r_right) object matrix"""
    out = obj((G.shape[0], G.shape[-1]))
    for a in range(G.shape[0]):
        for b in range(G.shape[-1]):
            out[a, b] = G[(a,) + tuple(sel) + (b,)]
    return out


def d_tt(fs):
    """G_1[0, i_1, :] G_2[:, i_2, :] ... G_n[:, i_n, 0]"""
    shape = tuple(f.shape[1] for f in fs)
    out = obj(shape)
    for idx in np.ndindex(*shape):
        out[idx] = _chain([_slice_mat(f, (idx[k],)) for k, f in enumerate(fs)])[0, 0]
    return out


def d_tr(fs):
    """trace(G_1[:, i_1, :] ... G_n[:, i_n, :])"""
    shape = tuple(f.shape[1] for f in fs)
    out = obj(shape)
    for idx in np.ndindex(*shape):
        m = _chain([_slice_mat(f, (idx[k],)) for k, f in enumerate(fs)])
        out[idx] = sum(m[a, a] for a in range(m.shape[0]))
    return out


def d_ttm(fs):
    """T[i_1..i_d, o_1..o_d] = G_1[0, i_1, o_1, :] ... G_d[:, i_d, o_d, 0]"""
    ins = tuple(f.shape[1] for f in fs)
    outs = tuple(f.shape[2] for f in fs)
    d = len(fs)
    out = obj(ins + outs)
    for idx in np.ndindex(*(ins + outs)):
        out[idx] = _chain([_slice_mat(f, (idx[k], idx[d + k])) for k, f in enumerate(fs)])[0, 0]
    return out


def d_p2(w, A, B, C, Ps):
    """slices X_i[j, k] = sum_r w_r A[i, r] (P_i B)[j, r] C[k, r]; evolving factors P_i B; zero-padded tensor"""
    I, R = A.shape
    K = C.shape[0]
    Bis, slices = [], []
    for i in range(I):
        P = Ps[i]
        Bi = obj((P.shape[0], R))
        for j in range(P.shape[0]):
            for r in range(R):
                Bi[j, r] = sum(P[j, s] * B[s, r] for s in range(R))
        X = obj((P.shape[0], K))
        for j in range(P.shape[0]):
            for k in range(K):
                X[j, k] = sum((1 if w is None else w[r]) * A[i, r] * Bi[j, r] * C[k, r] for r in range(R))
        Bis.append(Bi)
        slices.append(X)
    J = max(P.shape[0] for P in Ps)
    T = obj((I, J, K))
    for i in range(I):
        for j in range(J):
            for k in range(K):
                T[i, j, k] = slices[i][j, k] if j < Ps[i].shape[0] else 0
    return Bis, slices, T


def o_unfold(D, mode):
    """row = i_mode, column = row-major rank of the remaining indices (in their original order)"""
    shp = D.shape
    rest = [k for k in range(len(shp)) if k != mode]
    ncol = 1
    for k in rest:
        ncol *= shp[k]
    out = obj((shp[mode], ncol))
    for idx in np.ndindex(*shp):
        col = 0
        for k in rest:
            col = col * shp[k] + idx[k]
        out[idx[mode], col] = D[idx]
    return out


def o_vec(D):
    out = obj((int(np.prod(D.shape)) if D.shape else 1,))
    for pos, idx in enumerate(np.ndindex(*D.shape)):
        out[pos] = D[idx]
    return out


def frame(E, name, n, k):
    """n x k matrix of input variables constrained (precondition) to have orthonormal columns: P^T P = I exactly.
    The reconstruction identities do not depend on the constraint; it only makes the validator's tolerance test pass."""
    P = E.real(name, (n, k))
    pre = []
    for a in range(k):
        for b in range(a, k):
            pre.append(E.eq(sum(P[j, a] * P[j, b] for j in range(n)), 1 if a == b else 0))
    E.assume(pre)
    return P


# ----------------------------------------------------------------------------- obligation helpers
def call(E, name, fn):
    """run an observable; tensorly raising on a valid factor set is a failed obligation"""
    try:
        return True, fn()
    except Exception as e:  # noqa
        E.prove(name + "/no_exception", False, detail=f"{type(e).__name__}: {str(e)[:200]}")
        return False, None


def chk(E, name, fn, spec):
    ok, out = call(E, name, fn)
    if not ok:
        return
    spec = np.asarray(spec, dtype=object)
    same = tuple(np.shape(out)) == spec.shape
    E.prove(name + "/shape", same, detail=f"{tuple(np.shape(out))} vs {spec.shape}")
    if same:
        if spec.shape == ():
            E.prove(name + "/value", E.eq(out if not isinstance(out, np.ndarray) else out[()], spec[()]))
        else:
            E.prove_eq(name + "/value", out, spec)


def chk_norm(E, name, fn, D):
    tot = 0
    for idx in np.ndindex(*D.shape):
        tot = tot + D[idx] * D[idx]
    if hasattr(E, "nonneg"):
        # the oracle's sum of squares is registered as non-negative: a guard |.| around a polynomial-identical argument
        # (cp_norm takes sqrt(|sum|)) then resolves to the argument itself
        E.nonneg(tot)
    ok, n = call(E, name, fn)
    if not ok:
        return
    if isinstance(n, np.ndarray):
        E.prove(name + "/scalar", n.shape == ())
        n = n[()]
    sq = n * n
    if E.symbolic and hasattr(E, "nonneg"):
        from vt import sym

        if isinstance(sq, sym.SR) and sq.c is None:
            sq = sym.SR(sym.CTX.resolve_abs(sym.term(sq)))
    E.prove(name + "/square", E.eq(sq, tot))
    E.prove(name + "/nonneg", E.ge(n, 0))


def views(E, tag, D, to_tensor, to_unfolded, to_vec, modes=None):
    chk(E, f"{tag}/to_tensor", to_tensor, D)
    for m in range(D.ndim) if modes is None else modes:
        chk(E, f"{tag}/to_unfolded/m{m}", (lambda m=m: to_unfolded(m)), o_unfold(D, m))
    chk(E, f"{tag}/to_vec", to_vec, o_vec(D))


def chk_meta(E, name, fn, shape, rank):
    ok, sr = call(E, name, fn)
    if not ok:
        return
    s, r = sr
    E.prove(name + "/shape", _plain(s) == _plain(shape), detail=f"{s} vs {shape}")
    E.prove(name + "/rank", _plain(r) == _plain(rank), detail=f"{r} vs {rank}")


def _plain(x):
    if isinstance(x, (tuple, list)):
        return tuple(_plain(e) for e in x)
    return int(x)


# ----------------------------------------------------------------------------- harness
def harness(E, cfg):
    tenalg.set_backend(cfg["be"])
    try:
        globals()["h_" + cfg["fam"]](E, cfg)
    finally:
        tenalg.set_backend("core")


def h_cp(E, cfg):
    shape, R = cfg["shape"], cfg["R"]
    fs = [E.real(f"A{k}", (n, R)) for k, n in enumerate(shape)]
    w = E.real("w", (R,)) if cfg["w"] else None
    mask = E.real("mask", shape)
    D = d_cp(w, fs)
    Dm = d_cp(w, fs, mask)
    t = (w, list(fs))
    views(E, "tuple", D, lambda: tl.cp_to_tensor(t), lambda m: tl.cp_to_unfolded(t, m), lambda: tl.cp_to_vec(t))
    chk(E, "tuple/to_tensor_masked", lambda: tl.cp_to_tensor(t, mask=mask), Dm)
    chk_norm(E, "tuple/cp_norm", lambda: tl.cp_norm(t), D)
    chk_meta(E, "tuple/validate", lambda: CP._validate_cp_tensor(t), shape, R)
    ok, c = call(E, "wrapper/construct", lambda: CP.CPTensor((w, list(fs))))
    if not ok:
        return
    E.prove("wrapper/shape_attr", _plain(c.shape) == tuple(shape), detail=str(c.shape))
    E.prove("wrapper/rank_attr", _plain(c.rank) == R, detail=str(c.rank))
    if w is None:
        chk(E, "wrapper/default_weights", lambda: c.weights, np.array([1] * R, dtype=object))
    views(E, "wrapper", D, c.to_tensor, c.to_unfolded, c.to_vec)
    views(E, "wrapper_fn", D, lambda: tl.cp_to_tensor(c), lambda m: tl.cp_to_unfolded(c, m), lambda: tl.cp_to_vec(c))
    chk(E, "wrapper_fn/to_tensor_masked", lambda: tl.cp_to_tensor(c, mask=mask), Dm)
    chk_norm(E, "wrapper/norm", c.norm, D)
    chk_norm(E, "wrapper/base_norm", lambda: FT_norm(c), D)
    chk_meta(E, "wrapper/validate", lambda: CP._validate_cp_tensor(c), shape, R)


def FT_norm(x):
    from tensorly._factorized_tensor import FactorizedTensor

    return FactorizedTensor.norm(x)


def h_tucker(E, cfg):
    shape, ranks = cfg["shape"], cfg["ranks"]
    core = E.real("G", ranks)
    fs = [E.real(f"U{k}", (n, r)) for k, (n, r) in enumerate(zip(shape, ranks))]
    D = d_tucker(core, fs)
    t = (core, list(fs))
    views(E, "tuple", D, lambda: tl.tucker_to_tensor(t), lambda m: tl.tucker_to_unfolded(t, m), lambda: tl.tucker_to_vec(t))
    chk_meta(E, "tuple/validate", lambda: TK._validate_tucker_tensor(t), shape, ranks)
    ok, c = call(E, "wrapper/construct", lambda: TK.TuckerTensor((core, list(fs))))
    if not ok:
        return
    E.prove("wrapper/shape_attr", _plain(c.shape) == tuple(shape), detail=str(c.shape))
    E.prove("wrapper/rank_attr", _plain(c.rank) == tuple(ranks), detail=str(c.rank))
    views(E, "wrapper", D, c.to_tensor, c.to_unfolded, c.to_vec)
    views(E, "wrapper_fn", D, lambda: tl.tucker_to_tensor(c), lambda m: tl.tucker_to_unfolded(c, m), lambda: tl.tucker_to_vec(c))
    chk_norm(E, "wrapper/norm", c.norm, D)


def h_tucker_opts(E, cfg):
    shape, ranks = cfg["shape"], cfg["ranks"]
    o = len(shape)
    core = E.real("G", ranks)
    fs = [E.real(f"U{k}", (n, r)) for k, (n, r) in enumerate(zip(shape, ranks))]
    D = d_tucker(core, fs)
    fsT = [E.real(f"V{k}", (r, n)) for k, (n, r) in enumerate(zip(shape, ranks))]
    DT = d_tucker(core, [np.asarray(f, dtype=object).T for f in fsT])
    tT = (core, list(fsT))
    chk(E, "transpose/to_tensor", lambda: tl.tucker_to_tensor(tT, transpose_factors=True), DT)
    chk(E, f"transpose/to_unfolded/m{o - 1}", lambda: tl.tucker_to_unfolded(tT, o - 1, transpose_factors=True), o_unfold(DT, o - 1))
    chk(E, "transpose/to_vec", lambda: tl.tucker_to_vec(tT, transpose_factors=True), o_vec(DT))
    t = (core, list(fs))
    for k in range(o):
        eye = obj((ranks[k], ranks[k]))
        for a in range(ranks[k]):
            for b in range(ranks[k]):
                eye[a, b] = 1 if a == b else 0
        Dk = d_tucker(core, [eye if j == k else f for j, f in enumerate(fs)])
        chk(E, f"skip{k}/to_tensor", lambda k=k: tl.tucker_to_tensor(t, skip_factor=k), Dk)
        chk(E, f"skip{k}/to_unfolded/m{k}", lambda k=k: tl.tucker_to_unfolded(t, k, skip_factor=k), o_unfold(Dk, k))
        chk(E, f"skip{k}/to_vec", lambda k=k: tl.tucker_to_vec(t, skip_factor=k), o_vec(Dk))
    chk(E, "plain/to_tensor", lambda: tl.tucker_to_tensor(t), D)


def _chain_family(E, cfg, dense, validate, Wrapper, to_tensor, to_unfolded, to_vec, shape_of):
    ranks = cfg["ranks"]
    fs = cfg["_fs"]
    D = dense(fs)
    shape = shape_of(fs)
    views(E, "list", D, lambda: to_tensor(list(fs)), lambda m: to_unfolded(list(fs), m), lambda: to_vec(list(fs)))
    chk_meta(E, "list/validate", lambda: validate(list(fs)), shape, ranks)
    ok, c = call(E, "wrapper/construct", lambda: Wrapper(list(fs)))
    if not ok:
        return None, D
    E.prove("wrapper/shape_attr", _plain(c.shape) == tuple(shape), detail=str(c.shape))
    E.prove("wrapper/rank_attr", _plain(c.rank) == tuple(ranks), detail=str(c.rank))
    views(E, "wrapper", D, c.to_tensor, c.to_unfolding, c.to_vec)
    views(E, "wrapper_fn", D, lambda: to_tensor(c), lambda m: to_unfolded(c, m), lambda: to_vec(c))
    chk_norm(E, "wrapper/norm", c.norm, D)
    return c, D


def h_tt(E, cfg):
    shape, ranks = cfg["shape"], cfg["ranks"]
    cfg = dict(cfg, _fs=[E.real(f"G{k}", (ranks[k], n, ranks[k + 1])) for k, n in enumerate(shape)])
    _chain_family(E, cfg, d_tt, TT._validate_tt_tensor, TT.TTTensor, tl.tt_to_tensor, tl.tt_to_unfolded, tl.tt_to_vec, lambda fs: tuple(f.shape[1] for f in fs))


def h_tr(E, cfg):
    shape, ranks = cfg["shape"], cfg["ranks"]
    cfg = dict(cfg, _fs=[E.real(f"G{k}", (ranks[k], n, ranks[k + 1])) for k, n in enumerate(shape)])
    _chain_family(E, cfg, d_tr, TR._validate_tr_tensor, TR.TRTensor, tl.tr_to_tensor, tl.tr_to_unfolded, tl.tr_to_vec, lambda fs: tuple(f.shape[1] for f in fs))


def h_ttm(E, cfg):
    io, ranks = cfg["io"], cfg["ranks"]
    fs = [E.real(f"G{k}", (ranks[k], i, o, ranks[k + 1])) for k, (i, o) in enumerate(io)]
    cfg = dict(cfg, _fs=fs)
    shape_of = lambda fs: tuple(f.shape[1] for f in fs) + tuple(f.shape[2] for f in fs)
    c, D = _chain_family(E, cfg, d_ttm, TM._validate_tt_matrix, TM.TTMatrix, tl.tt_matrix_to_tensor, tl.tt_matrix_to_unfolded, tl.tt_matrix_to_vec, shape_of)
    d = len(io)
    nin = int(np.prod([i for i, _ in io]))
    nout = int(np.prod([o for _, o in io]))
    M = obj((nin, nout))
    for idx in np.ndindex(*D.shape):
        row = 0
        for k in range(d):
            row = row * io[k][0] + idx[k]
        col = 0
        for k in range(d):
            col = col * io[k][1] + idx[d + k]
        M[row, col] = D[idx]
    chk(E, "list/to_matrix", lambda: tl.tt_matrix_to_matrix(list(fs)), M)
    if c is not None:
        chk(E, "wrapper/to_matrix", c.to_matrix, M)
        E.prove("wrapper/left_right_shape", (_plain(c.left_shape), _plain(c.right_shape), int(c.order)) == (tuple(i for i, _ in io), tuple(o for _, o in io), d))


def h_p2(E, cfg):
    Js, R, K = cfg["Js"], cfg["R"], cfg["K"]
    I = len(Js)
    A = E.real("A", (I, R))
    B = E.real("B", (R, R))
    C = E.real("C", (K, R))
    w = E.real("w", (R,)) if cfg["w"] else None
    Ps = [frame(E, f"P{i}", J, R) for i, J in enumerate(Js)]
    Bis, slices, D = d_p2(w, A, B, C, Ps)
    shape = tuple((J, K) for J in Js)

    def mk():
        return (w, [A, B, C], list(Ps))

    def observables(tag, t):
        for i in range(I):
            chk(E, f"{tag}/to_slice/{i}", lambda i=i: P2.parafac2_to_slice(t, i), slices[i])
            chk(E, f"{tag}/to_slice_novalidate/{i}", lambda i=i: P2.parafac2_to_slice(t, i, validate=False), slices[i])
        ok, sl = call(E, f"{tag}/to_slices", lambda: P2.parafac2_to_slices(t))
        if ok:
            E.prove(f"{tag}/to_slices/count", len(sl) == I)
            for i in range(min(I, len(sl))):
                chk(E, f"{tag}/to_slices/{i}", lambda i=i: sl[i], slices[i])
        views(E, tag, D, lambda: P2.parafac2_to_tensor(t), lambda m: P2.parafac2_to_unfolded(t, m), lambda: P2.parafac2_to_vec(t))
        ok, ap = call(E, f"{tag}/apply_projections", lambda: P2.apply_parafac2_projections(t))
        if ok:
            w2, (A2, B2, C2) = ap
            if w is None and tag == "tuple":
                E.prove(f"{tag}/apply_projections/weights", w2 is None)
            else:
                chk(E, f"{tag}/apply_projections/weights", lambda: w2, np.asarray(w if w is not None else [1] * R, dtype=object))
            chk(E, f"{tag}/apply_projections/A", lambda: A2, A)
            chk(E, f"{tag}/apply_projections/C", lambda: C2, C)
            E.prove(f"{tag}/apply_projections/count", len(B2) == I)
            for i in range(min(I, len(B2))):
                chk(E, f"{tag}/apply_projections/B{i}", lambda i=i: B2[i], Bis[i])
        chk_meta(E, f"{tag}/validate", lambda: P2._validate_parafac2_tensor(t), shape, R)

    observables("tuple", mk())
    ok, c = call(E, "wrapper/construct", lambda: P2.Parafac2Tensor(mk()))
    if not ok:
        return
    E.prove("wrapper/shape_attr", _plain(c.shape) == shape, detail=str(c.shape))
    E.prove("wrapper/rank_attr", _plain(c.rank) == R, detail=str(c.rank))
    if w is None:
        chk(E, "wrapper/default_weights", lambda: c.weights, np.array([1] * R, dtype=object))
    observables("wrapper_fn", c)
    views(E, "wrapper", D, c.to_tensor, c.to_unfolded, c.to_vec)
    chk_norm(E, "wrapper/norm", c.norm, D)


def h_p2_orth(E, cfg):
    """unconstrained projections: the validator raises iff some |(P_i^T P_i - I)[a, b]| exceeds its 1e-5 tolerance"""
    Js, R = cfg["Js"], cfg["R"]
    I = len(Js)
    K = 2
    A = E.real("A", (I, R))
    B = E.real("B", (R, R))
    C = E.real("C", (K, R))
    Ps = [E.real(f"P{i}", (J, R)) for i, J in enumerate(Js)]
    exceeded = []
    for P in Ps:
        for a in range(R):
            for b in range(R):
                g = sum(P[j, a] * P[j, b] for j in range(P.shape[0])) - (1 if a == b else 0)
                exceeded.append(abs(g) > 1e-5)
    bad = E.Or(exceeded)
    t = (None, [A, B, C], list(Ps))
    for name, fn in (("validate", lambda: P2._validate_parafac2_tensor(t)), ("construct", lambda: P2.Parafac2Tensor(t)), ("to_tensor", lambda: P2.parafac2_to_tensor(t))):
        try:
            fn()
            raised = None
        except Exception as e:  # noqa
            raised = e
        if raised is None:
            E.prove(f"{name}/accepted_only_within_tolerance", E.Not(bad))
        else:
            E.prove(f"{name}/raised_only_beyond_tolerance", bad, detail=f"{type(raised).__name__}: {str(raised)[:120]}")
            E.prove(f"{name}/raises_ValueError", isinstance(raised, ValueError), detail=type(raised).__name__)


def _must_raise(E, name, fn):
    try:
        r = fn()
    except Exception as e:  # noqa
        E.prove(name, True, detail=f"{type(e).__name__}")
        return
    E.prove(name, False, detail=f"accepted; returned {str(r)[:120]}")


# cases about the number / order of the cores rather than about ranks: the property's list of what must not be "silently
# reconstructed" is (mismatched ranks, wrong boundary ranks, non-orthonormal projections), so for these only the validator and
# the wrapper constructor are required to raise (fewer Tucker factors than core modes is the documented partial-Tucker form)
COUNT_OR_ORDER_CASES = {
    "cp/factor_3d",
    "tucker/too_few_factors",
    "tucker/too_many_factors",
    "tt/core_2d",
    "tt/core_4d",
    "tr/core_2d",
    "tr/core_4d",
    "ttm/core_3d",
    "ttm/core_5d",
    "p2/too_few_projections",
    "p2/too_many_projections",
    "p2/two_factors",
}


def h_reject(E, cfg):
    fmt, p = REJECT_CASES[cfg["case"]]

    def mr(E, name, fn):
        if name.startswith("conversion_raises") and cfg["case"] in COUNT_OR_ORDER_CASES:
            return
        _must_raise(E, name, fn)

    if fmt == "cp":
        fs = [E.real(f"A{k}", s) for k, s in enumerate(p["fs"])]
        w = E.real("w", p["w"]) if p["w"] else None
        mk = lambda: (w, list(fs))
        mr(E, "validator_raises", lambda: CP._validate_cp_tensor(mk()))
        mr(E, "wrapper_raises", lambda: CP.CPTensor(mk()))
        mr(E, "conversion_raises/to_tensor", lambda: tl.cp_to_tensor(mk()))
        mr(E, "conversion_raises/to_unfolded", lambda: tl.cp_to_unfolded(mk(), 0))
        mr(E, "conversion_raises/to_vec", lambda: tl.cp_to_vec(mk()))
        mr(E, "conversion_raises/norm", lambda: tl.cp_norm(mk()))
    elif fmt == "tucker":
        fs = [E.real(f"U{k}", s) for k, s in enumerate(p["fs"])]
        core = E.real("G", p["core"])
        mk = lambda: (core, list(fs))
        mr(E, "validator_raises", lambda: TK._validate_tucker_tensor(mk()))
        mr(E, "wrapper_raises", lambda: TK.TuckerTensor(mk()))
        mr(E, "conversion_raises/to_tensor", lambda: tl.tucker_to_tensor(mk()))
        mr(E, "conversion_raises/to_unfolded", lambda: tl.tucker_to_unfolded(mk(), 0))
        mr(E, "conversion_raises/to_vec", lambda: tl.tucker_to_vec(mk()))
    elif fmt in ("tt", "tr", "ttm"):
        fs = [E.real(f"G{k}", s) for k, s in enumerate(p["fs"])]
        mk = lambda: list(fs)
        val, W, tt, tu, tv = {
            "tt": (TT._validate_tt_tensor, TT.TTTensor, tl.tt_to_tensor, tl.tt_to_unfolded, tl.tt_to_vec),
            "tr": (TR._validate_tr_tensor, TR.TRTensor, tl.tr_to_tensor, tl.tr_to_unfolded, tl.tr_to_vec),
            "ttm": (TM._validate_tt_matrix, TM.TTMatrix, tl.tt_matrix_to_tensor, tl.tt_matrix_to_unfolded, tl.tt_matrix_to_vec),
        }[fmt]
        mr(E, "validator_raises", lambda: val(mk()))
        mr(E, "wrapper_raises", lambda: W(mk()))
        mr(E, "conversion_raises/to_tensor", lambda: tt(mk()))
        mr(E, "conversion_raises/to_unfolded", lambda: tu(mk(), 0))
        mr(E, "conversion_raises/to_vec", lambda: tv(mk()))
        if fmt == "ttm":
            mr(E, "conversion_raises/to_matrix", lambda: tl.tt_matrix_to_matrix(mk()))
    elif fmt == "p2":
        A = E.real("A", p["A"])
        B = E.real("B", p["B"])
        facs = [A, B] + ([E.real("C", p["C"])] if p["C"] else [])
        w = E.real("w", p["w"]) if p["w"] else None
        Ps = [frame(E, f"P{i}", s[0], s[1]) if s[0] >= s[1] else E.real(f"P{i}", s) for i, s in enumerate(p["Ps"])]
        mk = lambda: (w, list(facs), list(Ps))
        mr(E, "validator_raises", lambda: P2._validate_parafac2_tensor(mk()))
        mr(E, "wrapper_raises", lambda: P2.Parafac2Tensor(mk()))
        mr(E, "conversion_raises/to_tensor", lambda: P2.parafac2_to_tensor(mk()))
        mr(E, "conversion_raises/to_slices", lambda: P2.parafac2_to_slices(mk()))
        mr(E, "conversion_raises/to_slice", lambda: P2.parafac2_to_slice(mk(), 0))
        mr(E, "conversion_raises/to_unfolded", lambda: P2.parafac2_to_unfolded(mk(), 0))
        mr(E, "conversion_raises/to_vec", lambda: P2.parafac2_to_vec(mk()))
        mr(E, "conversion_raises/apply_projections", lambda: P2.apply_parafac2_projections(mk()))
    else:
        raise KeyError(fmt)
