"""C14 -- warm starts begin at the supplied decomposition; fixed modes stay fixed.

The real decomposition routines are executed on symbolic data tensors, symbolic initial factors and symbolic initial
weights of UNRESTRICTED sign.  Oracles are index sums written here (dense_cp / dense_tucker / dense_parafac2), never
tensorly's own reconstruction code.

(a) zero budget : dense(result) == dense(init)                            (n_iter_max = 0)
(b) absorption  : one sweep of CP-ALS (exact 1x1/2x2 Cramer solves) from (w, F) and from (None, F with w folded into the
                  first / into the last factor) gives the same dense iterate
(c) fixed modes : the returned factor of every mode declared fixed is entrywise the supplied one (exact term equality;
                  bit-identical floats in the replay), and fixing every mode returns the initialisation unchanged.
"""
import itertools
import sys

import numpy as np

import tensorly as tl

if hasattr(sys, "set_int_max_str_digits"):
    sys.set_int_max_str_digits(0)

PID = "C14"
ENGINE = "E1"
EXPLANATION = (
    "Symbolic execution of the user-initialisation branches of initialize_cp / initialize_constrained_parafac / initialize_tucker / "
    "parafac2.initialize_decomposition inside the real parafac, non_negative_parafac(_hals), constrained_parafac, tucker(fixed_factors), "
    "non_negative_tucker(_hals) and parafac2 with iteration budgets 0 and 1; data, initial factors and initial weights (any sign) are solver "
    "variables. Validity queries: with zero budget the dense tensor of the result equals the dense tensor of the initialisation (index-sum oracles); "
    "one sweep from (w, F) equals one sweep from the weight-absorbed re-expression; factors of fixed modes are returned entrywise identical "
    "(bit-identical in the float replay) for every subset of fixed modes; all modes fixed returns the initialisation."
)
ENCODED = [
    "tensorly.decomposition._cp.initialize_cp",
    "tensorly.decomposition._cp.parafac",
    "tensorly.decomposition._nn_cp.non_negative_parafac",
    "tensorly.decomposition._nn_cp.non_negative_parafac_hals",
    "tensorly.decomposition._constrained_cp.initialize_constrained_parafac",
    "tensorly.decomposition._constrained_cp.constrained_parafac",
    "tensorly.decomposition._tucker.initialize_tucker",
    "tensorly.decomposition._tucker.partial_tucker",
    "tensorly.decomposition._tucker.tucker",
    "tensorly.decomposition._tucker.non_negative_tucker",
    "tensorly.decomposition._tucker.non_negative_tucker_hals",
    "tensorly.decomposition._parafac2.initialize_decomposition",
    "tensorly.decomposition._parafac2.parafac2",
    "tensorly.parafac2_tensor.Parafac2Tensor.from_CPTensor",
]
BOUNDS = {
    "quick": "mode sizes 2; zero budget: orders 2-3, R in {1,2}, weights None / ones / symbolic > 0 / symbolic non-zero of any sign, four CP algorithms, "
    "tucker, non_negative_tucker(_hals) (ranks (1..1),(2..2)), PARAFAC2 (2 slices 2x2, R in {1,2}, init from Parafac2Tensor and from CPTensor through QR); "
    "absorption: CP-ALS order 2, R in {1,2}; fixed modes (one sweep, tol=0): every non-empty subset at order 3, R=2 for the four CP algorithms, "
    "tucker(fixed_factors) budgets 0 and 1, non_negative_tucker_hals subsets without the last mode",
    "thorough": "additionally order 4 and R=3 (cube-root atom) for the zero-budget checks, fixed-mode subsets at order 2 and R=1",
}
OUTSIDE = [
    "mode sizes > 2, R > 3, budgets > 1 (one sweep is the induction step: the next sweep starts from a state that no longer depends on how the init was expressed)",
    "weight absorption for CP-ALS at order >= 3 (nested Cramer quotients: identity undecided at 120 s), for HALS / AO-ADMM (inner solver is a functional stub: equality of differently scaled NNLS problems is not expressible) and for "
    "multiplicative-update NN-CP (identities / models over nested merged clip() terms are not decided by z3); one-sweep PARAFAC2 (orthonormality validation of "
    "projections built from SVD stub outputs forks an undecided exception path)",
    "non_negative_parafac (MU): identity of a last-mode factor declared fixed (no model found over nested merged updates; the same un-fix logic is decided for the other CP algorithms)",
    "non_negative_tucker_hals with the last mode declared fixed (refinement of the error-norm root atoms does not terminate in budget; float observation in the builder report)",
    "tucker(fixed_factors) with non-orthonormal fixed factors (zero budget changes the tensor: core is multiplied by F^T F; float observation in the builder report)",
    "masks, line search, orthogonalise, sparsity options",
]
TRUSTED = ["z3", "functional kernel stubs (solve exact by Cramer in the absorption check, fresh memoised outputs elsewhere; svd/qr/hals_nnls/fista fresh outputs memoised on argument identity)", "rational Givens parametrisation of orthonormal fixed Tucker factors (rotation by pi not covered); (c, s) with c^2+s^2=1 for PARAFAC2 projections"]
ASSUMPTIONS = [
    "reals instead of IEEE floats (violations are replayed in float64)",
    "divisions defined (paths on which the symbolic arithmetic divides by an exact zero are dropped); CP-ALS normal equations nonsingular in the absorption check",
    "non-negative algorithms are given entrywise non-negative data / initial factors / core (their abs() projection is then the identity); weights stay unrestricted",
    "Tucker zero-budget check with fixed factors: fixed factors have orthonormal columns (HOOI invariant)",
    "constrained_parafac: user factors of modes with hard constraints need not be returned unchanged unless the mode is fixed (consistent with C11)",
    "fixed-mode configurations: inputs in general position (within each input array non-zero entries with pairwise distinct absolute values) -- only steers the witness of a failing obligation; obligations that hold are discharged syntactically",
]

CP_ALGS = ("parafac", "non_negative_parafac", "non_negative_parafac_hals", "constrained_parafac")


# ------------------------------------------------------------------------------------ oracles (index sums)
def dense_cp(w, Fs):
    shape = tuple(np.shape(F)[0] for F in Fs)
    R = np.shape(Fs[0])[1]
    out = np.empty(shape, dtype=object)
    for idx in np.ndindex(*shape):
        tot = 0
        for r in range(R):
            p = 1 if w is None else w[r]
            for n, F in enumerate(Fs):
                p = p * F[idx[n], r]
            tot = tot + p
        out[idx] = tot
    return out


def dense_tucker(core, Fs):
    shape = tuple(np.shape(F)[0] for F in Fs)
    out = np.empty(shape, dtype=object)
    for idx in np.ndindex(*shape):
        tot = 0
        for j in np.ndindex(*np.shape(core)):
            p = core[j]
            for n, F in enumerate(Fs):
                p = p * F[idx[n], j[n]]
            tot = tot + p
        out[idx] = tot
    return out


def dense_parafac2(w, ABC, Ps):
    A, B, C = ABC
    I, R = np.shape(A)
    K = np.shape(C)[0]
    out = []
    for i in range(I):
        P = Ps[i]
        J = np.shape(P)[0]
        X = np.empty((J, K), dtype=object)
        for j in range(J):
            for k in range(K):
                tot = 0
                for r in range(R):
                    b = 0
                    for l in range(np.shape(B)[0]):
                        b = b + P[j, l] * B[l, r]
                    tot = tot + (1 if w is None else w[r]) * A[i, r] * b * C[k, r]
                X[j, k] = tot
        out.append(X)
    return out


def eq_all(E, A, B):
    """tolerant (concrete) / exact (symbolic) entrywise equality with a shape check"""
    A = np.asarray(A, dtype=object)
    B = np.asarray(B, dtype=object)
    if A.shape != B.shape:
        return False
    return E.And([E.eq(a, b) for a, b in zip(A.ravel(), B.ravel())])


def identical(E, A, B):
    """the SAME array: exact term equality in symbolic mode, bit-for-bit `==` on floats in the replay (no tolerance)"""
    A = np.asarray(A)
    B = np.asarray(B)
    if A.shape != B.shape:
        return False
    if E.symbolic:
        return E.And([E.eq(a, b) for a, b in zip(A.ravel(), B.ravel())])
    return all(float(a) == float(b) for a, b in zip(A.ravel(), B.ravel()))


def cp(x):
    return np.array(x, copy=True) if not hasattr(x, "copy") else x.copy()


# ------------------------------------------------------------------------------------ inputs
def weights_of(E, kind, R):
    if kind == "none":
        return None
    if kind == "ones":
        return tl.ones(R) if E.symbolic else np.ones(R)
    if kind == "pos":
        return E.real("w", (R,), pos=True)
    if kind == "any":
        return E.real("w", (R,), nonzero=True)
    if kind == "real":
        return E.real("w", (R,))
    raise KeyError(kind)


def givens(E, name, rows, cols):
    """rows x cols matrix with orthonormal columns (rows == 2), rational half-angle parametrisation"""
    assert rows == 2 and cols in (1, 2)
    t = E.real(name)
    den = 1 + t * t
    c = (1 - t * t) / den
    s = (2 * t) / den
    M = np.empty((2, cols), dtype=object)
    M[0, 0], M[1, 0] = c, s
    if cols == 2:
        M[0, 1], M[1, 1] = -s, c
    if E.symbolic:
        from vt.sym import SArr

        return M.view(SArr)
    return M.astype(np.float64)


def rotation(E, name, cols):
    """2 x cols matrix with orthonormal columns, parametrised by (c, s) with the precondition c^2 + s^2 = 1 (all rotations)"""
    c = E.real(name + "_c")
    s_ = E.real(name + "_s")
    E.assume(E.eq(c * c + s_ * s_, 1))
    M = np.empty((2, cols), dtype=object)
    M[0, 0], M[1, 0] = c, s_
    if cols == 2:
        M[0, 1], M[1, 1] = -s_, c
    if E.symbolic:
        from vt.sym import SArr

        return M.view(SArr)
    return M.astype(np.float64)


def functional_stub(kind, nn=False, out_like=2):
    from vt import backend
    from vt.sym import sarr

    def stub(*args, **kw):
        arrs = [sarr(a) for a in args if isinstance(a, np.ndarray)]
        for k in sorted(kw):
            if isinstance(kw[k], np.ndarray):
                arrs.append(sarr(kw[k]))
        for a in args:
            if isinstance(a, (list, tuple)) and a and isinstance(a[0], np.ndarray):
                arrs.extend(sarr(x) for x in a)
        arrs = tuple(arrs)
        hit = backend._lookup(kind, arrs)
        if hit is not None:
            return hit.copy()
        like = out_like(args, kw) if callable(out_like) else args[out_like]
        out = backend.fresh_array(kind, np.shape(like), nn=nn)
        backend._record(kind, arrs, out)
        return out.copy()

    return stub


def stub_inner_solvers():
    """hals_nnls (n_iter_max=100 hard-wired in the callers) and fista: pure functions of their arguments"""
    from vt import backend
    import tensorly.decomposition._nn_cp as m_nn
    import tensorly.decomposition._tucker as m_tk

    h = functional_stub("hals_nnls", nn=True, out_like=2)
    backend.patch(m_nn, "hals_nnls", h)
    backend.patch(m_tk, "hals_nnls", h)
    backend.patch(m_tk, "fista", functional_stub("fista", nn=True, out_like=lambda a, k: k["x"]))


def solve_regular(A, B):
    """functional solve stub (fresh output, memoised by the engine) on a NONSINGULAR matrix: det(A) != 0 is a precondition, so
    that models found by the solver do not make the float replay die in LAPACK with a singular-matrix error"""
    from vt import backend, sym

    d = backend._det(A)
    if isinstance(d, sym.SR) and d.c is None:
        sym.CTX.add_fact("pre", d.t != 0)
    return backend.fresh_array("solve", B.shape)


def undefined_path(E, e):
    """a division by an exact zero raised by the symbolic arithmetic: the path is outside the claim (divisions defined)"""
    if E.symbolic and isinstance(e, ZeroDivisionError):
        from vt import sym

        raise sym.Abort()


def svd_orthonormal(M, full_matrices):
    from vt import backend, sym

    m, n = M.shape
    r = min(m, n)
    ku = m if full_matrices else r
    kv = n if full_matrices else r
    S = backend.sorted_nonneg("svdS", r)
    U = backend.fresh_array("svdU", (m, ku))
    V = backend.fresh_array("svdV", (kv, n))
    for f in backend.eq_facts(np.dot(U.T, U), np.eye(ku, dtype=object)) + backend.eq_facts(np.dot(V, V.T), np.eye(kv, dtype=object)):
        sym.CTX.add_fact("def", f)
    return U, S, V


def run_cp(alg, T, R, init, budget, fixed=None, default_tol=False):
    from tensorly import decomposition as D

    kw = dict(n_iter_max=budget, init=init)
    if fixed is not None:
        kw["fixed_modes"] = list(fixed)
    if alg == "parafac":
        if not default_tol:
            kw["tol"] = 0
        return D.parafac(T, R, **kw)
    if alg == "non_negative_parafac":
        if not default_tol:
            kw["tol"] = 0
        return D.non_negative_parafac(T, R, **kw)
    if alg == "non_negative_parafac_hals":
        if not default_tol:
            kw["tol"] = 0
        return D.non_negative_parafac_hals(T, R, **kw)
    if alg == "constrained_parafac":
        return D.constrained_parafac(T, R, n_iter_max_inner=1, tol_outer=0, tol_inner=0, non_negative=True, **kw)
    raise KeyError(alg)


def general_position(E, arrays):
    """witness guidance for obligations that are expected to FAIL on the current tree: within every input array all entries non-zero with pairwise distinct absolute values, so that the model the solver returns does not make LAPACK raise on a singular Gram matrix in the float replay.
    (Obligations that hold are proved syntactically -- the entrywise equalities simplify to true -- and do not use it.)"""
    conds = []
    for a in arrays:
        flat = list(np.asarray(a, dtype=object).ravel())
        conds += [E.Not(E.eq(x, 0)) for x in flat]
        for i in range(len(flat)):
            for j in range(i + 1, len(flat)):
                conds.append(E.Not(E.eq(flat[i], flat[j])))
                conds.append(E.Not(E.eq(flat[i], -flat[j])))
    if E.symbolic:
        E.assume(conds)


def cp_inputs(E, cfg):
    order, R, alg = cfg["order"], cfg["R"], cfg["alg"]
    nn = alg != "parafac"
    shape = (2,) * order
    if cfg.get("box"):
        # multiplicative updates: data and factors in a positive box, so that the clip(x, eps) guards are decided per path
        lo, hi = cfg["box"]
        T = E.real("T", shape, lo=lo, hi=hi)
        Fs = [E.real(f"F{n}", (2, R), lo=lo, hi=hi) for n in range(order)]
    else:
        T = E.real("T", shape, nn=nn)
        Fs = [E.real(f"F{n}", (2, R), nn=nn) for n in range(order)]
    w = weights_of(E, cfg["w"], R)
    return T, Fs, w


def fresh_init(w, Fs):
    return (None if w is None else cp(w), [cp(F) for F in Fs])


# ------------------------------------------------------------------------------------ configurations
def configs(tier):
    q = tier == "quick"
    out = []

    def add(key, **kw):
        d = dict(key=key, max_paths=3000, timeout_s=160 if q else 1400)
        d.update(kw)
        out.append(d)

    orders = (2, 3) if q else (2, 3, 4)
    ranks = (1, 2) if q else (1, 2, 3)
    # (a) zero budget, CP family
    for alg in CP_ALGS:
        for order in orders:
            for R in ranks:
                if R == 3 and order > 3:
                    continue
                for w in ("none", "ones", "pos", "any"):
                    add(f"zero/{alg}/o{order}/R{R}/w_{w}", kind="cp_zero", alg=alg, order=order, R=R, w=w)
    # (b) weight absorption, one sweep: CP-ALS with exact (Cramer) solves.
    # Not decidable here (see OUTSIDE): HALS / AO-ADMM (inner solver is a stub: equality of differently scaled NNLS problems),
    # multiplicative-update NN-CP (identities / models over nested merged clip() terms are not decided by z3)
    for order, R in ((2, 1), (2, 2)):  # (order 3: the nested rational identity is undecided at 120 s even for R=1)
        for w in ("pos", "any"):
            add(f"absorb/parafac/o{order}/R{R}/w_{w}", kind="cp_absorb", alg="parafac", order=order, R=R, w=w)
    # (b') same statement for the stub-based algorithms, restricted to the re-expression the code itself uses (weights pulled into the
    # LAST factor): both runs then hand identical arguments to the functional inner-solver stubs, so the iterates are the same terms
    for alg in ("constrained_parafac", "non_negative_parafac_hals"):
        add(f"absorb_last/{alg}/o3/R2/w_pos", kind="cp_absorb", alg=alg, order=3, R=2, w="pos", last_only=True)
    # (c) fixed modes, one sweep
    for alg in CP_ALGS:
        for order in (3,) if q else (2, 3):
            for R in (2,) if q else (1, 2):
                for k in range(1, order + 1):
                    for sub in itertools.combinations(range(order), k):
                        for w in ("none", "any"):
                            tag = "all" if k == order else ("with_last" if order - 1 in sub else "inner")
                            add(f"fixed_{tag}/{alg}/o{order}/R{R}/w_{w}/modes{''.join(map(str, sub))}", kind="cp_fixed", alg=alg, order=order, R=R, w=w, fixed=sub)
    add("fixed_all_default_tol/non_negative_parafac_hals/o3/R2/w_none/modes012", kind="cp_fixed", alg="non_negative_parafac_hals", order=3, R=2, w="none", fixed=(0, 1, 2), default_tol=True)
    add("fixed_all_default_tol/parafac/o3/R2/w_none/modes012", kind="cp_fixed", alg="parafac", order=3, R=2, w="none", fixed=(0, 1, 2), default_tol=True)
    # Tucker
    for order in (2, 3):
        for r in (1, 2):
            add(f"tucker_zero/tucker/o{order}/r{r}", kind="tk_zero", alg="tucker", order=order, r=r, fixed=())
            add(f"tucker_zero/non_negative_tucker/o{order}/r{r}", kind="tk_zero", alg="non_negative_tucker", order=order, r=r, fixed=())
            add(f"tucker_zero/non_negative_tucker_hals/o{order}/r{r}", kind="tk_zero", alg="non_negative_tucker_hals", order=order, r=r, fixed=())
    for order in (3,) if q else (2, 3):
        for r in (1, 2):
            for k in range(1, order + 1):
                for sub in itertools.combinations(range(order), k):
                    tag = "all" if k == order else "some"
                    for budget in (0, 1):
                        add(f"tucker_fixed_{tag}/tucker/o{order}/r{r}/b{budget}/modes{''.join(map(str, sub))}", kind="tk_fixed", alg="tucker", order=order, r=r, fixed=sub, budget=budget, orth=True)
                    if 1 < k < order:
                        # the same subset listed in descending order (the caller's list need not be sorted)
                        rsub = tuple(reversed(sub))
                        add(f"tucker_fixed_{tag}/tucker/o{order}/r{r}/b1/modes{''.join(map(str, rsub))}", kind="tk_fixed", alg="tucker", order=order, r=r, fixed=rsub, budget=1, orth=True)
                    if order - 1 not in sub:
                        # (a last mode declared fixed is un-fixed with a warning exactly as in the CP algorithms, where it is
                        # decided; here the refinement of the root atoms of the error computation does not terminate in budget)
                        add(f"tucker_fixed_inner/non_negative_tucker_hals/o{order}/r{r}/b1/modes{''.join(map(str, sub))}", kind="tk_fixed", alg="non_negative_tucker_hals", order=order, r=r, fixed=sub, budget=1, orth=False)
    # PARAFAC2
    for R in (1, 2):
        for w in ("none", "any"):
            add(f"parafac2_zero/from_parafac2/R{R}/w_{w}", kind="p2_zero", src="p2", R=R, w=w, branch_timeout_ms=15000)
            add(f"parafac2_zero/from_cp/R{R}/w_{w}", kind="p2_zero", src="cp", R=R, w=w, branch_timeout_ms=15000)
    # (one-sweep PARAFAC2 runs: the orthonormality validation of projections built from SVD stub outputs is not decided within
    #  the branch budget and forks an infeasible exception path -> OUTSIDE; the zero-budget configurations cover its weight handling)
    return out


# ------------------------------------------------------------------------------------ harness
def harness(E, cfg):
    kind = cfg["kind"]
    if E.symbolic:
        from vt import backend, sym

        sym.CTX.eval_first = True
    globals()["h_" + kind](E, cfg)


def _configure(E, **kw):
    if E.symbolic:
        from vt import backend

        backend.configure(**kw)
        stub_inner_solvers()


def h_cp_zero(E, cfg):
    _configure(E, solve=solve_regular, svd="havoc")
    T, Fs, w = cp_inputs(E, cfg)
    want = dense_cp(w, Fs)
    try:
        res = run_cp(cfg["alg"], T, cfg["R"], fresh_init(w, Fs), 0)
    except Exception as e:
        undefined_path(E, e)
        E.prove("zero_budget/no_exception", False, detail=f"{type(e).__name__}: {e}")
        return
    E.prove("zero_budget/shapes", [np.shape(f) == np.shape(F) for f, F in zip(res.factors, Fs)] + [len(res.factors) == len(Fs)])
    E.prove("zero_budget/dense_equals_init", eq_all(E, dense_cp(res.weights, res.factors), want))


def h_cp_absorb(E, cfg):
    alg, R, order = cfg["alg"], cfg["R"], cfg["order"]
    _configure(E, solve="exact" if alg == "parafac" else solve_regular, svd="havoc")
    T, Fs, w = cp_inputs(E, cfg)
    if cfg.get("last_only"):
        # unit weights take the code's "nothing to absorb" branch, where the two runs are equal only under the path condition
        # w == 1 (the functional stubs are matched syntactically): excluded here, the zero-budget and ALS configurations cover them
        E.assume(E.Not(E.And([E.eq(w[r], 1) for r in range(R)])))
    try:
        r1 = run_cp(alg, T, R, fresh_init(w, Fs), 1)
        d1 = dense_cp(r1.weights, r1.factors)
        alts = []
        for k in (order - 1,) if cfg.get("last_only") else (range(order) if alg != "parafac" else (0, order - 1)):
            Fk = [cp(F) for F in Fs]
            Fk[k] = Fk[k] * np.reshape(w, (1, -1))
            r2 = run_cp(alg, T, R, (None, Fk), 1)
            alts.append(eq_all(E, d1, dense_cp(r2.weights, r2.factors)))
    except Exception as e:
        undefined_path(E, e)
        E.prove("absorb/no_exception", False, detail=f"{type(e).__name__}: {e}")
        return
    if alg == "parafac":
        # exact ALS: the iterate is the same tensor whichever factor carries the weights
        E.prove("absorb/same_iterate/weights_in_first_factor", alts[0])
        E.prove("absorb/same_iterate/weights_in_last_factor", alts[1])
    else:
        E.prove("absorb/same_iterate/weights_in_some_factor", E.Or(alts))


def h_cp_fixed(E, cfg):
    alg, R, order, fixed = cfg["alg"], cfg["R"], cfg["order"], tuple(cfg["fixed"])
    _configure(E, solve="havoc", svd="havoc")
    T, Fs, w = cp_inputs(E, cfg)
    try:
        res = run_cp(alg, T, R, fresh_init(w, Fs), 1, fixed=fixed, default_tol=cfg.get("default_tol", False))
    except Exception as e:
        undefined_path(E, e)
        E.prove("fixed/no_exception", False, detail=f"{type(e).__name__}: {e}")
        return
    E.prove("fixed/shapes", [len(res.factors) == order] + [np.shape(a) == np.shape(b) for a, b in zip(res.factors, Fs)])
    general_position(E, [T] + list(Fs))
    for m in fixed:
        if alg == "non_negative_parafac" and m == order - 1:
            # multiplicative updates: whether the (silently un-fixed) last factor moved needs a model over nested merged
            # clip() terms, which z3 does not find; the identical un-fix logic is decided for the other three CP algorithms
            continue
        E.prove(f"fixed/mode{m}/factor_identical", identical(E, res.factors[m], Fs[m]))
    if len(fixed) == order and alg != "non_negative_parafac":
        E.prove("all_fixed/dense_unchanged", eq_all(E, dense_cp(res.weights, res.factors), dense_cp(w, Fs)))
        wr = res.weights
        w0 = w if w is not None else np.ones(R)
        E.prove("all_fixed/weights_unchanged", identical(E, wr, w0))


# ---- Tucker
def tk_inputs(E, cfg):
    order, r, alg = cfg["order"], cfg["r"], cfg["alg"]
    nn = alg != "tucker"
    T = E.real("T", (2,) * order, nn=nn)
    core = E.real("G", (r,) * order, nn=nn)
    Fs = []
    for n in range(order):
        if cfg.get("orth") and n in cfg["fixed"]:
            Fs.append(givens(E, f"t{n}", 2, r))
        else:
            Fs.append(E.real(f"U{n}", (2, r), nn=nn))
    return T, core, Fs


def run_tucker(alg, T, r, order, init, budget, fixed):
    from tensorly import decomposition as D

    rank = [r] * order
    if alg == "tucker":
        return D.tucker(T, rank, fixed_factors=list(fixed) if fixed else None, n_iter_max=budget, init=init, tol=0)
    if alg == "non_negative_tucker":
        return D.non_negative_tucker(T, rank, n_iter_max=budget, init=init, tol=0)
    if alg == "non_negative_tucker_hals":
        return D.non_negative_tucker_hals(T, rank, n_iter_max=budget, init=init, tol=0, fixed_modes=list(fixed) if fixed else None)
    raise KeyError(alg)


def h_tk_zero(E, cfg):
    _configure(E, solve=solve_regular, svd="havoc")
    T, core, Fs = tk_inputs(E, cfg)
    want = dense_tucker(core, Fs)
    try:
        res = run_tucker(cfg["alg"], T, cfg["r"], cfg["order"], (cp(core), [cp(F) for F in Fs]), 0, ())
    except Exception as e:
        undefined_path(E, e)
        E.prove("zero_budget/no_exception", False, detail=f"{type(e).__name__}: {e}")
        return
    rc, rf = res
    E.prove("zero_budget/shapes", [np.shape(rc) == np.shape(core), len(rf) == len(Fs)] + [np.shape(a) == np.shape(b) for a, b in zip(rf, Fs)])
    E.prove("zero_budget/dense_equals_init", eq_all(E, dense_tucker(rc, rf), want))


def h_tk_fixed(E, cfg):
    alg, r, order, fixed, budget = cfg["alg"], cfg["r"], cfg["order"], tuple(cfg["fixed"]), cfg["budget"]
    _configure(E, solve=solve_regular, svd="havoc")
    T, core, Fs = tk_inputs(E, cfg)
    try:
        res = run_tucker(alg, T, r, order, (cp(core), [cp(F) for F in Fs]), budget, fixed)
    except Exception as e:
        undefined_path(E, e)
        E.prove("fixed/no_exception", False, detail=f"{type(e).__name__}: {e}")
        return
    rc, rf = res
    E.prove("fixed/shapes", [len(rf) == order] + [np.shape(a) == np.shape(b) for a, b in zip(rf, Fs)])
    for m in fixed:
        E.prove(f"fixed/mode{m}/factor_identical", identical(E, rf[m], Fs[m]))
    if budget == 0:
        E.prove("zero_budget/dense_equals_init", eq_all(E, dense_tucker(rc, rf), dense_tucker(core, Fs)))
    if len(fixed) == order:
        E.prove("all_fixed/dense_unchanged", eq_all(E, dense_tucker(rc, rf), dense_tucker(core, Fs)))
        E.prove("all_fixed/core_unchanged", identical(E, rc, core))


# ---- PARAFAC2 (2 slices of 2 x 2)
def p2_inputs(E, cfg):
    R = cfg["R"]
    T = E.real("T", (2, 2, 2))
    A = E.real("A", (2, R))
    C = E.real("C", (2, R))
    w = weights_of(E, cfg["w"], R)
    return T, A, C, w


def run_p2(T, R, init, budget):
    from tensorly.decomposition import parafac2

    return parafac2(T, R, n_iter_max=budget, init=init, tol=0, n_iter_parafac=1, linesearch=False)


def h_p2_zero(E, cfg):
    R = cfg["R"]
    if E.symbolic:
        from vt import backend

        backend.configure(solve="havoc", svd=svd_orthonormal, qr="havoc")
    T, A, C, w = p2_inputs(E, cfg)
    if cfg["src"] == "p2":
        B = E.real("B", (R, R))
        Ps = [rotation(E, f"p{i}", R) for i in range(2)]
        want = dense_parafac2(w, (A, B, C), Ps)
        init = (None if w is None else cp(w), [cp(A), cp(B), cp(C)], [cp(P) for P in Ps])
    else:
        # input-from-output generation for the QR inside from_CPTensor: B := Q Rm, and the qr stub returns (Q, Rm) for it
        Q = rotation(E, "q", R)
        Rm = np.zeros((R, R), dtype=object)
        Ru = E.real("Rm", (R * (R + 1) // 2,))
        it = iter(range(len(Ru)))
        for i in range(R):
            for j in range(i, R):
                Rm[i, j] = Ru[next(it)]
        B = np.dot(Q, Rm)
        if E.symbolic:
            from vt import backend
            from vt.sym import SArr, sarr

            B = sarr(B)
            backend.POLICY.tables["qr"].append(((B,), (Q, sarr(Rm))))
        else:
            B = B.astype(np.float64)
        want = dense_cp(w, [A, B, C])  # slice i of the CP tensor is X[i, :, :]
        want = [want[i] for i in range(2)]
        init = (None if w is None else cp(w), [cp(A), cp(B), cp(C)])
    try:
        res = run_p2(T, R, init, 0)
        got = dense_parafac2(res.weights, res.factors, res.projections)
    except Exception as e:
        undefined_path(E, e)
        E.prove("zero_budget/no_exception", False, detail=f"{type(e).__name__}: {e}")
        return
    E.prove("zero_budget/dense_equals_init", [eq_all(E, g, x) for g, x in zip(got, want)] + [len(got) == len(want)])


def h_p2_absorb(E, cfg):
    R = cfg["R"]
    if E.symbolic:
        from vt import backend

        backend.configure(solve="exact", svd=svd_orthonormal, qr="havoc")
    T, A, C, w = p2_inputs(E, cfg)
    B = E.real("B", (R, R))
    Ps = [rotation(E, f"p{i}", R) for i in range(2)]
    try:
        r1 = run_p2(T, R, (cp(w), [cp(A), cp(B), cp(C)], [cp(P) for P in Ps]), 1)
        alts = []
        for k in range(3):
            F = [cp(A), cp(B), cp(C)]
            F[k] = F[k] * np.reshape(w, (1, -1))
            r2 = run_p2(T, R, (None, F, [cp(P) for P in Ps]), 1)
            d1 = dense_parafac2(r1.weights, r1.factors, r1.projections)
            d2 = dense_parafac2(r2.weights, r2.factors, r2.projections)
            alts.append(E.And([eq_all(E, a, b) for a, b in zip(d1, d2)]))
    except Exception as e:
        undefined_path(E, e)
        E.prove("absorb/no_exception", False, detail=f"{type(e).__name__}: {e}")
        return
    E.prove("absorb/same_iterate/weights_in_some_factor", E.Or(alts))
