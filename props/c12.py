"""C12 -- proximal / projection operators return the exact minimiser of their prox problem.

Oracles are optimality (KKT) conditions written independently of the implementation and linear wherever the
constraint set is polyhedral; for the non-convex unimodal set a closer-feasible-competitor query is used."""
import itertools

import numpy as np

import tensorly as tl
from tensorly.tenalg import proximal as P

PID = "C12"
ENGINE = "E1"
EXPLANATION = (
    "Every branch of the proximal operators is executed symbolically on vectors/matrices of solver variables (sorts, clips and "
    "comparisons fork or merge); the returned point is checked against the KKT / nearest-point characterisation of the operator's "
    "prox problem by SMT validity queries, plus idempotence on feasible inputs and firm non-expansiveness (two symbolic inputs) for convex operators."
)
ENCODED = [
    "tensorly.tenalg.proximal.proximal_operator",
    "tensorly.tenalg.proximal.validate_constraints",
    "tensorly.tenalg.proximal.soft_thresholding",
    "tensorly.tenalg.proximal.l2_prox",
    "tensorly.tenalg.proximal.l2_square_prox",
    "tensorly.tenalg.proximal.smoothness_prox",
    "tensorly.tenalg.proximal.simplex_prox",
    "tensorly.tenalg.proximal.soft_sparsity_prox",
    "tensorly.tenalg.proximal.monotonicity_prox",
    "tensorly.tenalg.proximal.unimodality_prox",
    "tensorly.tenalg.proximal.hard_thresholding",
    "tensorly.tenalg.proximal.normalized_sparsity_prox",
    "tensorly.tenalg.proximal.svd_thresholding",
    "tensorly.tenalg.proximal.procrustes",
]
BOUNDS = {
    "quick": "vectors of n <= 4 entries (unimodal competitor oracle n <= 3), matrices n x 2 with n <= 3 for column-separable operators, all real parameter values > 0, integer sparsity levels 1..n+1",
    "thorough": "vectors of n <= 5 entries (unimodal n <= 4), matrices n x 2 with n <= 3",
}
OUTSIDE = ["n > 5", "matrices wider than 2 columns", "optimality of svd_thresholding/procrustes (SVD contract: only U*soft(S)*V / U*V is checked)", "IEEE rounding"]
TRUSTED = ["z3", "solve stub contract (A x = b) for smoothness_prox", "SVD stub for svd_thresholding/procrustes"]
ASSUMPTIONS = ["real arithmetic", "parameters strictly positive", "divisions defined (e.g. normalising a non-zero vector)"]


def configs(tier):
    q = tier == "quick"
    nmax = 4 if q else 5
    out = []

    def add(op, n, cols=1, **kw):
        key = f"{op}/n{n}/c{cols}" + "".join(f"/{k}{v}" for k, v in kw.items())
        d = dict(key=key, op=op, n=n, cols=cols, **kw)
        d.setdefault("mode", "merge")
        d["max_paths"] = 20000
        d["timeout_s"] = 170 if q else 1500
        out.append(d)
        return d

    for n in range(1, nmax + 1):
        add("non_negative", n)
        add("l1", n)
        add("l2", n)
        add("l2_square", n)
        add("normalize", n)
        if n >= 2:
            add("smoothness", n)
            if n in (2, 3):
                add("smoothness", n, second_call=1)
        add("simplex", n)
        if n <= (3 if q else 4):
            add("soft_sparsity", n)
        for dec in (0, 1):
            add("monotone", n, dec=dec)
        for k in range(1, n + 2):
            add("hard", n, k=k, mode="fork")
            if k <= n and (n, k) != (5, 5):  # (5,5): 120 orderings x sign patterns exhaust the path budget
                add("normsparse", n, k=k, mode="fork")
    for n in range(1, (3 if q else 4) + 1):
        for peak in range(n):
            if n <= (2 if q else 3):  # competitor queries at n=3 take ~60 s each and are undecided at n=4
                add("unimodal", n, peak=peak, mode="fork")
        add("unimodal_feasible", n, mode="fork")
        add("unimodal_idem", n, mode="fork")
    # column separability on n x 2 matrices
    for n in (2, 3):
        add("non_negative", n, cols=2)
        add("l1", n, cols=2)
        if n == 2 or not q:
            add("simplex", n, cols=2)
        if n == 2:
            add("soft_sparsity", n, cols=2)
        add("monotone", n, cols=2, dec=0)
        add("monotone", n, cols=2, dec=1)
    add("unimodal_feasible", 2, cols=2, mode="fork")
    # idempotence on feasible inputs (projections)
    for n in (2, 3):
        for op in ("non_negative", "simplex", "soft_sparsity", "monotone", "hard", "normsparse", "normalize"):
            add("idem_" + op, n, mode="fork" if op in ("hard", "normsparse") else "merge")
    # firm non-expansiveness of convex operators
    for n in (1, 2) if q else (1, 2, 3):
        for op in ("non_negative", "l1", "l2_square"):
            add("firm_" + op, n)
    add("firm_simplex", 2, mode="fork")
    add("firm_monotone", 2)
    # firm_monotone / firm_simplex at n=3: measured `unknown` / path budget exhausted after 25 min -- outside the claim
    # SVD-based operators relative to the SVD contract
    for shp in [(2, 2), (2, 3), (3, 2)] if q else [(2, 2), (2, 3), (3, 2), (3, 3)]:
        d = add("svd_thresholding", shp[0], cols=shp[1])
        if shp != (3, 3):  # orthonormality of the 3x3 Procrustes product of two Givens frames: `unknown`
            d = add("procrustes", shp[0], cols=shp[1])
    return out


# ------------------------------------------------------------------------------------ oracles
def kkt_simplex(E, v, p, r):
    """p is the Euclidean projection of v on {x >= 0, sum x = r}"""
    n = len(v)
    c = [E.ge(p[i], 0) for i in range(n)]
    c.append(E.eq(sum(p), r))
    for i in range(n):
        for j in range(n):
            if i == j:
                continue
            both = E.And(E.gt_strict(p[i], 0), E.gt_strict(p[j], 0))
            c.append(E.Implies(both, E.eq(v[i] - p[i], v[j] - p[j])))
            c.append(E.Implies(E.And(E.gt_strict(p[i], 0), E.Not(E.gt_strict(p[j], 0))), E.le(v[j], v[i] - p[i])))
    return E.And(c)


def kkt_isotonic(E, v, p, decreasing=False):
    n = len(v)
    c = []
    lam = 0
    for k in range(n):
        lam = lam + (v[k] - p[k])
        if k < n - 1:
            if decreasing:
                c.append(E.ge(p[k], p[k + 1]))
                c.append(E.le(lam, 0))
                c.append(E.Implies(E.gt_strict(p[k], p[k + 1]), E.eq(lam, 0)))
            else:
                c.append(E.le(p[k], p[k + 1]))
                c.append(E.ge(lam, 0))
                c.append(E.Implies(E.gt_strict(p[k + 1], p[k]), E.eq(lam, 0)))
        else:
            c.append(E.eq(lam, 0))
    return E.And(c)


def cond_hard(E, v, p, k):
    """p is a nearest point of v among vectors with at most k non-zeros"""
    n = len(v)
    c = []
    for i in range(n):
        c.append(E.Or(E.eq(p[i], v[i]), E.eq(p[i], 0)))
    nz = [E.Not(E.eq(p[i], 0)) for i in range(n)]
    cnt = sum(E.ite(z, 1, 0) for z in nz)
    c.append(E.le(cnt, k))
    dropped = [E.And(E.eq(p[i], 0), E.Not(E.eq(v[i], 0))) for i in range(n)]
    for i in range(n):
        for j in range(n):
            if i != j:
                c.append(E.Implies(E.And(dropped[i], nz[j]), E.le(abs(v[i]), abs(v[j]))))
        c.append(E.Implies(dropped[i], E.eq(cnt, min(k, n))))
    return E.And(c)


def in_cone(E, x, peak):
    c = []
    for i in range(len(x) - 1):
        c.append(E.le(x[i], x[i + 1]) if i < peak else E.ge(x[i], x[i + 1]))
    return E.And(c)


def dist2(a, b):
    return sum((a[i] - b[i]) * (a[i] - b[i]) for i in range(len(a)))


def col(M, j):
    M = np.asarray(M)
    if M.ndim == 1:
        return [M[i] for i in range(M.shape[0])]
    return [M[i, j] for i in range(M.shape[0])]


def _in(E, cfg, name="v", **kw):
    n, cols = cfg["n"], cfg["cols"]
    return E.real(name, (n,) if cols == 1 else (n, cols), **kw)


def harness(E, cfg):
    from vt import backend

    op, n, cols = cfg["op"], cfg["n"], cfg["cols"]
    if E.symbolic:
        backend.configure(solve="contract", svd="givens" if op == "procrustes" else "factor", eigh="givens")
    if op == "non_negative":
        v = _in(E, cfg)
        p = P.proximal_operator(v, non_negative=True)
        E.prove("shape", np.shape(p) == np.shape(v))
        for j in range(cols):
            E.prove(f"kkt/col{j}", [E.eq(pi, E.max(vi, 0)) for pi, vi in zip(col(p, j), col(v, j))])
    elif op == "l1":
        v = _in(E, cfg)
        t = E.real("t", pos=True)
        p = P.proximal_operator(v, l1_reg=t)
        E.prove("shape", np.shape(p) == np.shape(v))
        for j in range(cols):
            c = []
            for pi, vi in zip(col(p, j), col(v, j)):
                c.append(E.Implies(E.gt_strict(pi, 0), E.eq(vi - pi, t)))
                c.append(E.Implies(E.gt_strict(0, pi), E.eq(vi - pi, -t)))
                c.append(E.Implies(E.eq(pi, 0), E.le(abs(vi), t)))
            E.prove(f"kkt/col{j}", c)
    elif op == "l2":
        v = _in(E, cfg)
        t = E.real("t", pos=True)
        p = P.proximal_operator(v, l2_reg=t)
        nv = E.sqrt(sum(x * x for x in col(v, 0)))
        c = []
        for pi, vi in zip(col(p, 0), col(v, 0)):
            c.append(E.Implies(E.le(nv, t), E.eq(pi, 0)))
            # stationarity of t*||x|| + 1/2||x-v||^2 at p != 0, p = c v:  (v - p) * ||v|| = t * v
            c.append(E.Implies(E.gt_strict(nv, t), E.eq((vi - pi) * nv, t * vi)))
        E.prove("kkt", c)
    elif op == "l2_square":
        v = _in(E, cfg)
        t = E.real("t", pos=True)
        p = P.proximal_operator(v, l2_square_reg=t)
        E.prove("kkt", [E.eq(2 * t * pi + pi - vi, 0) for pi, vi in zip(col(p, 0), col(v, 0))])
    elif op == "normalize":
        v = _in(E, cfg)
        E.assume(E.Or([E.Not(E.eq(x, 0)) for x in col(v, 0)]))
        p = P.proximal_operator(v, normalize=True)
        m = E.max([abs(x) for x in col(v, 0)])
        E.prove("scaled", [E.eq(pi * m, vi) for pi, vi in zip(col(p, 0), col(v, 0))])
        E.prove("max_is_one", E.eq(E.max([abs(x) for x in col(p, 0)]), 1))
    elif op == "smoothness":
        v = _in(E, cfg)
        t = E.real("t", pos=True)
        if cfg.get("second_call"):
            # an earlier call in the same process with ANOTHER regulariser (same length, same dtype): the operator must not carry
            # state from one call to the next
            t0 = E.real("t_first", pos=True)
            P.proximal_operator(np.array(v), smoothness=t0)
        p = P.proximal_operator(v, smoothness=t)
        pc, vc = col(p, 0), col(v, 0)
        c = []
        for i in range(n):
            lhs = (1 + 2 * t) * pc[i]
            if i > 0:
                lhs = lhs - t * pc[i - 1]
            if i < n - 1:
                lhs = lhs - t * pc[i + 1]
            c.append(E.eq(lhs, vc[i]))
        E.prove("optimality_system", c, groups=("solve",))
    elif op == "simplex":
        v = _in(E, cfg)
        r = E.real("r", pos=True)
        p = P.proximal_operator(v, simplex=r)
        E.prove("shape", np.shape(p) == np.shape(v))
        for j in range(cols):
            E.prove(f"kkt/col{j}", kkt_simplex(E, col(v, j), col(p, j), r))
    elif op == "soft_sparsity":
        v = _in(E, cfg)
        r = E.real("r", pos=True)
        p = P.proximal_operator(v, soft_sparsity=r)
        E.prove("shape", np.shape(p) == np.shape(v))
        for j in range(cols):
            vc, pc_ = col(v, j), col(p, j)
            l1 = sum(abs(x) for x in vc)
            inside = E.le(l1, r)
            outside = E.Not(inside)
            c = [E.Implies(outside, kkt_simplex(E, [abs(x) for x in vc], [abs(x) for x in pc_], r))]
            c += [E.Implies(outside, E.ge(pi * vi, 0)) for pi, vi in zip(pc_, vc)]
            E.prove(f"outside_ball_exact_projection/col{j}", c)
            E.prove(f"inside_ball_unchanged/col{j}", [E.Implies(inside, E.eq(pi, vi)) for pi, vi in zip(pc_, vc)])
    elif op == "monotone":
        v = _in(E, cfg)
        dec = bool(cfg["dec"])
        if dec:
            p = P.monotonicity_prox(v, decreasing=True)
        else:
            p = P.proximal_operator(v, monotonicity=True)
        for j in range(cols):
            E.prove(f"kkt/col{j}", kkt_isotonic(E, col(v, j), col(p, j), decreasing=dec))
    elif op == "hard":
        v = _in(E, cfg)
        p = P.proximal_operator(v, hard_sparsity=cfg["k"])
        E.prove("nearest_k_sparse", cond_hard(E, col(v, 0), col(p, 0), cfg["k"]))
    elif op == "normsparse":
        v = _in(E, cfg)
        k = cfg["k"]
        p = P.proximal_operator(v, normalized_sparsity=k)
        vc, pc_ = col(v, 0), col(p, 0)
        nz = [E.Not(E.eq(x, 0)) for x in pc_]
        cnt = sum(E.ite(z, 1, 0) for z in nz)
        c = [E.le(cnt, k), E.eq(sum(x * x for x in pc_), 1)]
        for i in range(n):
            c.append(E.Implies(nz[i], E.gt_strict(pc_[i] * vc[i], 0)))
            for j in range(n):
                if i != j:
                    c.append(E.Implies(E.And(nz[i], nz[j]), E.eq(pc_[i] * vc[j], pc_[j] * vc[i])))
                    c.append(E.Implies(E.And(E.Not(nz[i]), nz[j]), E.le(abs(vc[i]), abs(vc[j]))))
            c.append(E.Implies(E.And(E.Not(nz[i]), E.Not(E.eq(vc[i], 0))), E.eq(cnt, min(k, n))))
        E.prove("nearest_normalised_k_sparse", c)
    elif op == "unimodal":
        # nearest point on the (non-convex) unimodal set: no feasible competitor in the cone with this peak is closer
        v = _in(E, cfg)
        q = E.real("q", (n,))
        E.assume(in_cone(E, [q[i] for i in range(n)], cfg["peak"]))
        p = P.proximal_operator(v, unimodality=True)
        pc_ = col(p, 0)
        E.prove("no_closer_competitor", E.le(dist2(pc_, col(v, 0)), dist2([q[i] for i in range(n)], col(v, 0))))
    elif op == "unimodal_feasible":
        v = _in(E, cfg)
        p = P.proximal_operator(v, unimodality=True)
        for j in range(cols):
            pc_ = col(p, j)
            E.prove(f"unimodal/col{j}", E.Or([in_cone(E, pc_, k) for k in range(n)]))
    elif op == "unimodal_idem":
        v = _in(E, cfg)
        vc = col(v, 0)
        E.assume(E.Or([in_cone(E, vc, k) for k in range(n)]))
        p = P.proximal_operator(v, unimodality=True)
        E.prove("fixed_point", [E.eq(a, b) for a, b in zip(col(p, 0), vc)])
    elif op.startswith("idem_"):
        base = op[5:]
        v = _in(E, cfg)
        vc = col(v, 0)
        if base == "non_negative":
            E.assume([E.ge(x, 0) for x in vc])
            p = P.proximal_operator(v, non_negative=True)
        elif base == "simplex":
            r = E.real("r", pos=True)
            E.assume([E.ge(x, 0) for x in vc] + [E.eq(sum(vc), r)])
            p = P.proximal_operator(v, simplex=r)
        elif base == "soft_sparsity":
            r = E.real("r", pos=True)
            E.assume(E.le(sum(abs(x) for x in vc), r))
            p = P.proximal_operator(v, soft_sparsity=r)
        elif base == "monotone":
            E.assume([E.le(vc[i], vc[i + 1]) for i in range(n - 1)])
            p = P.proximal_operator(v, monotonicity=True)
        elif base == "hard":
            E.assume(E.eq(vc[0], 0))
            p = P.proximal_operator(v, hard_sparsity=n - 1)
        elif base == "normsparse":
            E.assume([E.eq(vc[0], 0), E.eq(sum(x * x for x in vc), 1)])
            p = P.proximal_operator(v, normalized_sparsity=n - 1)
        elif base == "normalize":
            E.assume(E.eq(E.max([abs(x) for x in vc]), 1))
            p = P.proximal_operator(v, normalize=True)
        E.prove("fixed_point", [E.eq(a, b) for a, b in zip(col(p, 0), vc)])
    elif op.startswith("firm_"):
        base = op[5:]
        v = _in(E, cfg, "v")
        w = _in(E, cfg, "w")
        kw = {}
        if base == "non_negative":
            kw = dict(non_negative=True)
        elif base == "l1":
            kw = dict(l1_reg=E.real("t", pos=True))
        elif base == "l2_square":
            kw = dict(l2_square_reg=E.real("t", pos=True))
        elif base == "simplex":
            kw = dict(simplex=E.real("r", pos=True))
        elif base == "monotone":
            kw = dict(monotonicity=True)
        p = col(P.proximal_operator(v, **kw), 0)
        q = col(P.proximal_operator(w, **kw), 0)
        vc, wc = col(v, 0), col(w, 0)
        if base in ("non_negative", "l1", "l2_square"):
            # entrywise-separable operators: the inequality holds coordinate by coordinate (which implies the sum)
            for i in range(n):
                E.prove(f"firmly_nonexpansive/coord{i}", E.ge((p[i] - q[i]) * (vc[i] - wc[i]), (p[i] - q[i]) * (p[i] - q[i])))
        else:
            ip = sum((p[i] - q[i]) * (vc[i] - wc[i]) for i in range(n))
            E.prove("firmly_nonexpansive", E.ge(ip, dist2(p, q)))
    elif op in ("svd_thresholding", "procrustes"):
        M = E.real("M", (n, cols))
        r = min(n, cols)
        if op == "svd_thresholding":
            t = E.real("t", pos=True)
            out = P.svd_thresholding(M, t)
        else:
            out = P.procrustes(M)
        if op == "procrustes":
            # feasibility: the result has orthonormal columns (tall/square) or rows (wide) -- for EVERY input, rank-deficient ones included.
            # concrete (replay) mode evaluates the model input and rank-deficient variants derived from it.
            def orth(Q):
                Q = np.asarray(Q, dtype=object if E.symbolic else float)
                G = np.dot(Q.T, Q) if Q.shape[0] >= Q.shape[1] else np.dot(Q, Q.T)
                return E.eq_arrays(G, np.eye(G.shape[0], dtype=object if E.symbolic else float))

            if E.symbolic:
                E.prove("result_is_orthonormal", orth(out), groups=("svd_orth", "eigh_orth", "svd_factor", "eigh_factor"))
            else:
                Mf = np.asarray(M, dtype=float)
                variants = [Mf]
                v1 = Mf.copy()
                v1[:, -1] = v1[:, 0]
                v2 = Mf.copy()
                v2[-1, :] = 0.0
                v3 = np.outer(Mf[:, 0], Mf[0, :])
                variants += [v1, v2, v3, np.zeros_like(Mf)]
                ok = True
                for Mv in variants:
                    try:
                        ok = ok and bool(orth(P.procrustes(Mv.copy())))
                    except Exception:
                        ok = False
                E.prove("result_is_orthonormal", ok)
        if E.symbolic:
            svd_calls = [c for c in __import__("vt.sym", fromlist=["x"]).CTX.stub_calls if str(c[0]).startswith("('svd'")]
            if not svd_calls:
                E.prove("shape", np.shape(out) == (n, cols))
                return
            (kind, args, (U, S, V)) = svd_calls[0]
        else:
            U, S, V = np.linalg.svd(M, full_matrices=False)
        U = np.asarray(U)[:, :r]
        V = np.asarray(V)[:r, :]
        if op == "svd_thresholding":
            S2 = [E.max(S[i] - t, 0) for i in range(r)]
        else:
            S2 = [1] * r
        spec = np.empty((n, cols), dtype=object)
        for i in range(n):
            for j in range(cols):
                spec[i, j] = sum(U[i, k] * S2[k] * V[k, j] for k in range(r))
        E.prove("shape", np.shape(out) == (n, cols))
        E.prove_eq("U_f(S)_V", out, spec)
    else:
        raise KeyError(op)
