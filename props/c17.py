"""C17 -- backend selection behaves as a per-thread override over a shared default (both managers).

Engine E3 (vt.state): ONE operation of the real BackendManager / TenalgBackendManager is executed from an
ARBITRARY pre-state (shared default g, per-thread optional override s_t) inside real threads; backend
identities are token backends whose identity is a constant of an uninterpreted z3 sort.  After the step the
observations (current_backend(), get_backend(), a dynamically dispatched call) are read back from every real
thread and z3 decides `exists interpretation of the tokens: observed != specified`.  Context scenarios
re-havoc the whole state between enter and exit, so every step is checked against every history.
"""
import itertools
import json
import os
import sys
import threading

for _v in ("OPENBLAS_NUM_THREADS", "OMP_NUM_THREADS", "MKL_NUM_THREADS"):
    os.environ.setdefault(_v, "1")  # before numpy is imported (workers and replay children): no BLAS thread pools, nothing here needs them

from vt.state import DEFAULT_SIDE, FOREIGN, Checker, ConfigRun, HarnessError, Ids, Threads

PID = "C17"
ENGINE = "E3"
EXPLANATION = (
    "One-step inductive check on the real tensorly.backend.BackendManager and tensorly.tenalg.TenalgBackendManager: "
    "the pre-state (shared default g; per-thread optional override s_t) is arbitrary -- presence flags, acting thread, "
    "operation, flavour and alias pattern are enumerated by a plain product loop (no solver needed for feasibility: every "
    "combination is feasible), the backend identities are token backends carrying constants of an uninterpreted sort Bk. "
    "The state is injected by assignments executed inside real worker threads (real threading.local), one public-API "
    "operation runs (set_backend by instance/name/first-load, backend_context enter, normal exit, exit by an exception raised "
    "in the with-body, nested contexts of mixed flavour with every raise/catch placement, rejected names, queries), and the "
    "observations read back from every thread through current_backend(), get_backend(), the dispatched backend_name attribute "
    "and a dynamically dispatched function call are compared with the abstract transition relation on (g, s) by an EUF validity "
    "query (aliased roles equal, all other tokens pairwise distinct).  Between a context's enter and its exit the shared default, "
    "every other thread's override and presence flag (and optionally the entering thread's own selection) are re-assigned to fresh "
    "tokens, which models arbitrary interleaved activity; therefore the checked steps compose to histories and interleavings of any "
    "length at operation granularity.  A violating scenario is re-executed in a fresh process on the real registered backends "
    "('numpy' + a harness-registered NumPy-backed 'numpy_alt'; 'core' + 'einsum') before it is reported."
)
ENCODED = [
    "tensorly.backend.BackendManager.set_backend",
    "tensorly.backend.BackendManager.backend_context",
    "tensorly.backend.BackendManager.current_backend",
    "tensorly.backend.BackendManager.get_backend",
    "tensorly.backend.BackendManager.load_backend",
    "tensorly.backend.BackendManager.dispatch_backend_method",
    "tensorly.backend.BackendManager.use_dynamic_dispatch",
    "tensorly.backend.dynamically_dispatched_class_attribute",
    "tensorly.tenalg.TenalgBackendManager.load_backend",
    "tensorly.tenalg.TenalgBackendManager.use_dynamic_dispatch",
    "tensorly.backend.core.Backend.__init_subclass__",
    "tensorly.tenalg.base_tenalg.TenalgBackend.__init_subclass__",
]
BOUNDS = {
    "quick": "3 real threads, every presence pattern (8) x every acting thread, nesting depth <= 2 with all 4 raise/catch placements, "
             "flavours global/local (all mixes when nested), selection by instance / loaded name / first load by name, "
             "alias patterns {all distinct, overrides = default, selection = default, selection = own override, selection = another thread's override, "
             "inner = outer selection, inner = pre-enter backend}, havoc patterns {none, fresh values + flipped presence, default only}, "
             "with-body idle or re-selecting thread-locally",
    "thorough": "4 real threads (16 presence patterns), nesting depth <= 3 with all 7 raise/catch placements, all flavour mixes, "
                "additional alias patterns (everything = default, all overrides equal, selection = each other override, havoc default = context selection), "
                "havoc patterns {none, fresh+flip, fresh+keep, default only, overrides only}, with-body idle / re-selecting locally / re-selecting globally, "
                "several rejected names",
}
OUTSIDE = [
    "interleavings *inside* one manager method (the two attribute stores of set_backend, the read-modify sequence of backend_context) -- steps are atomic at operation granularity",
    "use_static_dispatch mode (functions are bound to one backend by design)",
    "what threads other than the entering one observe after a *global*-flavour context exits (the property text does not constrain it)",
    "whether a thread that used a context and never selected a backend keeps following later changes of the shared default",
    "more than 4 threads; nesting deeper than 3; backends other than numpy (loading pytorch/jax/... needs those packages)",
    "tensorly.contrib.sparse backend manager",
]
TRUSTED = ["z3 (EUF)", "CPython threading.local / threading.Thread", "the harness' token backends (subclasses of the real Backend / TenalgBackend base classes registered through the real __init_subclass__ hook)"]
ASSUMPTIONS = [
    "the reachable states of a manager are characterised by (manager._backend, manager._default_backend = its name, the 'backend' slot of every thread's threading.local); "
    "the arbitrary pre-state is injected into exactly these slots",
    "manager code is parametric in backend identity (it never compares backends), so an interpretation of the tokens onto two real backends preserves every observed disequality chosen for the replay",
]

# Reading of "a backend context restores the entering thread's previous backend" when that thread had NO selection of its own
# before entering and the shared default changed while the context was open: strict (default) = it observes the pre-enter
# backend again; lenient (VT_C17_ACCEPT_FOLLOW_DEFAULT=1) = it may instead follow the current shared default.
ACCEPT_FOLLOW_DEFAULT = os.environ.get("VT_C17_ACCEPT_FOLLOW_DEFAULT", "0") == "1"
CH = ("current", "name")  # channels on which the clauses are stated; 'dispatch' / 'attr' are tied to 'current' by their own clause
REAL = {"backend": ["numpy", "numpy_alt"], "tenalg": ["core", "einsum"], "ref": ["numpy", "numpy_alt"], "ref-bad": ["numpy", "numpy_alt"]}


class Boom(Exception):
    """the exception raised inside a with-body"""


class _Stop(BaseException):
    """abandon the rest of a nested scenario after a context could not even be entered (no cascading reports)"""


_MARK = threading.local()


# ------------------------------------------------------------------------------------------------ managers
def _mgr(which):
    """-> (manager class, backend base class, public API object, registry dict, dispatched function name, dispatcher)"""
    import tensorly as tl

    if which == "backend":
        import tensorly.backend as mod
        from tensorly.backend import BackendManager as M
        from tensorly.backend.core import Backend as B

        return M, B, mod, B._available_backends, "trace", lambda: getattr(tl, "trace")
    if which == "tenalg":
        import tensorly.tenalg as mod
        from tensorly.tenalg import TenalgBackendManager as M
        from tensorly.tenalg.base_tenalg import TenalgBackend as B

        return M, B, mod, B._available_tenalg_backends, "inner", lambda: getattr(mod, "inner")
    if which in ("ref", "ref-bad"):
        from tensorly.backend.core import Backend as B

        M = _reference_manager(which == "ref-bad")
        return M, B, M, B._available_backends, "trace", lambda: M.trace
    raise KeyError(which)


def _reference_manager(bad):
    """Executable reference model (conformance only; shares NO code with the managers under verification): a per-thread
    override over a shared default; `bad` republishes the saved backend globally on a thread-local context exit (the defect
    class the check must detect)."""
    from contextlib import contextmanager

    class Ref:
        _loaded_backends = dict()
        available_backend_names = []
        _backend = None
        _default_backend = None
        _THREAD_LOCAL_DATA = threading.local()

        @classmethod
        def current_backend(cls):
            return cls._THREAD_LOCAL_DATA.__dict__.get("backend", cls._backend)

        @classmethod
        def get_backend(cls):
            return cls.current_backend().backend_name

        @classmethod
        def load_backend(cls, name):
            from tensorly.backend.core import Backend

            if name not in cls.available_backend_names:
                raise ValueError(f"Unknown backend name {name!r}")
            cls._loaded_backends[name] = Backend._available_backends[name]()
            return cls._loaded_backends[name]

        @classmethod
        def set_backend(cls, backend, local_threadsafe=False):
            if isinstance(backend, str):
                backend = cls._loaded_backends[backend] if backend in cls._loaded_backends else cls.load_backend(backend)
            cls._THREAD_LOCAL_DATA.backend = backend
            if not local_threadsafe:
                cls._default_backend = backend.backend_name
                cls._backend = backend

        @classmethod
        @contextmanager
        def backend_context(cls, backend, local_threadsafe=False):
            old = cls.current_backend()
            cls.set_backend(backend, local_threadsafe=local_threadsafe)
            try:
                yield
            finally:
                cls.set_backend(old, local_threadsafe=(local_threadsafe and not bad))

        @classmethod
        def trace(cls, *args, **kwargs):
            return cls.current_backend().trace(*args, **kwargs)

    return Ref


class TokenUniverse:
    """token backends: one subclass of the real base class per representative role, registered under its own name"""

    symbolic = True

    def __init__(self, which):
        self.which = which
        self.M, self.B, self.mod, self.registry, self.fn, self.dispatcher = _mgr(which)
        M = self.M
        self.saved = (M._backend, M._default_backend, dict(M._loaded_backends), list(M.available_backend_names), dict(self.registry))
        self.tok = {}
        self.by_name = {}

    def name(self, rep):
        return "vt_" + "".join(c if c.isalnum() else "_" for c in rep).lower()

    def obj(self, rep):
        if rep not in self.tok:
            name = self.name(rep)
            fn = self.fn

            def dispatched(self_, *a, **k):
                return type(self_)._vt_role

            cls = type("VtToken_" + name, (self.B,), {"_vt_role": rep, fn: dispatched}, backend_name=name)
            self.tok[rep] = cls()
            self.by_name[name] = rep
            self.M.available_backend_names.append(name)
            self.M._loaded_backends[name] = self.tok[rep]
        return self.tok[rep]

    def unload(self, rep):
        self.obj(rep)
        self.M._loaded_backends.pop(self.name(rep), None)

    def begin(self):
        for rep, o in self.tok.items():
            self.M._loaded_backends[self.name(rep)] = o

    def end(self):
        self.M._backend, self.M._default_backend = self.saved[0], self.saved[1]

    def label_obj(self, o):
        r = getattr(type(o), "_vt_role", None)
        return r if r in self.tok else FOREIGN + repr(o)[:40]

    def label_name(self, n):
        return self.by_name.get(n, FOREIGN + repr(n)[:40])

    def probe(self):
        try:
            r = self.dispatcher()()
        except Exception as e:  # noqa: a dispatched call that does not reach a token backend
            return FOREIGN + "exc:" + type(e).__name__
        return r if isinstance(r, str) and r in self.tok else FOREIGN + repr(r)[:40]

    def close(self):
        if getattr(self, "threads", None) is not None:
            self.threads.stop()
            self.threads = None
        M = self.M
        M._backend, M._default_backend = self.saved[0], self.saved[1]
        M._loaded_backends.clear()
        M._loaded_backends.update(self.saved[2])
        M.available_backend_names[:] = self.saved[3]
        self.registry.clear()
        self.registry.update(self.saved[4])


class RealUniverse:
    """replay: representative roles are mapped onto two real registered backends"""

    symbolic = False

    def __init__(self, which, assign, default):
        import numpy as np

        self.which = which
        self.M, self.B, self.mod, self.registry, self.fn, self.dispatcher = _mgr(which)
        self.names = REAL[which]
        self.assign = dict(assign)
        self.default = default
        M = self.M
        self.saved = (M._backend, M._default_backend)
        if which != "tenalg":
            if "numpy_alt" not in self.registry:
                from tensorly.backend.numpy_backend import NumpyBackend

                class VtAltNumpyBackend(NumpyBackend, backend_name="numpy_alt"):
                    """second NumPy-backed backend (harness-registered, replay process only)"""

                    @staticmethod
                    def trace(x, *a, **k):
                        _MARK.ran = "numpy_alt"
                        return np.trace(x, *a, **k)

            if "numpy_alt" not in M.available_backend_names:
                M.available_backend_names.append("numpy_alt")
        self.inst = {n: (M._loaded_backends.get(n) or M.load_backend(n)) for n in self.names}
        self.eye = np.eye(2)

    def name(self, rep):
        return self.assign.get(rep, self.default)

    def obj(self, rep):
        return self.inst[self.name(rep)]

    def unload(self, rep):
        self.M._loaded_backends.pop(self.name(rep), None)

    def begin(self):
        for n, o in self.inst.items():
            self.M._loaded_backends[n] = o

    def end(self):
        self.M._backend, self.M._default_backend = self.saved

    def close(self):
        if getattr(self, "threads", None) is not None:
            self.threads.stop()
            self.threads = None
        self.end()

    def label_name(self, n):
        return ("real", n) if n in self.names else FOREIGN + repr(n)[:40]

    def label_obj(self, o):
        return self.label_name(getattr(o, "backend_name", None))

    def probe(self):
        f = self.dispatcher()
        if self.which == "tenalg":
            seen = []

            def prof(frame, event, arg):
                if event == "call":
                    fn = frame.f_code.co_filename.replace("\\", "/")
                    if "/core_tenalg/" in fn:
                        seen.append("core")
                    elif "/einsum_tenalg/" in fn:
                        seen.append("einsum")

            sys.setprofile(prof)
            try:
                f(self.eye, self.eye)
            except Exception as e:  # noqa
                return FOREIGN + "exc:" + type(e).__name__
            finally:
                sys.setprofile(None)
            return ("real", seen[0]) if seen else FOREIGN + "no-tenalg-frame"
        _MARK.ran = None
        try:
            r = f(self.eye)
        except Exception as e:  # noqa
            return FOREIGN + "exc:" + type(e).__name__
        if getattr(_MARK, "ran", None):
            return ("real", _MARK.ran)
        return ("real", "numpy") if r == 2.0 else FOREIGN + repr(r)[:40]


# ------------------------------------------------------------------------------------------------ scenario executor
def run_scenario(U, sc, ck):
    """execute ONE scenario on universe U (tokens or real backends) and record its obligations in ck"""
    ids = ck.ids
    mgr, N, a = sc["mgr"], sc["nthreads"], sc["actor"]
    M, mod = U.M, U.mod
    others = [t for t in range(N) if t != a]

    def O(role):
        return U.obj(ids.rep(role))

    def NM(role):
        U.obj(ids.rep(role))  # make sure the backend exists and is registered under its name
        return U.name(ids.rep(role))

    st = {"g": "g", "has": [bool(x) for x in sc["has"]], "s": {t: f"s{t}" for t in range(N)}, "actor_known": True, "g_known": True}
    # worker threads are reused by the scenarios of one configuration; before a scenario every thread wipes ALL of its
    # thread-local manager state (so it is indistinguishable from a thread that never selected a backend)
    if getattr(U, "threads", None) is None or len(U.threads.workers) != N:
        U.threads = Threads(N)
    th = U.threads
    th.must_all(lambda: M._THREAD_LOCAL_DATA.__dict__.clear())
    U.begin()

    def set_slot(t, role):
        touched()
        if role is None:
            th.must(t, lambda: M._THREAD_LOCAL_DATA.__dict__.pop("backend", None))
        else:
            o = O(role)
            th.must(t, lambda: setattr(M._THREAD_LOCAL_DATA, "backend", o))

    def set_default(role):
        touched()
        M._backend = O(role)
        M._default_backend = NM(role)

    def observe_one():
        out = {}
        try:
            out["current"] = U.label_obj(mod.current_backend())
        except Exception as e:  # noqa
            out["current"] = FOREIGN + "exc:" + type(e).__name__
        try:
            out["name"] = U.label_name(mod.get_backend())
        except Exception as e:  # noqa
            out["name"] = FOREIGN + "exc:" + type(e).__name__
        out["dispatch"] = U.probe()
        if U.which == "backend":
            try:
                out["attr"] = U.label_name(mod.backend_name)
            except Exception as e:  # noqa
                out["attr"] = FOREIGN + "exc:" + type(e).__name__
        return out

    cache = {"P": None}  # the last observation stays valid until the next state change (harness injection or API operation)

    def touched():
        cache["P"] = None

    def observe_all():
        if cache["P"] is None:
            cache["P"] = dict(enumerate(th.must_all(observe_one)))
        return cache["P"]

    def abstract(t):
        return st["s"][t] if st["has"][t] else st["g"]

    def q_observe(P, where, initial=False):
        pairs = []
        for t in range(N):
            if t == a and not st["actor_known"]:
                continue
            if not st["has"][t] and not st["g_known"]:
                continue  # the shared default after a global-flavour context exit is not constrained
            exp = ("ite", str(t), f"s{t}", "g") if initial else abstract(t)
            pairs += [(P[t][ch], exp, f"{where}: thread {t} {ch}") for ch in CH]
        ck.eq(f"{mgr}/query/-/observe-is-override-or-default", pairs)

    def q_dispatch(P, opname, where):
        pairs = [(P[t][ch], P[t]["current"], f"{where}: thread {t} {ch} vs current_backend()") for t in range(N) for ch in ("dispatch", "attr") if ch in P[t]]
        ck.eq(f"{opname}/dispatch-runs-on-active", pairs)

    def check_select(opname, P, Q, sel, local, where):
        ck.eq(f"{opname}/actor-observes-selection", [(Q[a][ch], sel, f"{where}: thread {a} {ch}") for ch in CH])
        if local:
            ck.eq(f"{opname}/others-unchanged", [(Q[t][ch], P[t][ch], f"{where}: thread {t} {ch}") for t in others for ch in CH])
        else:
            ck.eq(f"{opname}/others-without-override-follow", [(Q[t][ch], sel, f"{where}: thread {t} {ch}") for t in others if not st["has"][t] for ch in CH])
            ck.eq(f"{opname}/others-with-override-unchanged", [(Q[t][ch], P[t][ch], f"{where}: thread {t} {ch}") for t in others if st["has"][t] for ch in CH])
        q_dispatch(Q, opname, where)

    def selected(role, local):
        st["has"][a] = True
        st["s"][a] = role
        st["actor_known"] = True
        if not local:
            st["g"] = role
            st["g_known"] = True

    def selection_arg(L):
        if L["how"] == "inst":
            return O(L["sel"])
        if L["how"] == "name-fresh":
            U.unload(ids.rep(L["sel"]))
        return NM(L["sel"])

    def havoc(pos):
        e = (sc.get("havoc") or {}).get(pos)
        if not e:
            return
        if e.get("reselect"):
            role, flav = e["reselect"]
            nm = NM(role)
            touched()
            stt, v = th.run(a, lambda: mod.set_backend(nm, local_threadsafe=(flav == "local")))
            if stt == "ok":
                selected(role, flav == "local")
            else:
                ck.fact(f"{mgr}/set-name/{flav}/no-exception", False, f"re-selection inside a with-body raised {type(v).__name__}: {v}")
        if e.get("g"):
            set_default(e["g"])
            st["g"] = e["g"]
            st["g_known"] = True
        for t_, role in (e.get("slots") or {}).items():
            t = int(t_)
            if role == "keep":
                continue
            set_slot(t, role)
            st["has"][t] = role is not None
            if role is not None:
                st["s"][t] = role
        q_observe(observe_all(), f"after interleaved activity at {pos}")

    try:
        # ---- inject the arbitrary pre-state inside the real threads
        set_default("g")
        for t in range(N):
            if st["has"][t]:
                set_slot(t, f"s{t}")
        P = observe_all()
        q_observe(P, "pre-state", initial=True)
        op = sc["op"]
        if op == "query":
            opname = f"{mgr}/query/-"
            q_dispatch(P, opname, "pre-state")
            th.must(a, observe_one)
            touched()
            Q = observe_all()
            ck.eq(f"{opname}/query-changes-nothing", [(Q[t][ch], P[t][ch], f"thread {t} {ch}") for t in range(N) for ch in Q[t]])
        elif op == "set":
            L = sc["levels"][0]
            local = L["flav"] == "local"
            opname = f"{mgr}/set-{L['how']}/{L['flav']}"
            arg = selection_arg(L)
            touched()
            stt, v = th.run(a, lambda: mod.set_backend(arg, local_threadsafe=local))
            ck.fact(f"{opname}/no-exception", stt == "ok", f"set_backend({arg!r}, local_threadsafe={local}) raised {type(v).__name__}: {v}")
            Q = observe_all()
            check_select(opname, P, Q, L["sel"], local, "after set_backend")
        elif op == "rejected":
            R = sc["rejected"]
            local = R["flav"] == "local"
            opname = f"{mgr}/{R['kind']}-rejected/{R['flav']}"
            ran = []
            touched()
            if R["kind"] == "set":
                stt, v = th.run(a, lambda: mod.set_backend(R["name"], local_threadsafe=local))
            else:
                def f():
                    with mod.backend_context(R["name"], local_threadsafe=local):
                        ran.append(1)

                stt, v = th.run(a, f)
                ck.fact(f"{opname}/body-not-executed", not ran, "the with-body ran although the name is unknown")
            ck.fact(f"{opname}/raises", stt == "exc" and isinstance(v, Exception), f"selection of unknown name {R['name']!r} did not raise")
            Q = observe_all()
            ck.eq(f"{opname}/nobody-changes", [(Q[t][ch], P[t][ch], f"thread {t} {ch}") for t in range(N) for ch in CH])
            q_dispatch(Q, opname, "after rejected selection")
        elif op == "ctx":
            levels = sc["levels"]
            d = len(levels)
            exc = sc.get("exc")
            boom = Boom("raised inside the with-body")

            def opn(k, what):
                L = levels[k - 1]
                return f"{mgr}/ctx-{what}/{L['flav']}" if d == 1 else f"{mgr}/nest{d}-L{k}-{what}/{L['flav']}"

            def level(k):
                L = levels[k - 1]
                local = L["flav"] == "local"
                P0 = observe_all()
                had = st["has"][a] or not st["actor_known"]  # did the entering thread have a selection of its own?
                arg = selection_arg(L)
                entered = []
                pre_exit = []
                out = None
                passes = bool(exc) and exc[1] < k <= exc[0]
                try:
                    with mod.backend_context(arg, local_threadsafe=local):
                        entered.append(1)
                        touched()
                        Q = observe_all()
                        check_select(opn(k, "enter"), P0, Q, L["sel"], local, f"inside level-{k} body")
                        selected(L["sel"], local)
                        havoc(f"e{k}")
                        flying = None
                        if k < d:
                            try:
                                level(k + 1)
                            except Boom as e:
                                if exc[1] != k:
                                    flying = e  # not caught in this body: continues through this level's exit below
                            havoc(f"r{k}")
                        pre_exit.append(observe_all())
                        if flying is not None:
                            raise flying
                        if exc and exc[0] == k:
                            raise boom
                except BaseException as e:  # noqa: what came out of the with statement is the result
                    if isinstance(e, (HarnessError, _Stop)):
                        raise
                    out = e
                touched()
                R = observe_all()
                ck.fact(f"{opn(k, 'enter')}/enter-completes", bool(entered), f"backend_context({arg!r}, local_threadsafe={local}) raised on enter: {type(out).__name__}: {out}")
                if not entered:
                    if k > 1:
                        raise _Stop()
                    return
                kind = "exc" if passes else "normal"
                opname = opn(k, "exit-" + kind)
                if kind == "normal":
                    ck.fact(f"{opname}/exit-completes", out is None, f"leaving the context raised {type(out).__name__}: {out}")
                else:
                    ck.fact(f"{opname}/exception-propagates", out is boom, f"expected the body's exception to propagate, got {type(out).__name__}: {out}")
                where = f"after level-{k} {kind} exit"
                restored = {ch: P0[a][ch] for ch in CH}
                if ACCEPT_FOLLOW_DEFAULT and not had and pre_exit:
                    # lenient reading: a thread that had never selected may, after the exit, follow the *current* shared default
                    # (the one in force just before the exit, or the one threads without an override observe after it)
                    fresh = Threads(1, prefix="vt-state-probe")  # a brand-new thread never selected: it observes the shared default
                    try:
                        D = fresh.must(0, observe_one)
                    finally:
                        fresh.stop()
                    restored = {ch: ("oneof", P0[a][ch], D[ch]) + ((st["g"],) if st["g_known"] else ()) for ch in CH}
                ck.eq(f"{opname}/actor-restored", [(R[a][ch], restored[ch], f"{where}: thread {a} {ch} vs pre-enter") for ch in CH])
                if local and pre_exit:
                    P1 = pre_exit[0]
                    ck.eq(f"{opname}/others-unchanged", [(R[t][ch], P1[t][ch], f"{where}: thread {t} {ch} vs just before exit") for t in others for ch in CH])
                q_dispatch(R, opname, where)
                st["actor_known"] = False  # representation after an exit is not constrained (only the observation is)
                # the shared default after an exit: unconstrained for the global flavour; for the local flavour its preservation
                # is exactly `others-unchanged` above -- either way later query checks must not re-report it, so it counts as
                # unknown until the next interleaved activity re-assigns it
                st["g_known"] = False
                if passes:
                    raise boom

            stt, v = th.run(a, lambda: level(1))
            if stt == "exc" and not (v is boom and exc and exc[1] == 0) and not isinstance(v, _Stop):
                raise HarnessError(f"scenario driver raised {type(v).__name__}: {v}")
        else:
            raise HarnessError(f"unknown op {op}")
    except BaseException:
        th.stop()  # never reuse threads after a failed scenario
        U.threads = None
        raise
    finally:
        U.end()


# ------------------------------------------------------------------------------------------------ scenario enumeration
def _tier(tier):
    if tier == "quick":
        return {"N": 3, "depths": (2,), "havoc": ("none", "fresh-flip", "g-only"), "bodies": ("idle", "reselect-local"),
                "badnames": ("nope",), "rich_alias": False, "mixed_how": False}
    return {"N": 4, "depths": (2, 3), "havoc": ("none", "fresh-flip", "fresh-keep", "g-only", "slots-only"), "bodies": ("idle", "reselect-local", "reselect-global"),
            "badnames": ("nope", "", "NUMPY", "core "), "rich_alias": True, "mixed_how": True}


def _bits(has):
    return "".join("1" if h else "0" for h in has)


def configs(tier):
    T = _tier(tier)
    out = []
    for mgr in ("backend", "tenalg"):
        for has in itertools.product((0, 1), repeat=T["N"]):
            hb = _bits(has)

            def add(op, flav, cost, **kw):
                out.append(dict(key=f"{mgr}/{op}/{flav}/has={hb}", mgr=mgr, op=op, flav=flav, has=list(has), cost=cost, **kw))

            add("query", "-", 1)
            for flav in ("global", "local"):
                for how in ("inst", "name", "name-fresh"):
                    add(f"set-{how}", flav, 1)
                add("rejected", flav, 1)
                add("ctx-normal", flav, 3)
                add("ctx-exc", flav, 3)
            for d in T["depths"]:
                for fl in itertools.product(("global", "local"), repeat=d):
                    add(f"nest{d}", "+".join(fl), 10 * d)
    return out


def _alias_patterns(T, has, actor, nlev):
    N = len(has)
    ov = [t for t in range(N) if has[t]]
    oth = [t for t in ov if t != actor]
    pats = [("distinct", {})]
    if ov:
        pats.append(("s=g", {f"s{t}": "g" for t in ov}))
    if nlev:
        pats.append(("n=g", {f"n{k}": "g" for k in range(1, nlev + 1)}))
        if has[actor]:
            pats.append(("n=own", {"n1": f"s{actor}"}))
        for t in (oth if T["rich_alias"] else oth[:1]):
            pats.append((f"n=s{t}", {"n1": f"s{t}"}))
        if nlev >= 2:
            pats.append(("n2=n1", {"n2": "n1"}))
            pats.append(("n2=old", {"n2": f"s{actor}" if has[actor] else "g"}))
        if nlev >= 3:
            pats.append(("n3=n1", {"n3": "n1"}))
            pats.append(("n3=old", {"n3": f"s{actor}" if has[actor] else "g"}))
    if T["rich_alias"]:
        if len(ov) >= 2:
            pats.append(("s-equal", {f"s{t}": f"s{ov[0]}" for t in ov[1:]}))
        everything = {f"s{t}": "g" for t in ov}
        everything.update({f"n{k}": "g" for k in range(1, nlev + 1)})
        if everything:
            pats.append(("all=g", everything))
    return pats


def _havoc(pattern, has, actor, d, body):
    """explicit havoc events: position -> {g, slots, reselect}; positions e<k> (after entering level k) and r<k>
    (back in the body of level k after the inner context was left)"""
    N = len(has)
    ev = {}
    alias = {}
    for pos in [f"e{k}" for k in range(1, d + 1)] + [f"r{k}" for k in range(1, d)]:
        e = {"g": None, "slots": {}, "reselect": None}
        if pos[0] == "e" and body != "idle":
            e["reselect"] = [f"x{pos[1:]}", "local" if body == "reselect-local" else "global"]
        if pattern in ("fresh-flip", "fresh-keep", "g-only", "g=sel"):
            e["g"] = f"{pos}g"
            if pattern == "g=sel" and pos[0] == "e":
                alias[f"{pos}g"] = f"n{pos[1:]}"
        for t in range(N):
            if t == actor:
                continue
            if pattern in ("fresh-flip", "slots-only"):
                present = (not has[t]) if pos[0] == "e" else bool(has[t])
                e["slots"][str(t)] = f"{pos}s{t}" if present else None
            elif pattern == "fresh-keep" and has[t]:
                e["slots"][str(t)] = f"{pos}s{t}"
        if e["g"] or e["slots"] or e["reselect"]:
            ev[pos] = e
    return ev, alias


def _exit_patterns(d):
    return [None] + [[k, c] for k in range(1, d + 1) for c in range(k)]


def scenarios(cfg, tier):
    T = _tier(tier)
    mgr, op, has = cfg["mgr"], cfg["op"], cfg["has"]
    N = len(has)
    base = {"mgr": mgr, "nthreads": N, "has": list(has)}
    out = []
    for actor in range(N):
        b = dict(base, actor=actor)
        if op == "query":
            for an, al in _alias_patterns(T, has, actor, 0):
                out.append(dict(b, op="query", alias=al, alias_name=an))
        elif op.startswith("set-"):
            how = op[4:]
            for an, al in _alias_patterns(T, has, actor, 1):
                out.append(dict(b, op="set", levels=[{"flav": cfg["flav"], "how": how, "sel": "n1"}], alias=al, alias_name=an))
        elif op == "rejected":
            for kind in ("set", "ctx"):
                for bad in T["badnames"]:
                    for an, al in _alias_patterns(T, has, actor, 0):
                        out.append(dict(b, op="rejected", rejected={"kind": kind, "name": bad, "flav": cfg["flav"]}, alias=al, alias_name=an))
        else:
            if op in ("ctx-normal", "ctx-exc"):
                d = 1
                flavs = [cfg["flav"]]
                excs = [None] if op == "ctx-normal" else [[1, 0]]
            else:
                flavs = cfg["flav"].split("+")
                d = len(flavs)
                excs = _exit_patterns(d)
            hows = [("inst",) * d, ("name",) * d]
            if T["mixed_how"] and d > 1:
                hows += [("inst", "name", "inst")[:d], ("name-fresh",) * d]
            havocs = list(T["havoc"]) + (["g=sel"] if T["rich_alias"] else [])
            if d >= 3:
                havocs = ["none", "fresh-flip"]
            key_alias = ("distinct", f"n{d}=old", "all=g")  # for the secondary ways of selecting: the most discriminating alias patterns
            for how in hows:
                for exc in excs:
                    for an, al in _alias_patterns(T, has, actor, d):
                        if d > 1 and how != hows[0] and an not in key_alias:
                            continue
                        for hv in havocs:
                            if tier == "quick" and d > 1 and hv == "g-only":
                                continue
                            for body in T["bodies"]:
                                if body != "idle" and hv != "fresh-flip" and (tier == "quick" or d > 1):
                                    continue  # a re-selecting with-body is combined with the full havoc only
                                if body == "reselect-global" and d >= 3:
                                    continue
                                ev, al2 = _havoc(hv, has, actor, d, body)
                                levels = [{"flav": flavs[k], "how": how[k], "sel": f"n{k + 1}"} for k in range(d)]
                                out.append(dict(b, op="ctx", levels=levels, exc=exc, alias=dict(al, **al2), alias_name=an, havoc=ev, havoc_name=hv, body=body))
    return out


# ------------------------------------------------------------------------------------------------ driver entry points
def _ids(sc, assign=None, default=None):
    return Ids(sc.get("alias") or {}, flags={str(t): bool(h) for t, h in enumerate(sc["has"])}, assign=assign, default=default)


def _make_inputs(sc, colour):
    names = REAL[sc["mgr"]]
    return {"scenario": sc, "assign": {rep: names[c] for rep, c in colour.items() if rep != DEFAULT_SIDE}, "default": names[0]}


def run_config(cfg, tier):
    U = TokenUniverse(cfg["mgr"])
    run = ConfigRun(PID, cfg["key"], _make_inputs)
    try:
        for sc in scenarios(cfg, tier):
            ck = Checker(_ids(sc), symbolic=True)
            run_scenario(U, sc, ck)
            run.add(sc, ck)
    finally:
        U.close()
    return run.finish()


def _replay_one(inp, obligation=None):
    sc = inp["scenario"]
    U = RealUniverse(sc["mgr"], inp["assign"], inp["default"])
    ck = Checker(_ids(sc, assign=inp["assign"], default=inp["default"]), symbolic=False)
    try:
        run_scenario(U, sc, ck)
    finally:
        U.close()
    failed = ck.failed()
    mine = [r["detail"] for r in ck.results if r["name"] == obligation and r["verdict"] == "violated"]
    names = {rep: U.name(rep) for rep in sorted(inp["assign"])}
    return failed, names, (mine[0] if mine else "")


def replay(body):
    """re-execute the scenario of a replay file on the REAL registered backends (fresh process)"""
    import tensorly

    inp = body["inputs"]
    if "batch" in inp:  # transport used by run_config: several scenarios of one configuration in one process
        lists = [_replay_one(i)[0] for i in inp["batch"]]
        return any(lists), f"tensorly={tensorly.__file__} batch={json.dumps(lists)}"
    failed, names, mine = _replay_one(inp, body["obligation"])
    detail = f"failed={json.dumps(failed)} tensorly={tensorly.__file__} roles={json.dumps(names)} :: {mine}"
    return body["obligation"] in failed, detail.replace("\n", " ")


def conformance(seed):
    """engine self-test on an executable reference model: the correct model must discharge every obligation, the model
    that republishes the saved backend on a thread-local context exit must be caught on `others-unchanged`."""
    out = {}
    for which, expect_bad in (("ref", False), ("ref-bad", True)):
        U = TokenUniverse(which)
        failed = set()
        n = 0
        try:
            for has in ((0, 0, 0), (1, 0, 1)):
                for op, flav in (("query", "-"), ("set-inst", "global"), ("set-name-fresh", "local"), ("rejected", "local"), ("ctx-normal", "local"), ("ctx-exc", "global"), ("nest2", "local+global")):
                    cfg = {"mgr": which, "op": op, "flav": flav, "has": list(has)}
                    for sc in scenarios(cfg, "quick")[::7]:
                        ck = Checker(_ids(sc), symbolic=True)
                        run_scenario(U, sc, ck)
                        failed.update(ck.failed())
                        n += 1
        finally:
            U.close()
        if not expect_bad and failed:
            raise AssertionError(f"reference model rejected by the harness: {sorted(failed)[:5]}")
        if expect_bad and not any(f.endswith("/local/others-unchanged") for f in failed):
            raise AssertionError("faulty reference model (global republish on local exit) was not detected")
        out[which] = {"scenarios": n, "failed_obligations": sorted(failed)}
    return out
