"""C10 -- non-negative decompositions return entrywise non-negative factors / weights / cores on the declared modes.

Compositional:
 (1) unit obligations on the REAL inner solvers with havoc'd (arbitrary signed) data: hals_nnls rows (>= epsilon where the row is
     updated, unchanged where UtU[k,k] == 0, nonzero_rows reset), fista iterates, active_set_nnls, admm with a non-negativity
     constraint, _BroThesisLineSearch.line_step, svd_interface(non_negative=True) (NNDSVD) on generated SVD triplets;
 (2) loop obligations: every non-negative decomposition entry point is executed for n_iter_max in {0,1,2} on a symbolic SIGNED
     data tensor with 'svd' / 'random' / user initialisation; inside the loop the long value-dependent inner solvers are replaced
     (symbolic mode only) by contract stubs that return fresh arrays with exactly the sign facts proved in (1); the multiplicative
     updates, initialisers, normalisation, clipping and mode bookkeeping are the real code.  In the concrete replay the real
     solvers run."""
import itertools

import numpy as np

import tensorly as tl
from tensorly.solvers import nnls as NN
from tensorly.solvers import admm as AD
from tensorly.decomposition import _nn_cp, _tucker, _parafac2, _constrained_cp
from tensorly.tenalg import svd as SVDM

PID = "C10"
ENGINE = "E1"
EXPLANATION = (
    "Compositional sign proof on the real code. Unit obligations: hals_nnls (any signed UtM/UtU, V >= 0: every updated row >= epsilon, rows with "
    "UtU[k,k] = 0 unchanged, nonzero_rows reset), fista (any start, any step: iterate >= epsilon), active_set_nnls (SPD data: x >= 0 at every return), "
    "admm with a non-negativity constraint, PARAFAC2 line_step, svd_interface(non_negative=True) on generated SVD triplets. Loop obligations: "
    "non_negative_parafac, non_negative_parafac_hals, non_negative_tucker, non_negative_tucker_hals (fista / active_set core), constrained_parafac "
    "(non_negative True / per-mode dict) and parafac2(nn_modes) are executed for n_iter_max in {0,1,2} on a symbolic signed tensor with svd (havoc'd signed "
    "singular vectors), random (RNG stub) and symbolic user initialisation; inner solvers are replaced in symbolic mode by contract stubs returning fresh "
    "arrays carrying exactly the sign facts of the unit obligations. Every entry of every returned factor / weight / core on a declared mode is proved >= 0."
)
ENCODED = [
    "tensorly.decomposition._nn_cp.non_negative_parafac",
    "tensorly.decomposition._nn_cp.non_negative_parafac_hals",
    "tensorly.decomposition._tucker.non_negative_tucker",
    "tensorly.decomposition._tucker.non_negative_tucker_hals",
    "tensorly.decomposition._tucker.initialize_tucker",
    "tensorly.decomposition._cp.initialize_cp",
    "tensorly.decomposition._constrained_cp.constrained_parafac",
    "tensorly.decomposition._constrained_cp.initialize_constrained_parafac",
    "tensorly.decomposition._parafac2.parafac2",
    "tensorly.decomposition._parafac2.initialize_decomposition",
    "tensorly.decomposition._parafac2._BroThesisLineSearch.line_step",
    "tensorly.solvers.nnls.hals_nnls",
    "tensorly.solvers.nnls.fista",
    "tensorly.solvers.nnls.active_set_nnls",
    "tensorly.solvers.admm.admm",
    "tensorly.tenalg.svd.make_svd_non_negative",
    "tensorly.tenalg.svd.svd_interface",
    "tensorly.tenalg.svd.svd_flip",
    "tensorly.cp_tensor.cp_normalize",
    "tensorly.tucker_tensor.tucker_normalize",
]
BOUNDS = {
    "quick": "tensors 2x2 and 2x2x2 (plus 1x2 / 2x1 for the multiplicative updates; PARAFAC2: 2 slices of 2x2, n_iter_parafac = 1), rank <= 2, n_iter_max in {0,1,2}; "
    "svd initialisation of 2x2x2 tensors only with rank 1 (rank 2 = 512+ paths through svd_flip/NNDSVD: thorough tier); inner-solver units with <= 2 unknowns x 2 right-hand sides and 1-2 inner iterations; "
    "NNDSVD on 2x2 matrices generated from their SVD (all reflection/sign variants, half-angle parameters in [1/8, 7/8])",
    "thorough": "as quick plus 3x2x2 tensors, n_iter_max = 3 for the multiplicative variants, svd initialisation of 2x2x2 rank-2 tensors for n_iter_max <= 1, active-set unit with 2 unknowns and warm start",
}
OUTSIDE = [
    "iteration counts above the unrolled ones are covered by the inductive shape of the argument (each outer iteration re-establishes the sign invariant), not by unrolling",
    "masks, fixed_modes",
    "sizes above the bound",
    "NaN/inf produced by divisions by zero other than the ones stated as 'defined' obligations",
    "active_set_nnls on singular Gram data (raises LinAlgError)",
]
TRUSTED = ["z3", "contract stubs = statements of the unit obligations", "SVD/QR havoc stubs (arbitrary signed outputs)", "RNG stub (random_sample in [0,1))"]
ASSUMPTIONS = ["real arithmetic", "configs named .../nondegenerate/...: the Gram diagonal of every inner hals_nnls problem is non-zero (no identically-zero factor column), otherwise hals_nnls leaves the signed SVD start of PARAFAC2 mode 2 untouched", "user initialisations entrywise non-negative on the declared modes", "sparsity coefficients >= 0", "divisions defined unless stated as obligation"]


# ------------------------------------------------------------------------------------------------ configurations
def configs(tier):
    q = tier == "quick"
    out = []

    def add(key, **kw):
        d = dict(key=key, **kw)
        d.setdefault("mode", "merge")
        d.setdefault("max_paths", 3000)
        d.setdefault("timeout_s", 160 if q else 1400)
        if key.startswith("loop/"):
            # the only preconditions of the loop harnesses are sign bounds on input variables (trivially satisfiable) and path
            # feasibility is established by the executor at every fork; the generic end-of-path satisfiability query is switched
            # off because it is by far the most expensive query here (nonlinear, 10-20 s per path)
            d.setdefault("vacuity", False)
        out.append(d)
        return d

    # ---- (1) unit obligations
    for r, n in [(1, 1), (2, 1), (2, 2)]:
        for sp in ("none", "sym"):
            for nzr, it in ((0, 1), (0, 2), (1, 1)):
                add(f"unit/hals_nnls/r{r}n{n}/sp_{sp}/nonzero_rows{nzr}/it{it}", fn="u_hals", r=r, n=n, sp=sp, nzr=nzr, it=it)
    for r, n in [(1, 1), (2, 2)]:
        for it in (1, 2):
            add(f"unit/fista/matrix/r{r}n{n}/it{it}", fn="u_fista", form="matrix", r=r, n=n, it=it)
    for it in (1, 2):
        add(f"unit/fista/list/core2x2/it{it}", fn="u_fista", form="list", r=2, n=2, it=it)
    for r in (1, 2):
        for start in ("cold", "warm"):
            if q and r == 2 and start == "warm":
                continue  # ~100 s; the same run is part of C13 (obligation `nonneg` at every return)
            add(f"unit/active_set/r{r}/{start}", fn="u_active", r=r, m=r, start=start, mode="fork", niter={1: 2, 2: 3}[r], max_paths=20000)
    for nn in ("all", "dict"):
        for it in (1, 2):
            add(f"unit/admm/nn_{nn}/it{it}", fn="u_admm", nn=nn, it=it)
    for nnm in ([0], [2], [0, 2], [1], [0, 1, 2], "all"):
        add(f"unit/line_step/nn_{_nm(nnm)}", fn="u_line", nn_modes=nnm)
    for ru, rv, su, sv in itertools.product((0, 1), repeat=4):
        add(f"unit/svd_interface_nn/2x2/refl{ru}{rv}/sign{su}{sv}", fn="u_svdnn", ru=ru, rv=rv, su=su, sv=sv)

    # ---- (2) loop obligations
    shapes = [(2, 2), (2, 2, 2)] + ([] if q else [(3, 2, 2)])
    its = (0, 1, 2) if q else (0, 1, 2, 3)
    for shp in shapes:
        for R in (1, 2):
            for init in ("svd", "random", "user"):
                for it in its:
                    for norm in (0, 1):
                        if _heavy(shp, R, init) and (q or it > 1 or norm):
                            continue  # 512+ paths through svd_flip / NNDSVD per mode
                        if len(shp) == 3 and R == 2 and it >= 2 and q and norm:
                            continue
                        add(f"loop/nn_cp_mu/{_sh(shp)}/R{R}/init_{init}/norm{norm}/it{it}", fn="l_cp_mu", shape=shp, R=R, init=init, it=it, norm=norm)
    # tiny instances (small terms: a wrong clip in the multiplicative updates is found and replayed within the query budget)
    for shp in [(1, 2), (2, 1)]:
        for it in (1, 2):
            for norm in (0, 1):
                add(f"loop/nn_cp_mu/{_sh(shp)}/R1/init_user/norm{norm}/it{it}", fn="l_cp_mu", shape=shp, R=1, init="user", it=it, norm=norm)
                add(f"loop/nn_tucker_mu/{_sh(shp)}/R1/init_user/norm{norm}/it{it}", fn="l_tk_mu", shape=shp, R=1, init="user", it=it, norm=norm)
    for shp in shapes:
        for R in (1, 2):
            for init in ("svd", "random", "user"):
                for it in (0, 1, 2):
                    for nnm in ["all", None] + ([[0], [1], [0, 1]] if len(shp) == 2 else [[0], [1, 2], [0, 2]]):
                        if init != "user" and nnm not in ("all", [0]) and q:
                            continue
                        if _heavy(shp, R, init) and (q or it > 1 or nnm != "all"):
                            continue
                        add(f"loop/nn_cp_hals/{_sh(shp)}/R{R}/init_{init}/nn_{_nm(nnm)}/it{it}", fn="l_cp_hals", shape=shp, R=R, init=init, it=it, nn_modes=nnm, norm=0, sp=0)
            if len(shp) == 3 and R == 1:
                # a fixed mode shifts the position of the remaining modes in the update sequence: the constrained / unconstrained
                # dispatch must go by mode id (non-negative user init: the fixed factor is returned as supplied)
                for nnm in ([2], [1, 2]):
                    add(f"loop/nn_cp_hals/{_sh(shp)}/R{R}/init_user/nn_{_nm(nnm)}/fixed0/it1", fn="l_cp_hals", shape=shp, R=R, init="user", it=1, nn_modes=nnm, norm=0, sp=0, fixed=(0,))
            i2 = "random" if _heavy(shp, R, "svd") else "svd"
            add(f"loop/nn_cp_hals/{_sh(shp)}/R{R}/init_{i2}/nn_all/norm1_sp1/it2", fn="l_cp_hals", shape=shp, R=R, init=i2, it=2, nn_modes="all", norm=1, sp=1)
            add(f"loop/nn_cp_hals/{_sh(shp)}/R{R}/init_user/nn_all/norm1_sp1/it1", fn="l_cp_hals", shape=shp, R=R, init="user", it=1, nn_modes="all", norm=1, sp=1)
    for shp in shapes:
        for R in (1, 2):
            for init in ("svd", "random", "user"):
                for it in its:
                    for norm in (0, 1):
                        if _heavy(shp, R, init) and (q or it > 1 or norm):
                            continue
                        if len(shp) == 3 and R == 2 and it >= 2 and q:
                            continue
                        add(f"loop/nn_tucker_mu/{_sh(shp)}/R{R}/init_{init}/norm{norm}/it{it}", fn="l_tk_mu", shape=shp, R=R, init=init, it=it, norm=norm)
                for alg in ("fista", "active_set"):
                    for it in (0, 1, 2):
                        for norm in (0, 1):
                            if _heavy(shp, R, init) and (q or it > 0 or norm):
                                continue  # it = 1 exhausts the 25 min budget (measured)
                            if q and init == "svd" and R == 2 and ((it == 2 and norm) or (it == 1 and not norm)):
                                continue
                            add(f"loop/nn_tucker_hals/{alg}/{_sh(shp)}/R{R}/init_{init}/norm{norm}/it{it}", fn="l_tk_hals", shape=shp, R=R, init=init, it=it, norm=norm, alg=alg)
    for shp in shapes:
        for R in (1, 2):
            for init in ("svd", "random", "user"):
                for it in (0, 1, 2):
                    for nnm in ["all"] + ([[0], [1]] if len(shp) == 2 else [[0], [1, 2]]):
                        if q and _heavy(shp, R, init) and it == 2 and nnm != "all":
                            continue
                        add(f"loop/constrained_cp/{_sh(shp)}/R{R}/init_{init}/nn_{_nm(nnm)}/it{it}", fn="l_ccp", shape=shp, R=R, init=init, it=it, nn_modes=nnm)
    for R in (1, 2):
        for init in ("svd", "random", "user"):
            for it in (0, 1, 2):
                for nnm in ("all", [0], [2], [0, 2], [1]):
                    dec2 = nnm == "all" or 2 in nnm
                    if init == "svd" and it == 0 and q and (R, _nm(nnm)) not in ((1, "m2"), (2, "all"), (2, "m02"), (1, "m0"), (2, "m1")):
                        continue
                    if init == "svd" and it == 0:
                        # the initialisation is what is returned: run on slices generated from the SVD of their cross-product
                        add(f"loop/parafac2/R{R}/init_svdgen/nn_{_nm(nnm)}/it0", fn="l_pf2", R=R, init="svdgen", it=0, nn_modes=nnm, cost=100)
                    elif init == "svd" and dec2:
                        # C starts as signed singular vectors; hals_nnls skips rows with a zero Gram diagonal, so the sign proof for
                        # mode 2 needs the inner problems to be non-degenerate (no identically-zero factor column)
                        add(f"loop/parafac2/R{R}/init_svd/nondegenerate/nn_{_nm(nnm)}/it{it}", fn="l_pf2", R=R, init="svd", it=it, nn_modes=nnm, nondeg=True)
                    else:
                        add(f"loop/parafac2/R{R}/init_{init}/nn_{_nm(nnm)}/it{it}", fn="l_pf2", R=R, init=init, it=it, nn_modes=nnm)
    return out


def _heavy(shp, R, init):
    return len(shp) >= 3 and R == 2 and init == "svd"


def _sh(shp):
    return "x".join(map(str, shp))


def _nm(nnm):
    if nnm is None:
        return "none"
    if nnm == "all":
        return "all"
    return "m" + "".join(map(str, nnm))


# ------------------------------------------------------------------------------------------------ helpers
def _arr(E, x):
    if E.symbolic:
        from vt import sym

        return sym.sarr(x)
    return np.asarray(x, dtype=np.float64)


def nonneg(E, name, arr, lo=0, groups=()):
    a = np.asarray(arr, dtype=object if E.symbolic else np.float64)
    return E.prove(name, [E.ge(x, lo) for x in a.ravel()], groups=groups)


def declared(nn_modes, n_modes):
    if nn_modes == "all":
        return list(range(n_modes))
    if nn_modes is None:
        return []
    return list(nn_modes)


def prove_defined(E, name, arrays):
    """no division by zero happened (symbolic: every recorded denominator is non-zero without assuming it; float64: finite)"""
    if E.symbolic:
        from vt import sym

        c = sym.CTX
        saved = c.assume_defined
        c.assume_defined = False
        try:
            return E.prove(name, [sym.mkb(d != 0) for d in c.dens])
        finally:
            c.assume_defined = saved
    ok = all(bool(np.isfinite(np.asarray(a, dtype=float)).all()) for a in arrays)
    return E.prove(name, ok)


# ---- contract stubs (symbolic mode only): exactly the facts of the unit obligations -------------------------------
def stub_hals(E, assume_nondegenerate=False):
    from vt import backend, sym

    def hals_nnls(UtM, UtU, V=None, n_iter_max=500, tol=1e-8, sparsity_coefficient=None, ridge_coefficient=None, nonzero_rows=False, exact=False, epsilon=0.0, callback=None):
        # unit/hals_nnls: after >= 1 sweep row k is >= epsilon (>= 0) if UtU[k,k] != 0 and unchanged otherwise
        assert V is not None and n_iter_max >= 1 and not nonzero_rows
        V = sym.sarr(V)
        out = np.empty(V.shape, dtype=object)
        for k in range(V.shape[0]):
            fresh = backend.fresh_array("hals", (V.shape[1],), nn=True)
            if assume_nondegenerate:
                E.assume(UtU[k, k] != 0)  # stated in the config key and in ASSUMPTIONS
            for c in range(V.shape[1]):
                out[k, c] = fresh[c] if assume_nondegenerate else sym.ite(UtU[k, k] != 0, fresh[c], V[k, c])
        return out.view(sym.SArr)

    return hals_nnls


def stub_fista(E):
    from vt import backend

    def fista(UtM, UtU, x=None, n_iter_max=100, non_negative=True, sparsity_coef=0, ridge_coef=0, lr=None, tol=1e-8, epsilon=1e-8):
        # unit/fista: every iterate returned after >= 1 step is >= epsilon >= 0 (any start, any step size)
        assert non_negative and epsilon >= 0
        if n_iter_max == 0:
            return x
        return backend.fresh_array("fista", np.shape(UtM), nn=True)

    return fista


def stub_active(E):
    from vt import backend

    def active_set_nnls(Utm, UtU, x=None, n_iter_max=100, tol=10e-8):
        # unit/active_set: x >= 0 at every return (the last statement of every iteration is a clip at 0)
        if n_iter_max == 0:
            return tl.base.tensor_to_vec(x)
        return backend.fresh_array("aset", (np.shape(UtU)[1],), nn=True)

    return active_set_nnls


def stub_admm(E, nn_modes, n_modes):
    from vt import backend

    dec = declared(nn_modes, n_modes)

    def admm(UtM, UtU, x, dual_var, n_iter_max=100, n_const=None, order=None, non_negative=None, tol=1e-4, **kw):
        # unit/admm: with a non-negativity constraint on mode `order` the returned x is the output of the clip at 0
        assert n_iter_max >= 1 and n_const is not None
        shp = np.shape(x)
        xn = backend.fresh_array("admm_x", shp, nn=order in dec)
        return xn, backend.fresh_array("admm_s", shp[::-1]), backend.fresh_array("admm_d", shp)

    return admm


# ------------------------------------------------------------------------------------------------ harness
def harness(E, cfg):
    return globals()["h_" + cfg["fn"]](E, cfg)


# ---- (1) units ---------------------------------------------------------------------------------
def h_u_hals(E, cfg):
    r, n = cfg["r"], cfg["n"]
    UtM = E.real("UtM", (r, n))
    UtU = E.real("UtU", (r, r))  # arbitrary (also indefinite, zero diagonal): the sign argument needs nothing else
    V0 = E.real("V0", (r, n), nn=True)
    ls = None if cfg["sp"] == "none" else E.real("lam_s", nn=True)
    eps = E.real("eps", nn=True)
    try:
        Vn = NN.hals_nnls(UtM, UtU, V=tl.copy(V0), n_iter_max=cfg["it"], tol=0, sparsity_coefficient=ls, nonzero_rows=bool(cfg["nzr"]), epsilon=eps)
    except ValueError:
        E.prove("raises_only_for_zero_column_with_nonzero_rows", bool(cfg["nzr"]))
        return
    E.prove("shape", np.shape(Vn) == (r, n))
    for k in range(r):
        upd = E.Not(E.eq(UtU[k, k], 0))
        E.prove(f"row{k}/nonneg", [E.ge(Vn[k, c], 0) for c in range(n)])
        if not cfg["nzr"]:
            E.prove(f"row{k}/updated_ge_epsilon", [E.Implies(upd, E.ge(Vn[k, c], eps)) for c in range(n)])
            E.prove(f"row{k}/skipped_unchanged", [E.Implies(E.Not(upd), E.eq(Vn[k, c], V0[k, c])) for c in range(n)])


def h_u_fista(E, cfg):
    r, n = cfg["r"], cfg["n"]
    eps = E.real("eps", nn=True)
    lr = E.real("lr")  # any step size, even a negative one
    ls = E.real("lam_s")
    x0 = E.real("x0", (r, n))
    UtM = E.real("UtM", (r, n))
    if cfg["form"] == "matrix":
        UtU = E.real("UtU", (r, r))
    else:
        UtU = [E.real("UtU0", (r, r)), E.real("UtU1", (n, n))]
    xn = NN.fista(UtM, UtU, x=tl.copy(x0), n_iter_max=cfg["it"], sparsity_coef=ls, lr=lr, epsilon=eps, tol=0)
    E.prove("shape", np.shape(xn) == (r, n))
    nonneg(E, "iterate_ge_epsilon", xn, lo=eps)


def h_u_active(E, cfg):
    from props import c13

    r = cfg["r"]
    if E.symbolic:
        from vt import backend, sym

        def solve_def(A, B):
            X = backend.fresh_array("sol", B.shape)
            for f in backend.eq_facts(np.dot(A, X), B):
                sym.CTX.add_fact("def", f)
            return X

        backend.configure(solve=solve_def)
    UtU, UtM = c13.design(E, dict(cfg, n=1), need_det=True)
    Utm = UtM[:, 0]
    x0 = None
    if cfg["start"] == "warm":
        x0 = E.real("x0", (r,), nn=True)
        E.assume(E.Or([E.gt_strict(x0[i], 0) for i in range(r)]))
    try:
        x = NN.active_set_nnls(Utm, UtU, x=None if x0 is None else tl.copy(x0), n_iter_max=cfg["niter"], tol=E.real("tol", nn=True))
    except Exception as e:
        E.prove("no_exception", False, detail=f"{type(e).__name__}: {e}")
        return
    E.prove("shape", np.shape(x) == (r,))
    nonneg(E, "nonneg", x)


def h_u_admm(E, cfg):
    from vt import backend

    if E.symbolic:
        backend.configure(solve="havoc")
    n, r = 2, 2
    UtM = E.real("UtM", (n, r))
    UtU = E.real("UtU", (r, r))
    x0 = E.real("x0", (n, r))
    d0 = E.real("d0", (n, r))
    nn = True if cfg["nn"] == "all" else {1: True}
    for order, constrained in ((0, cfg["nn"] == "all"), (1, True)):
        x, xs, d = AD.admm(UtM, UtU, tl.copy(x0), tl.copy(d0), n_iter_max=cfg["it"], n_const=3, order=order, non_negative=nn, tol=0)
        E.prove(f"order{order}/shape", np.shape(x) == (n, r))
        if constrained:
            nonneg(E, f"order{order}/x_nonneg", x)


def h_u_line(E, cfg):
    from vt import backend

    if E.symbolic:
        backend.configure(svd="havoc")
    nnm = cfg["nn_modes"]
    dec = declared(nnm, 3)
    R = 2
    slices = [E.real(f"X{i}", (2, 2)) for i in range(2)]
    shapes = [(2, R), (R, R), (2, R)]
    f_last = [E.real(f"L{m}", shapes[m], nn=m in dec) for m in range(3)]
    f_cur = [E.real(f"F{m}", shapes[m], nn=m in dec) for m in range(3)]
    proj = [E.real(f"P{i}", (2, R)) for i in range(2)]
    w = _arr(E, np.ones(R))
    ls = _parafac2._BroThesisLineSearch(E.real("normX", pos=True), "truncated_svd", nn_modes=nnm)
    if E.symbolic:
        # the accept/reject decision compares reconstruction errors: havoc it (fresh value >= 0) so that both outcomes are explored
        backend.patch(_parafac2, "_parafac2_reconstruction_error", lambda *a, **k: backend.fresh_array("lserr", (1,), nn=True)[0])
    try:
        facs, projs, err = ls.line_step(6, slices, f_last, w, f_cur, proj, 1e30)  # huge current error: the replay accepts the step
    except Exception as e:
        E.prove("no_exception", False, detail=f"{type(e).__name__}: {e}")
        return
    E.prove("no_exception", True)
    for m in dec:
        nonneg(E, f"accepted_or_rejected_step/mode{m}", facs[m])


def _rot(t):
    c = (1 - t * t) / (1 + t * t)
    s = (2 * t) / (1 + t * t)
    return [[c, -s], [s, c]]


def gen_svd_2x2(E, cfg):
    """a 2x2 matrix generated from its SVD: M = U diag(S) Vt with U, V rotations (half-angle parameters) optionally reflected,
    S0 > S1 > 0 -- so that in the replay the real LAPACK SVD of M is (U, S, Vt) up to the column signs that svd_flip canonicalises"""
    # half-angle parameters kept away from 0 and +-1 (no exactly-zero entry, which a float SVD could not reproduce); signs by config
    tu = E.real("tu", lo=0.125, hi=0.875) * (-1 if cfg.get("su") else 1)
    tv = E.real("tv", lo=0.125, hi=0.875) * (-1 if cfg.get("sv") else 1)
    S = E.real("S", (2,), pos=True)
    E.assume(E.gt_strict(S[0], S[1]))
    U = _rot(tu)
    V = _rot(tv)
    if cfg["ru"]:
        U = [[U[0][0], -U[0][1]], [U[1][0], -U[1][1]]]
    if cfg["rv"]:
        V = [[V[0][0], -V[0][1]], [V[1][0], -V[1][1]]]
    Vt = [[V[0][0], V[1][0]], [V[0][1], V[1][1]]]
    M = [[sum(U[i][k] * S[k] * Vt[k][j] for k in range(2)) for j in range(2)] for i in range(2)]
    return _arr(E, np.array(U, dtype=object)), S, _arr(E, np.array(Vt, dtype=object)), _arr(E, np.array(M, dtype=object))


def h_u_svdnn(E, cfg):
    from vt import backend, sym

    U, S, Vt, M = gen_svd_2x2(E, cfg)
    if E.symbolic:
        backend.configure(svd="havoc")
        sym.CTX.dens.clear()  # 1 + t^2 of the generator is never zero
        backend.POLICY.tables["svd"].append(((M,), (U, S, Vt)))
    try:
        W, S2, H = SVDM.svd_interface(M, n_eigenvecs=2, non_negative=True)
    except ZeroDivisionError as e:
        E.prove("nndsvd_defined", False, detail=str(e))
        return
    prove_defined(E, "nndsvd_defined", [W, H])
    # the 'nndsvda' fill value is mean(M): non-negative only for a matrix with non-negative mean
    E.prove("W_nonneg_if_mean_nonneg", [E.Implies(E.ge(M[0, 0] + M[0, 1] + M[1, 0] + M[1, 1], 0), E.ge(x, 0)) for x in np.asarray(W).ravel()])


# ---- (2) loops ---------------------------------------------------------------------------------
def _tensor(E, cfg):
    return E.real("T", cfg["shape"])


def _cp_user_init(E, shape, R, dec):
    w = E.real("w0", (R,), nn=True)
    fs = [E.real(f"F{m}", (shape[m], R), nn=(m in dec)) for m in range(len(shape))]
    return (w, fs)


def _setup(E, cfg, **kw):
    if E.symbolic:
        from vt import backend, sym

        backend.configure(svd="havoc", qr="havoc", solve="havoc", **kw)
        sym.CTX.intern_roots = False  # sign reasoning only: no need to identify equal norms


def _check_cp(E, res, dec, R, shape, groups=()):
    w, fs = res
    E.prove("shapes", np.shape(w) == (R,) and all(np.shape(f) == (shape[m], R) for m, f in enumerate(fs)))
    nonneg(E, "weights_nonneg", w, groups=groups)
    for m in dec:
        nonneg(E, f"factor{m}_nonneg", fs[m], groups=groups)


def h_l_cp_mu(E, cfg):
    _setup(E, cfg)
    shape, R = cfg["shape"], cfg["R"]
    T = _tensor(E, cfg)
    dec = list(range(len(shape)))
    init = cfg["init"] if cfg["init"] != "user" else _cp_user_init(E, shape, R, dec)
    res = _nn_cp.non_negative_parafac(T, R, n_iter_max=cfg["it"], init=init, tol=0, random_state=7, normalize_factors=bool(cfg["norm"]))
    _check_cp(E, res, dec, R, shape)


def h_l_cp_hals(E, cfg):
    from vt import backend, sym

    _setup(E, cfg)
    shape, R = cfg["shape"], cfg["R"]
    N = len(shape)
    T = _tensor(E, cfg)
    dec = declared(cfg["nn_modes"], N)
    init = cfg["init"] if cfg["init"] != "user" else _cp_user_init(E, shape, R, dec)
    sp = [E.real(f"sp{m}", nn=True) for m in range(N)] if cfg["sp"] else None
    if E.symbolic:
        # unconstrained modes: tl.solve by Cramer (R <= 2) where no tolerance branch has to be decided on the resulting terms,
        # so that a wrong dispatch between constrained / unconstrained modes is replayable; havoc otherwise
        backend.configure(svd="havoc", qr="havoc", solve="exact" if (cfg["it"] <= 1 and cfg["init"] == "user") else "havoc")
        sym.CTX.intern_roots = False
        backend.patch(_nn_cp, "hals_nnls", stub_hals(E))
    res = _nn_cp.non_negative_parafac_hals(
        T, R, n_iter_max=cfg["it"], init=init, tol=0 if cfg["it"] < 2 else E.real("tol", pos=True), random_state=7, sparsity_coefficients=sp, nn_modes=cfg["nn_modes"], normalize_factors=bool(cfg["norm"]),
        **({"fixed_modes": list(cfg["fixed"])} if cfg.get("fixed") else {})
    )
    _check_cp(E, res, dec, R, shape, groups=("solve",))


def _check_tucker(E, res, R, shape):
    core, fs = res
    N = len(shape)
    E.prove("shapes", np.shape(core) == (R,) * N and all(np.shape(f) == (shape[m], R) for m, f in enumerate(fs)))
    nonneg(E, "core_nonneg", core)
    for m in range(N):
        nonneg(E, f"factor{m}_nonneg", fs[m])


def _tk_user_init(E, shape, R):
    return (E.real("G0", (R,) * len(shape), nn=True), [E.real(f"F{m}", (shape[m], R), nn=True) for m in range(len(shape))])


def h_l_tk_mu(E, cfg):
    _setup(E, cfg)
    shape, R = cfg["shape"], cfg["R"]
    T = _tensor(E, cfg)
    init = cfg["init"] if cfg["init"] != "user" else _tk_user_init(E, shape, R)
    res = _tucker.non_negative_tucker(T, [R] * len(shape), n_iter_max=cfg["it"], init=init, tol=E.real("tol", pos=True) if cfg["it"] >= 3 else 0, random_state=7, normalize_factors=bool(cfg["norm"]))
    _check_tucker(E, res, R, shape)


def h_l_tk_hals(E, cfg):
    from vt import backend

    _setup(E, cfg)
    shape, R = cfg["shape"], cfg["R"]
    N = len(shape)
    T = _tensor(E, cfg)
    if E.symbolic:
        backend.patch(_tucker, "hals_nnls", stub_hals(E))
        backend.patch(_tucker, "fista", stub_fista(E))
        backend.patch(_tucker, "active_set_nnls", stub_active(E))
    sp = [E.real(f"sp{m}", nn=True) for m in range(N)]
    try:
        res = _tucker.non_negative_tucker_hals(
            T, [R] * N, n_iter_max=cfg["it"], init=cfg["init"] if cfg["init"] != "user" else _tk_user_init(E, shape, R), tol=0, random_state=7, sparsity_coefficients=sp, core_sparsity_coefficient=E.real("csp", nn=True), normalize_factors=bool(cfg["norm"]), algorithm=cfg["alg"]
        )
    except np.linalg.LinAlgError:
        return  # replay only: singular Gram data in the real active-set solver (outside the claim: nothing is returned)
    _check_tucker(E, res, R, shape)


def h_l_ccp(E, cfg):
    from vt import backend

    _setup(E, cfg)
    shape, R = cfg["shape"], cfg["R"]
    N = len(shape)
    T = _tensor(E, cfg)
    dec = declared(cfg["nn_modes"], N)
    nn = True if cfg["nn_modes"] == "all" else {m: True for m in dec}
    init = cfg["init"] if cfg["init"] != "user" else _cp_user_init(E, shape, R, dec)
    if E.symbolic:
        backend.patch(_constrained_cp, "admm", stub_admm(E, cfg["nn_modes"], N))
    res = _constrained_cp.constrained_parafac(T, R, n_iter_max=cfg["it"], n_iter_max_inner=2, init=init, tol_outer=0 if cfg["it"] < 2 else E.real("tol", pos=True), random_state=7, non_negative=nn)
    _check_cp(E, res, dec, R, shape)


def _lenient_validate_parafac2(parafac2_tensor):
    from tensorly.parafac2_tensor import Parafac2Tensor

    if isinstance(parafac2_tensor, Parafac2Tensor):
        return parafac2_tensor.shape, parafac2_tensor.rank
    weights, factors, projections = parafac2_tensor
    rank = int(np.shape(factors[0])[1])
    assert all(np.shape(f)[1] == rank for f in factors) and all(np.shape(p)[1] == rank for p in projections)
    shape = tuple((np.shape(p)[0], *[np.shape(f)[0] for f in factors[2:]]) for p in projections)
    return shape, rank


def h_l_pf2(E, cfg):
    from vt import backend, sym

    if E.symbolic:
        import tensorly.parafac2_tensor as p2t

        backend.configure(svd="havoc", qr="havoc", solve="havoc")
        sym.CTX.intern_roots = False
        # Parafac2Tensor validates P'P = I numerically; with havoc'd SVD factors that test is meaningless: shape-only validator
        backend.patch(p2t, "_validate_parafac2_tensor", _lenient_validate_parafac2)
        if hasattr(_parafac2, "_validate_parafac2_tensor"):
            backend.patch(_parafac2, "_validate_parafac2_tensor", _lenient_validate_parafac2)
    R = cfg["R"]
    dec = declared(cfg["nn_modes"], 3)
    init = cfg["init"]
    if init == "svdgen":
        # slices X_i = diag(d_i) W' with W a rotation: the cross-product sum_i X_i'X_i = W diag(s) W', s_k = sum_i d_i[k]^2
        tw = E.real("tw", lo=-1, hi=1)
        E.assume(E.ge(abs(tw), 0.125))
        E.assume(E.le(abs(tw), 0.875))
        W = _rot(tw)
        d = [E.real(f"d{i}", (2,)) for i in range(2)]
        s = [d[0][k] * d[0][k] + d[1][k] * d[1][k] for k in range(2)]
        E.assume(E.gt_strict(s[0], s[1]))
        E.assume(E.gt_strict(s[1], 0))
        slices = [_arr(E, np.array([[d[i][j] * W[k][j] for k in range(2)] for j in range(2)], dtype=object)) for i in range(2)]
        if E.symbolic:
            sym.CTX.dens.clear()
            K = np.dot(np.asarray(slices[0]).T, np.asarray(slices[0])) + np.dot(np.asarray(slices[1]).T, np.asarray(slices[1]))
            Wm = sym.sarr(np.array(W, dtype=object))
            backend.POLICY.tables["svd"].append(((sym.sarr(K),), (Wm, sym.sarr(np.array(s, dtype=object)), sym.sarr(np.asarray(Wm).T.copy()))))
        init = "svd"
    else:
        slices = [E.real(f"X{i}", (2, 2)) for i in range(2)]
    if init == "user":
        w = _arr(E, np.ones(R))
        fs = [E.real("A", (2, R), nn=0 in dec), E.real("B", (R, R), nn=1 in dec), E.real("C", (2, R), nn=2 in dec)]
        tp = [E.real(f"tp{i}", lo=-1, hi=1) for i in range(2)]
        projs = [_arr(E, np.array(_rot(t), dtype=object)[:, :R]) for t in tp]
        if E.symbolic:
            sym.CTX.dens.clear()
        init = (w, fs, projs)
    if E.symbolic:
        backend.patch(_nn_cp, "hals_nnls", stub_hals(E, assume_nondegenerate=bool(cfg.get("nondeg"))))
    res = _parafac2.parafac2(slices, R, n_iter_max=cfg["it"], init=init, tol=0 if (cfg["it"] < 2 or R > 1) else E.real("tol", pos=True), nn_modes=cfg["nn_modes"], random_state=7, n_iter_parafac=1, linesearch=True)
    w, fs, projs = res
    E.prove("shapes", np.shape(w) == (R,) and [np.shape(f) for f in fs] == [(2, R), (R, R), (2, R)])
    nonneg(E, "weights_nonneg", w)
    for m in dec:
        nonneg(E, f"factor{m}_nonneg", fs[m])
