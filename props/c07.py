"""C07 -- exact block-coordinate algorithms never increase their objective (by certificate).

A direct query "f(after) > f(before) satisfiable?" is out of reach beyond rank 1 (DESIGN.md C07).  The claim is decomposed so that every
code-dependent part is a polynomial identity and the remaining mathematics is a small generic lemma proved once by the solver:

  per block update (every call the code makes to solve / hals_nnls / svd is intercepted by a recording stub):
   (A) the system the code hands to the kernel IS the normal-equation system of the block problem: its arguments are entrywise identical to
       K~^T K~ and X_(m) K~ built by the harness from the CURRENT other factors and weights (the harness mirrors the data flow of the sweep
       from the recorded stub outputs) -- identities;
   (B) generic lemma I1 (any Y, K, old, new):  ||Y - old K^T||^2 - ||Y - new K^T||^2 == ||(old-new) K^T||^2 + 2 <old-new, (new K^T - Y) K>
       -- identity; with g(new) = (new K^T - Y) K == 0 from (A) + the solve contract, f(old) - f(new) = ||(old-new)K^T||^2 >= 0;
   (C) the block objective in unfolded form is the dense objective sum (X - dense(iterate))^2 -- identity.
  HALS: (A) for the arguments of hals_nnls, plus the real hals_nnls row update == clipped exact coordinate minimiser (identity per path) and the
        1-D lemma "q(x)=a x^2-2 c x, a>0, x'=max(c/a,eps), x0>=eps  =>  q(x') <= q(x0)" (solver-proved).
  TR-ALS / CMTF: every block update is a stationary point of the ONE dense objective in that block, derived from the lstsq/solve contract facts
        (normal equations of the system the code handed over); CMTF over two sweeps with the matrix coupled into mode 0.
  CP / Tucker regressors: system matrix and right-hand side of every block solve are the ridge normal equations Phi'Phi + lam I, Phi'y of the
        one penalised objective, Phi rebuilt by the harness from the dense prediction.
  HOOI / PARAFAC2 projections: the matrix handed to the SVD is the projected unfolding / B diag(a_i) C^T X_i^T (identity); that leading singular
        vectors / the polar factor maximise the block objective is the SVD contract (Ky Fan / Procrustes, trusted).
"""
import itertools

import numpy as np

import tensorly as tl

from props.c06 import dense_cp, dense_tucker, sq, stub_cp_normalize, stub_orthonormal_svd

PID = "C07"
ENGINE = "E1"
EXPLANATION = (
    "Certificate-based descent check: the real ALS / HALS / HOOI / PARAFAC2 sweeps run symbolically with recording kernel stubs; for every block update the "
    "arguments the code passes to solve / hals_nnls / svd are proved identical to the normal-equation data (Gram of the Khatri-Rao design incl. weights, MTTKRP) of the "
    "block least-squares problem rebuilt independently by the harness from the current iterate, the generic descent identity I1 and the 1-D clipped-quadratic lemma are "
    "proved once per shape, and the real hals_nnls row update is proved to be the clipped exact coordinate minimiser. Together: each block update cannot increase the objective."
)
ENCODED = [
    "tensorly.decomposition._cp.parafac",
    "tensorly.decomposition._nn_cp.non_negative_parafac_hals",
    "tensorly.decomposition._tucker.partial_tucker",
    "tensorly.decomposition._parafac2._compute_projections",
    "tensorly.decomposition._parafac2._project_tensor_slices",
    "tensorly.solvers.nnls.hals_nnls",
    "tensorly.regression.cp_regression.CPRegressor.fit",
    "tensorly.decomposition._tr_als.tensor_ring_als",
    "tensorly.decomposition._cmtf_als.coupled_matrix_tensor_3d_factorization",
    "tensorly.regression.tucker_regression.TuckerRegressor.fit",
    "tensorly.tenalg.core_tenalg.mttkrp.unfolding_dot_khatri_rao",
    "tensorly.tenalg.core_tenalg._khatri_rao.khatri_rao",
]
BOUNDS = {
    "quick": "CP-ALS / HALS-CP orders 2-4 sizes 2 (one 3) rank 1-2, 2 sweeps (normalised: weights symbolic); HOOI 2x2x2, 3x2x2 ranks <= (2,2,1); PARAFAC2 2 slices of 2-3 rows rank 1-2; hals_nnls r<=2, n<=2; TR-ALS 2x2x2 one sweep; CMTF 2x2x2 + 2x2 rank 1-2, two sweeps; CP / Tucker regressors 3 samples of 2x2 (ranks <= (2,1)), one sweep; CP line search 2x2x2 rank 1, 7 sweeps",
    "thorough": "adds rank 3 on 3x3x3 and order 4 rank 2",
}
OUTSIDE = [
    "convergence; conditioning beyond non-singularity (the solve contract A x = b presupposes a unique solution)",
    "Ky Fan / Procrustes optimality of the SVD-based block updates (SVD contract)",
    "Tucker regressor on vector samples (raises: known finding of C19); CMTF beyond two sweeps / sizes (2,3,2)x3",
    "the consequence 'reported errors are non-increasing' combines this with C06",
]
TRUSTED = ["z3", "solve contract (A x = b)", "SVD contract for HOOI/PARAFAC2 block optimality", "generic lemmas proved by z3 in this run (I1 per shape, 1-D clipped quadratic)"]
ASSUMPTIONS = ["real arithmetic", "block systems non-singular"]


def configs(tier):
    q = tier == "quick"
    out = []

    def add(fam, **kw):
        key = fam + "".join(f"/{k}={v}" for k, v in kw.items())
        d = dict(key=key, fam=fam, **kw)
        d.setdefault("mode", "merge")
        d["timeout_s"] = 170 if q else 1200
        out.append(d)

    shapes = [((2, 2), 1), ((2, 2), 2), ((2, 2, 2), 1), ((2, 2, 2), 2), ((2, 3, 2), 2), ((2, 2, 2, 2), 1)] + ([] if q else [((3, 3, 3), 3), ((2, 2, 2, 2), 2)])
    for shp, R in shapes:
        for opt in ("plain", "normalize"):
            add("cp_als", shape=shp, R=R, opt=opt, K=2)
            add("hals_cp", shape=shp, R=R, opt=opt, K=2)
        if shp == (2, 2, 2) and R == 2:
            # a fixed mode with normalisation: the fixed factor is rescaled by every cp_normalize although it is never updated
            add("cp_als", shape=shp, R=R, opt="normalize", K=2, fixed=(0,))
            add("hals_cp", shape=shp, R=R, opt="normalize", K=2, fixed=(0,))
        add("lemma_I1", rows=shp[0], R=R, cols=int(np.prod(shp[1:])))
        for m in range(len(shp)):
            add("unfolded_objective", shape=shp, R=R, m=m)
    for shp, rank in [((2, 2, 2), (1, 1, 1)), ((2, 2, 2), (2, 1, 1)), ((2, 2, 2), (2, 2, 1)), ((3, 2, 2), (1, 2, 1))]:
        add("hooi", shape=shp, rank=rank, K=2, mode="fork")
    for rows, J, R in [((2, 2), 2, 1), ((2, 3), 2, 1), ((2, 2), 2, 2)]:
        add("parafac2_proj", rows=rows, J=J, R=R, mode="fork")
    for r, n in [(1, 1), (2, 1), (2, 2)] + ([] if q else [(3, 2)]):
        for pen in ("none", "sparse", "ridge"):
            add("hals_row", r=r, n=n, pen=pen, mode="merge")
    # (vector samples with scalar targets raise inside fit: known finding of C19, not a configuration here)
    for xs, ys, R in [((2, 2), (), 1), ((2,), (2,), 1), ((2,), (2,), 2), ((2, 2), (2,), 1)] + ([] if q else [((2, 2), (), 2), ((2, 2), (2,), 2)]):
        add("cp_regressor", xs=xs, ys=ys, R=R, ns=3)
    add("cp_regressor", xs=(2, 2), ys=(), R=1, ns=3, K=2)  # two sweeps
    add("cp_regressor", xs=(2,), ys=(2, 2), R=1, ns=2)  # several output modes
    add("cp_regressor", xs=(2,), ys=(2, 2, 2), R=1, ns=2)  # three output modes: moving an axis differs from swapping two
    for shp, rank in [((2, 2, 2), [1, 2, 1, 1]), ((2, 2, 2), [2, 1, 1, 2])] + ([] if q else [((2, 3, 2), [1, 1, 2, 1]), ((2, 2, 2), [2, 1, 2, 2])]):
        for ls in ("normal_eq", "lstsq"):
            add("tr_als", shape=shp, rank=rank, ls=ls)
    add("tr_als", shape=(2, 2, 2), rank=[2, 2, 1, 2], ls="lstsq", K=2)  # two sweeps: an update rule that depends on the sweep index
    for xs, ranks in [((2, 2), (1, 1)), ((2, 2), (2, 1))] + ([] if q else [((2, 2), (2, 2)), ((2, 3), (1, 2))]):
        add("tucker_regressor", xs=xs, ranks=ranks, ns=3)
    add("tucker_regressor", xs=(2, 2), ranks=(2, 1), ns=3, K=2)  # two sweeps
    for shp, cols, R in [((2, 2, 2), 2, 1), ((2, 2, 2), 2, 2)] + ([] if q else [((2, 3, 2), 3, 2), ((3, 2, 2), 1, 2)]):
        add("cmtf", shape=shp, cols=cols, R=R)
    add("lemma_1d")
    add("linesearch_accept", shape=(2, 2, 2), R=1, mode="fork")
    return out


def harness(E, cfg):
    globals()["h_" + cfg["fam"]](E, cfg)


# ------------------------------------------------------------------------------------ oracle pieces
def khatri_rao_design(factors, w, m):
    """K~[(i_k)_{k != m}, r] = w_r * prod_{k != m} A_k[i_k, r]   (rows in increasing mode order, row-major)"""
    others = [k for k in range(len(factors)) if k != m]
    rows = [np.shape(factors[k])[0] for k in others]
    R = np.shape(factors[0])[1]
    K = np.empty((int(np.prod(rows)), R), dtype=object)
    for ri, idx in enumerate(np.ndindex(*rows)):
        for r in range(R):
            p = 1 if w is None else w[r]
            for j, k in enumerate(others):
                p = p * factors[k][idx[j], r]
            K[ri, r] = p
    return K


def unfold_oracle(X, m):
    X = np.asarray(X, dtype=object)
    others = [k for k in range(X.ndim) if k != m]
    rows = [X.shape[k] for k in others]
    U = np.empty((X.shape[m], int(np.prod(rows))), dtype=object)
    for i in range(X.shape[m]):
        for ci, idx in enumerate(np.ndindex(*rows)):
            full = [None] * X.ndim
            full[m] = i
            for j, k in enumerate(others):
                full[k] = idx[j]
            U[i, ci] = X[tuple(full)]
    return U


def matmul(A, B):
    A = np.asarray(A, dtype=object)
    B = np.asarray(B, dtype=object)
    out = np.empty((A.shape[0], B.shape[1]), dtype=object)
    for i in range(A.shape[0]):
        for j in range(B.shape[1]):
            out[i, j] = sum(A[i, k] * B[k, j] for k in range(A.shape[1]))
    return out


# ------------------------------------------------------------------------------------ CP-ALS / HALS-CP
def _cp_sweeps(E, cfg, hals):
    from vt import backend, sym
    import tensorly.decomposition._cp as _cp
    import tensorly.decomposition._nn_cp as _nn
    from tensorly.decomposition import parafac, non_negative_parafac_hals

    shp, R, opt, K = cfg["shape"], cfg["R"], cfg["opt"], cfg["K"]
    if not E.symbolic:
        # falsification side: a failed certificate is only a violation if the REAL run shows an actual ascent of the objective
        # (recomputed from scratch from the iterates) on the model input or on nearby inputs
        X = np.asarray(E.real("X", shp, nn=hals), dtype=float)
        F0 = [np.asarray(E.real(f"F{k}", (n, R), nn=hals), dtype=float) for k, n in enumerate(shp)]
        fn = non_negative_parafac_hals if hals else parafac
        ok = _descends(fn, X, R, F0, opt == "normalize", hals, fixed=tuple(cfg.get("fixed", ())))
        for s_ in range(K):
            for m in [m_ for m_ in range(len(shp)) if m_ not in tuple(cfg.get("fixed", ()))]:
                for nm in ("UtU_is_gram_of_design", "UtM_is_mttkrp", "warm_start_is_current_factor", "system_matrix_is_gram_of_design", "rhs_is_mttkrp", "normalisation_input_is_current_iterate"):
                    E.prove(f"s{s_}m{m}/{nm}", ok)
        E.prove("one_kernel_call_per_block", ok)
        return
    backend.configure(solve="contract")
    backend.patch(_cp, "cp_normalize", stub_cp_normalize)
    backend.patch(_nn, "cp_normalize", stub_cp_normalize)
    hals_calls = []

    def rec_hals(UtM, UtU, V=None, *a, **k):
        out = backend.fresh_array("hals", np.shape(UtM), nn=True)
        hals_calls.append((np.array(UtM, dtype=object), np.array(UtU, dtype=object), None if V is None else np.array(V, dtype=object), out))
        return out.copy()

    backend.patch(_nn, "hals_nnls", rec_hals)
    X = E.real("X", shp, nn=hals)
    F0 = [E.real(f"F{k}", (n, R), nn=hals) for k, n in enumerate(shp)]
    kw = dict(n_iter_max=K, init=(None, [np.array(f) for f in F0]), tol=0, normalize_factors=(opt == "normalize"))
    fixed = tuple(cfg.get("fixed", ()))
    if fixed:
        kw["fixed_modes"] = list(fixed)
    if hals:
        non_negative_parafac_hals(np.array(X), R, **kw)
        calls = hals_calls
    else:
        parafac(np.array(X), R, **kw)
        calls = [(c[1][0], c[1][1], None, c[2]) for c in sym.CTX.stub_calls if c[0] == "solve"]
    norm_calls = [c for c in sym.CTX.stub_calls if c[0] == "cp_normalize"]
    N = len(shp)
    modes_list = [m_ for m_ in range(N) if m_ not in fixed]
    E.prove("one_kernel_call_per_block", len(calls) == K * len(modes_list))
    # mirror of the sweep's data flow
    w = None
    F = [np.asarray(f, dtype=object) for f in F0]
    Xo = np.asarray(X, dtype=object)
    ci = 0
    ni = 0
    for s_ in range(K):
        for m in modes_list:
            Kt = khatri_rao_design(F, w, m)
            gram = matmul(Kt.T, Kt)
            rhs = matmul(unfold_oracle(Xo, m), Kt)  # X_(m) K~ : (I_m x R)
            a0, a1, v0, outp = calls[ci]
            ci += 1
            if hals:
                # hals_nnls(UtM = mttkrp^T, UtU = gram, V = factor^T)
                E.prove_eq(f"s{s_}m{m}/UtU_is_gram_of_design", a1, gram)
                E.prove_eq(f"s{s_}m{m}/UtM_is_mttkrp", a0, rhs.T)
                E.prove_eq(f"s{s_}m{m}/warm_start_is_current_factor", v0, F[m].T)
            else:
                # solve(pinv^T, mttkrp^T)
                E.prove_eq(f"s{s_}m{m}/system_matrix_is_gram_of_design", a0, gram.T)
                E.prove_eq(f"s{s_}m{m}/rhs_is_mttkrp", a1, rhs.T)
            F[m] = np.asarray(outp, dtype=object).T
            last_in_sweep = m == modes_list[-1]
            if opt == "normalize" and ((hals and not last_in_sweep) or (not hals and last_in_sweep) or (hals and last_in_sweep)):
                # parafac normalises once per sweep; the HALS variant after every mode but the last, and again at the end of the sweep
                if ni < len(norm_calls):
                    args, outn = norm_calls[ni][1], norm_calls[ni][2]
                    ok_w = True if w is None else E.eq_arrays(args[0], w)
                    if w is None:
                        ok_w = E.eq_arrays(args[0], np.ones(R, dtype=object))
                    E.prove(f"s{s_}m{m}/normalisation_input_is_current_iterate", [ok_w] + [E.eq_arrays(args[1 + k], F[k]) for k in range(N)])
                    w = np.asarray(outn[0], dtype=object)
                    F = [np.asarray(f, dtype=object) for f in outn[1]]
                    ni += 1


def _descends(fn, X, R, F0, normalize, nonneg, sweeps=5, fixed=()):
    """concrete experiment: objective ||X - dense(iterate)||^2 after each sweep (iterates from prefix runs) never increases"""
    rng = np.random.RandomState(0)
    cases = [(X, F0)]
    for t in range(12):
        sc = [1.0, 0.1, 10.0][t % 3]
        Xp = X * sc + rng.randn(*X.shape) * 0.3 * (t > 2)
        Fp = [f + rng.randn(*f.shape) * 0.5 for f in F0]
        if nonneg:
            Xp = np.abs(Xp)
            Fp = [np.abs(f) + 0.1 for f in Fp]
        cases.append((Xp, Fp))
    for Xc, Fc in cases:
        prev = None
        for k in range(1, sweeps + 1):
            try:
                kwf = dict(fixed_modes=list(fixed)) if fixed else {}
                res = fn(Xc.copy(), R, n_iter_max=k, init=(None, [f.copy() for f in Fc]), tol=0, normalize_factors=normalize, **kwf)
            except Exception:
                break
            w, fs = res
            val = float(np.sum((Xc - tl.cp_to_tensor((w, fs))) ** 2))
            if not np.isfinite(val):
                break
            if prev is not None and val > prev * (1 + 1e-7) + 1e-10:
                return False
            prev = val
    return True


def h_cp_als(E, cfg):
    _cp_sweeps(E, cfg, hals=False)


def h_hals_cp(E, cfg):
    _cp_sweeps(E, cfg, hals=True)


def h_lemma_I1(E, cfg):
    """generic: f(old) - f(new) == ||(old-new)K^T||^2 + 2 <old-new, (new K^T - Y) K>"""
    I, R, C = cfg["rows"], cfg["R"], cfg["cols"]
    Y = E.real("Y", (I, C))
    Km = E.real("K", (C, R))
    old = E.real("old", (I, R))
    new = E.real("new", (I, R))
    f_old = sq(np.asarray(Y, dtype=object) - matmul(old, np.asarray(Km, dtype=object).T))
    f_new = sq(np.asarray(Y, dtype=object) - matmul(new, np.asarray(Km, dtype=object).T))
    d = np.asarray(old, dtype=object) - np.asarray(new, dtype=object)
    g = matmul(matmul(new, np.asarray(Km, dtype=object).T) - np.asarray(Y, dtype=object), Km)
    inner = sum(d[i, r] * g[i, r] for i in range(I) for r in range(R))
    E.prove("descent_identity", E.eq(f_old - f_new, sq(matmul(d, np.asarray(Km, dtype=object).T)) + 2 * inner))
    # hence, when g(new) == 0 (normal equations, obligation (A) + solve contract): f(old) - f(new) == ||(old-new)K^T||^2, a syntactic sum of
    # squares; its non-negativity is what turns the identity into descent
    E.prove("gain_is_a_sum_of_squares", E.ge(sq(matmul(d, np.asarray(Km, dtype=object).T)), 0))


def h_unfolded_objective(E, cfg):
    shp, R, m = cfg["shape"], cfg["R"], cfg["m"]
    X = E.real("X", shp)
    w = E.real("w", (R,))
    F = [E.real(f"F{k}", (n, R)) for k, n in enumerate(shp)]
    dense = dense_cp(w, F)
    Kt = khatri_rao_design([np.asarray(f, dtype=object) for f in F], w, m)
    unf = unfold_oracle(X, m) - matmul(F[m], Kt.T)
    E.prove("unfolded_equals_dense_objective", E.eq(sq(unf), sq(np.asarray(X, dtype=object) - dense)))


# ------------------------------------------------------------------------------------ HOOI
def h_hooi(E, cfg):
    from vt import backend, sym
    import tensorly.decomposition._tucker as _tk
    from tensorly.decomposition import tucker

    shp, rank, K = cfg["shape"], cfg["rank"], cfg["K"]
    if not E.symbolic:
        E.prove("replay_not_applicable", True)
        return
    backend.patch(_tk, "svd_interface", stub_orthonormal_svd)
    X = E.real("X", shp)
    core, factors = tucker(np.array(X), rank=list(rank), n_iter_max=K, tol=0)
    calls = [c for c in sym.CTX.stub_calls if isinstance(c[0], tuple) and c[0][0] == "orth_svd"]
    N = len(shp)
    E.prove("kernel_calls", len(calls) == N * (K + 1))
    Xo = np.asarray(X, dtype=object)
    # HOSVD initialisation: leading singular vectors of each unfolding
    U = []
    for m in range(N):
        E.prove_eq(f"init/m{m}/matrix_is_unfolding", calls[m][1][0], unfold_oracle(Xo, m))
        U.append(np.asarray(calls[m][2][0], dtype=object))
    ci = N
    for s_ in range(K):
        for m in range(N):
            proj = Xo
            for k in range(N):
                if k != m:
                    # X x_k U_k^T
                    shp_ = proj.shape
                    new = shp_[:k] + (U[k].shape[1],) + shp_[k + 1 :]
                    nxt = np.empty(new, dtype=object)
                    for idx in np.ndindex(*new):
                        nxt[idx] = sum(U[k][l, idx[k]] * proj[idx[:k] + (l,) + idx[k + 1 :]] for l in range(shp_[k]))
                    proj = nxt
            E.prove_eq(f"s{s_}m{m}/matrix_is_projected_unfolding", calls[ci][1][0], unfold_oracle(proj, m))
            U[m] = np.asarray(calls[ci][2][0], dtype=object)
            ci += 1
    spec_core = dense_tucker(Xo, [u.T for u in U])
    E.prove_eq("core_is_projection_on_final_factors", core, spec_core)
    E.prove("returned_factors_are_kernel_outputs", [E.eq_arrays(f, u) for f, u in zip(factors, U)])


# ------------------------------------------------------------------------------------ PARAFAC2 projections
def h_parafac2_proj(E, cfg):
    from vt import backend, sym
    import tensorly.decomposition._parafac2 as _p2

    rows, J, R = cfg["rows"], cfg["J"], cfg["R"]
    if not E.symbolic:
        E.prove("replay_not_applicable", True)
        return
    backend.patch(_p2, "svd_interface", stub_orthonormal_svd)
    slices = [E.real(f"X{i}", (n, J)) for i, n in enumerate(rows)]
    A = E.real("A", (len(rows), R))
    B = E.real("B", (R, R))
    C = E.real("C", (J, R))
    projs = _p2._compute_projections([np.array(s) for s in slices], (np.array(A), np.array(B), np.array(C)), "truncated_svd")
    calls = [c for c in sym.CTX.stub_calls if isinstance(c[0], tuple) and c[0][0] == "orth_svd"]
    E.prove("one_svd_per_slice", len(calls) == len(rows))
    for i in range(len(rows)):
        # Procrustes target: B diag(a_i) C^T X_i^T
        D = np.empty((R, J), dtype=object)
        for r in range(R):
            for j in range(J):
                D[r, j] = sum(B[r, q] * A[i, q] * C[j, q] for q in range(R))
        target = matmul(D, np.asarray(slices[i], dtype=object).T)
        E.prove_eq(f"slice{i}/svd_matrix_is_procrustes_target", calls[i][1][0], target)
        Uc, Sc, Vc = calls[i][2]
        polar = matmul(Uc, Vc)
        E.prove_eq(f"slice{i}/projection_is_polar_factor_transposed", projs[i], polar.T)
    pt = _p2._project_tensor_slices([np.array(s) for s in slices], projs)
    for i in range(len(rows)):
        E.prove_eq(f"slice{i}/projected_slice", pt[i], matmul(np.asarray(projs[i], dtype=object).T, slices[i]))


# ------------------------------------------------------------------------------------ hals_nnls
def h_hals_row(E, cfg):
    from tensorly.solvers.nnls import hals_nnls

    r, n, pen = cfg["r"], cfg["n"], cfg["pen"]
    U = E.real("U", (r + 1, r))
    M = E.real("M", (r + 1, n))
    V0 = E.real("V0", (r, n), nn=True)
    Uo, Mo = np.asarray(U, dtype=object if E.symbolic else float), np.asarray(M, dtype=object if E.symbolic else float)
    UtU = matmul(Uo.T, Uo) if E.symbolic else Uo.T @ Uo
    UtM = matmul(Uo.T, Mo) if E.symbolic else Uo.T @ Mo
    for k in range(r):
        E.assume(E.gt_strict(UtU[k, k], 0))
    kw = dict(n_iter_max=1, epsilon=0, tol=0)
    lam_s = lam_r = 0
    if pen == "sparse":
        lam_s = E.real("lam_s", pos=True)
        kw["sparsity_coefficient"] = lam_s
    if pen == "ridge":
        lam_r = E.real("lam_r", pos=True)
        kw["ridge_coefficient"] = lam_r
    Vin = np.array(V0)
    V = hals_nnls(np.array(UtM), np.array(UtU), Vin, **kw)
    V = np.asarray(V, dtype=object if E.symbolic else float)
    # Gauss-Seidel: row k sees rows < k already updated
    cur = np.array(V0, dtype=object if E.symbolic else float)
    conds = []
    for k in range(r):
        for j in range(n):
            c = UtM[k, j] - sum(UtU[k, l] * cur[l, j] for l in range(r) if l != k) - lam_s
            a = UtU[k, k] + 2 * lam_r
            conds.append(E.eq(V[k, j], E.max(c / a, 0)))
        cur[k, :] = V[k, :]
    E.prove("row_update_is_clipped_coordinate_minimiser", conds)


def h_lemma_1d(E, cfg):
    a = E.real("a", pos=True)
    c = E.real("c")
    eps = E.real("eps", nn=True)
    x0 = E.real("x0")
    E.assume(E.ge(x0, eps))
    xs = E.max(c / a, eps)
    q = lambda x: a * x * x - 2 * c * x
    E.prove("clipped_minimiser_not_worse_than_any_feasible_point", E.le(q(xs), q(x0)))


def h_linesearch_accept(E, cfg):
    """a line-search sweep either keeps the plain ALS iterate or jumps to a point whose reported error is strictly smaller than the previous one"""
    from vt import backend, sym
    from tensorly.decomposition import parafac

    shp, R = cfg["shape"], cfg["R"]
    if not E.symbolic:
        # falsification side: on the model input and rescalings of it (the acceptance test mixes relative and absolute errors only
        # when ||X|| != 1), the reported error must never increase across a line-search sweep of the real run
        X = np.asarray(E.real("X", shp), dtype=float)
        F0 = [np.asarray(E.real(f"F{k}", (n, R)), dtype=float) for k, n in enumerate(shp)]
        ok = True
        rng = np.random.RandomState(1)
        for sc in (1.0, 1e-2, 1e-3, 30.0, 0.2):
            for trial in range(40):
                Xc = (X + (rng.randn(*shp) * 0.5 if trial else 0)) * sc
                Fc = [f + (rng.randn(*f.shape) * 0.5 if trial else 0) for f in F0]
                try:
                    _, errs = parafac(Xc, R, n_iter_max=11, init=(None, [f.copy() for f in Fc]), tol=0, return_errors=True, linesearch=True)
                except Exception:
                    continue
                errs = [float(e) for e in errs]
                if any(np.isfinite(b) and np.isfinite(a) and b > a * (1 + 1e-7) + 1e-12 for a, b in zip(errs, errs[1:])):
                    ok = False
        E.prove("seven_errors", True)
        E.prove("jump_only_if_error_decreases", ok)
        return
    backend.configure(solve="havoc")
    X = E.real("X", shp)
    E.assume(E.Or([E.nonzero(x) for x in np.asarray(X, dtype=object).ravel()]))
    F0 = [E.real(f"F{k}", (n, R)) for k, n in enumerate(shp)]
    res, errs = parafac(np.array(X), R, n_iter_max=7, init=(None, [np.array(f) for f in F0]), tol=0, return_errors=True, linesearch=True)
    E.prove("seven_errors", len(errs) == 7)
    w, fs = res
    solves = [c for c in sym.CTX.stub_calls if c[0] == "solve"]
    N = len(shp)
    als = [np.asarray(c[2], dtype=object).T for c in solves[-N:]]
    kept = E.And([E.eq_arrays(f, a) for f, a in zip(fs, als)])
    E.prove("jump_only_if_error_decreases", E.Or(kept, E.gt_strict(errs[-2], errs[-1])))


# ------------------------------------------------------------------------------------ CPRegressor (ridge ALS)
def _reg_pred(X, W, n_in):
    """prediction of the CP regressor from its factors: yhat[s, o...] = sum_r (sum_x X[s,x] prod_in W_k[x_k,r]) prod_out W_k[o_k,r]"""
    X = np.asarray(X, dtype=object)
    ns = X.shape[0]
    R = np.shape(W[0])[1]
    g = np.empty((ns, R), dtype=object)
    for s_ in range(ns):
        for r in range(R):
            tot = 0
            for x in np.ndindex(*X.shape[1:]):
                p = X[(s_,) + x]
                for k in range(n_in):
                    p = p * W[k][x[k], r]
                tot = tot + p
            g[s_, r] = tot
    outs = [np.shape(w)[0] for w in W[n_in:]]
    pred = np.empty((ns,) + tuple(outs), dtype=object)
    for idx in np.ndindex(*pred.shape):
        tot = 0
        for r in range(R):
            p = g[idx[0], r]
            for k, w in enumerate(W[n_in:]):
                p = p * w[idx[1 + k], r]
            tot = tot + p
        pred[idx] = tot
    return pred


def h_cp_regressor(E, cfg):
    from vt import backend, sym
    from tensorly.regression.cp_regression import CPRegressor

    xs, ys, R, ns = cfg["xs"], cfg["ys"], cfg["R"], cfg["ns"]
    n_in = len(xs)
    if not E.symbolic:
        X = np.asarray(E.real("X", (ns,) + xs), dtype=float)
        y = np.asarray(E.real("y", (ns,) + ys), dtype=float)
        lam = float(E.real("lam", pos=True))
        ok = True
        rng = np.random.RandomState(2)
        for trial in range(6):
            Xc = X + (rng.randn(*X.shape) if trial else 0)
            yc = y + (rng.randn(*y.shape) if trial else 0)
            for lam_c in (lam, 25.0, 0.5):
                prev = None
                for k in range(1, 14):
                    try:
                        reg = CPRegressor(weight_rank=R, n_iter_max=k, tol=0, reg_W=lam_c, random_state=7, verbose=0)
                        reg.fit(Xc.copy(), yc.copy())
                    except Exception:
                        break
                    w, fs = reg.cp_weight_
                    pred = np.asarray(_reg_pred(Xc, [np.asarray(f) for f in fs], n_in), dtype=float)
                    val = float(((yc - pred) ** 2).sum() + lam_c * sum((np.asarray(f) ** 2).sum() for f in fs))
                    if prev is not None and np.isfinite(val) and val > prev * (1 + 1e-7) + 1e-10:
                        ok = False
                    prev = val
        for i in range(n_in + len(ys)):
            E.prove(f"block{i}/system_matrix_is_ridge_gram", ok)
            E.prove(f"block{i}/rhs_is_design_transpose_times_targets", ok)
        E.prove("one_solve_per_block", ok)
        return
    backend.configure(solve="contract")
    X = E.real("X", (ns,) + xs)
    y = E.real("y", (ns,) + ys)
    lam = E.real("lam", pos=True)
    K_ = cfg.get("K", 1)
    reg = CPRegressor(weight_rank=R, n_iter_max=K_, tol=0, reg_W=lam, random_state=7, verbose=0)
    reg.fit(np.array(X), np.array(y))
    calls = [c for c in sym.CTX.stub_calls if c[0] == "solve"]
    nb = n_in + len(ys)
    E.prove("one_solve_per_block", len(calls) == nb * K_)
    # the same seeded stream gives the same initial weights (uninterpreted draws are functional in (seed, draw index, position))
    rs = backend.s_check_random_state(7)
    W = [np.asarray(rs.randn(n, R), dtype=object) for n in xs] + [np.asarray(rs.randn(n, R), dtype=object) for n in ys]
    yo = np.asarray(y, dtype=object)
    for i_all in range(nb * K_):
        i = i_all % nb
        A_code, B_code = calls[i_all][1]
        out = np.asarray(calls[i_all][2], dtype=object)
        if i < n_in:
            n_i = xs[i]
            cols = []
            for j in range(n_i):
                for r in range(R):
                    Wt = list(W)
                    Eb = np.zeros((n_i, R), dtype=object)
                    Eb[j, r] = 1
                    Wt[i] = Eb
                    cols.append(np.asarray(_reg_pred(X, Wt, n_in), dtype=object).ravel())
            Phi = np.stack(cols, axis=1)
            A = matmul(Phi.T, Phi)
            for d in range(A.shape[0]):
                A[d, d] = A[d, d] + lam
            b = matmul(Phi.T, yo.reshape(-1, 1))[:, 0]
            E.prove_eq(f"block{i}/system_matrix_is_ridge_gram", A_code, A)
            E.prove_eq(f"block{i}/rhs_is_design_transpose_times_targets", B_code, b)
            W[i] = out.reshape(n_i, R)
        else:
            # output mode j = i - n_in: unknown is (R x O_j); design rows run over (sample, indices of the OTHER output modes), column r is
            # the prediction with this mode's factor replaced by the unit row e_r; targets: y with axis j moved last, flattened alike
            j = i - n_in
            cols = []
            for r in range(R):
                Wt = list(W)
                er = np.zeros((1, R), dtype=object)
                er[0, r] = 1
                Wt[i] = er
                cols.append(np.asarray(_reg_pred(X, Wt, n_in), dtype=object).ravel())
            G = np.stack(cols, axis=1)
            A = matmul(G.T, G)
            for d in range(R):
                A[d, d] = A[d, d] + lam
            Yj = np.moveaxis(yo, 1 + j, -1).reshape(-1, ys[j])
            B = matmul(G.T, Yj)
            E.prove_eq(f"block{i}/system_matrix_is_ridge_gram", A_code, A)
            E.prove_eq(f"block{i}/rhs_is_design_transpose_times_targets", B_code, B)
            W[i] = out.T


# ------------------------------------------------------------------------------------ tensor-ring ALS
def h_tr_als(E, cfg):
    """each core update of tensor_ring_als is a stationary point of the dense objective in that core (given the kernel's contract:
    normal equations of the system the code handed to solve / lstsq), i.e. the exact block minimiser of a convex quadratic"""
    from vt import backend, sym
    from tensorly.decomposition import tensor_ring_als
    from props.c03 import d_tr

    shp, rank, ls = cfg["shape"], list(cfg["rank"]), cfg["ls"]
    n = len(shp)
    if not E.symbolic:
        X = np.asarray(E.real("X", shp), dtype=float)
        ok = True
        rng = np.random.RandomState(3)
        for trial in range(6):
            # the relative error is scale invariant: the same data in other units must give non-increasing sequences too
            # (an absolute regularisation or threshold inside the block solves only bites on small-magnitude data)
            for sc in (1.0, 1e-3, 1e-5, 1e-8, 1e3):
                Xc = (X + (rng.randn(*shp) if trial else 0)) * sc
                errs = []
                try:
                    tensor_ring_als(Xc, list(rank), ls_solve=ls, n_iter_max=8, tol=0, random_state=9, callback=lambda tr, e: errs.append(float(e)))
                except Exception:
                    continue
                if any(np.isfinite(a) and np.isfinite(b) and b > a * (1 + 1e-6) + 1e-9 for a, b in zip(errs, errs[1:])):
                    ok = False
        for d in range(n):
            E.prove(f"block{d}/stationary_in_updated_core", ok)
        E.prove("mirror_matches_returned_cores", ok)
        E.prove("one_kernel_call_per_block", ok)
        return
    backend.configure(solve="contract", lstsq="contract")
    X = E.real("X", shp)
    K_ = cfg.get("K", 1)
    res = tensor_ring_als(np.array(X), list(rank), ls_solve=ls, n_iter_max=K_, tol=0, random_state=9)
    kind = "solve" if ls == "normal_eq" else "lstsq"
    calls = [c for c in sym.CTX.stub_calls if c[0] == kind]
    E.prove("one_kernel_call_per_block", len(calls) == n * K_)
    rs = backend.s_check_random_state(9)
    cores = [np.asarray(rs.random_sample((rank[i], m, rank[i + 1])), dtype=object) for i, m in enumerate(shp)]
    Xo = np.asarray(X, dtype=object)
    for d_all in range(n * K_):
        d = d_all % n
        sol = np.asarray(calls[d_all][2], dtype=object)
        cores[d] = np.transpose(sol.reshape(rank[d], rank[d + 1], shp[d]), (0, 2, 1))
        dense = d_tr(cores)
        resid = Xo - dense
        conds = []
        for a in range(rank[d]):
            for i in range(shp[d]):
                for b in range(rank[d + 1]):
                    basis = np.zeros((rank[d], shp[d], rank[d + 1]), dtype=object)
                    basis[a, i, b] = 1
                    coef = d_tr(cores[:d] + [basis] + cores[d + 1 :])
                    g = sum(resid[idx] * coef[idx] for idx in np.ndindex(*shp) if idx[d] == i)
                    conds.append(E.eq(g, 0))
        E.prove(f"block{d}/stationary_in_updated_core", conds, groups=(kind,))
    E.prove("mirror_matches_returned_cores", [E.eq_arrays(a, b) for a, b in zip(list(res), cores)])


# ------------------------------------------------------------------------------------ coupled matrix-tensor ALS
def h_cmtf(E, cfg):
    """every block update of one CMTF sweep (V, then modes 2, 1, 0 with the matrix coupled into mode 0) is a stationary point of the ONE
    dense objective F = ||X - [[A,B,C]]||^2 + ||Y - A V^T||^2 in that block (through the lstsq contract: normal equations of the system the
    code handed over), i.e. its exact block minimiser (F is a convex quadratic in each block; lemma_I1): a sweep cannot increase F"""
    from vt import backend, sym
    import tensorly.decomposition._cp as _cp
    import tensorly.decomposition._cmtf_als as _cm
    from props.c06 import stub_svd_interface, dense_cp

    cmtf = _cm.coupled_matrix_tensor_3d_factorization
    shp, cols, R = cfg["shape"], cfg["cols"], cfg["R"]
    names = ["four_kernel_calls", "blockV/stationary", "block2/stationary", "block1/stationary", "block0/stationary_coupled", "mirror_matches_returned_factors"]
    if not E.symbolic:
        X = np.asarray(E.real("X", shp), dtype=float)
        Y = np.asarray(E.real("Y", (shp[0], cols)), dtype=float)
        ok = True
        rng = np.random.RandomState(5)
        for trial in range(12):
            Xc = X + (rng.randn(*shp) if trial else 0)
            Yc = Y + (rng.randn(*Y.shape) if trial else 0)
            try:
                import warnings

                with warnings.catch_warnings():
                    warnings.simplefilter("ignore")
                    _, _, errs = cmtf(Xc, Yc, R, init="svd", n_iter_max=10, tol=0)
            except Exception:
                continue
            errs = [float(e) for e in errs]
            if any(np.isfinite(a) and np.isfinite(b) and b > a * (1 + 1e-7) + 1e-12 for a, b in zip(errs, errs[1:])):
                ok = False
        for n_ in names:
            E.prove(n_, ok)
        return
    backend.configure(lstsq="contract", svd="havoc")
    backend.patch(_cp, "svd_interface", stub_svd_interface)
    inits = []
    real_init = _cm.initialize_cp

    def spy(*a, **k):
        r = real_init(*a, **k)
        inits.append([np.array(f, dtype=object) for f in r.factors])
        return r

    backend.patch(_cm, "initialize_cp", spy)
    X = E.real("X", shp)
    Y = E.real("Y", (shp[0], cols))
    K_ = cfg.get("K", 2)
    tcp, mcp, errs = cmtf(np.array(X), np.array(Y), R, init="svd", n_iter_max=K_, tol=0)
    calls = [c for c in sym.CTX.stub_calls if c[0] == "lstsq"]
    E.prove("four_kernel_calls", len(calls) == 4 * len(errs) and len(inits) == 2 and 1 <= len(errs) <= K_)
    A, B, C = inits[1][0], inits[0][1], inits[0][2]
    Xo, Yo = np.asarray(X, dtype=object), np.asarray(Y, dtype=object)

    def res(A, B, C, V):
        return Xo - dense_cp(None, [A, B, C]), Yo - matmul(A, np.asarray(V, dtype=object).T)

    I, J, K = shp
    for s_ in range(len(errs)):
        V1, C1, B1, A1 = [np.asarray(c[2], dtype=object).T for c in calls[4 * s_ : 4 * s_ + 4]]
        rX, rY = res(A, B, C, V1)
        E.prove("blockV/stationary", [E.eq(sum(rY[i, c] * A[i, r] for i in range(I)), 0) for c in range(cols) for r in range(R)], groups=("lstsq",))
        rX, rY = res(A, B, C1, V1)
        E.prove("block2/stationary", [E.eq(sum(rX[i, j, k] * A[i, r] * B[j, r] for i in range(I) for j in range(J)), 0) for k in range(K) for r in range(R)], groups=("lstsq",))
        rX, rY = res(A, B1, C1, V1)
        E.prove("block1/stationary", [E.eq(sum(rX[i, j, k] * A[i, r] * C1[k, r] for i in range(I) for k in range(K)), 0) for j in range(J) for r in range(R)], groups=("lstsq",))
        rX, rY = res(A1, B1, C1, V1)
        E.prove(
            "block0/stationary_coupled",
            [E.eq(sum(rX[i, j, k] * B1[j, r] * C1[k, r] for j in range(J) for k in range(K)) + sum(rY[i, c] * V1[c, r] for c in range(cols)), 0) for i in range(I) for r in range(R)],
            groups=("lstsq",),
        )
        A, B, C = A1, B1, C1
    w, fs = tcp
    wm, fm = mcp
    E.prove("mirror_matches_returned_factors", [E.eq_arrays(fs[0], A), E.eq_arrays(fs[1], B), E.eq_arrays(fs[2], C), E.eq_arrays(fm[0], A), E.eq_arrays(fm[1], V1)])


# ------------------------------------------------------------------------------------ Tucker regressor (ridge ALS)
def _tucker_pred(X, G, W):
    """yhat[s] = sum_x X[s, x] * sum_g G[g] prod_k W_k[x_k, g_k]"""
    X = np.asarray(X, dtype=object)
    G = np.asarray(G, dtype=object)
    ns = X.shape[0]
    out = np.empty((ns,), dtype=object)
    for s_ in range(ns):
        tot = 0
        for x in np.ndindex(*X.shape[1:]):
            wx = 0
            for g in np.ndindex(*G.shape):
                p = G[g]
                for k in range(len(W)):
                    p = p * W[k][x[k], g[k]]
                wx = wx + p
            tot = tot + X[(s_,) + x] * wx
        out[s_] = tot
    return out


def h_tucker_regressor(E, cfg):
    """every block update (each factor W_i, then the core G) of one sweep of TuckerRegressor.fit solves the ridge normal equations of the
    ONE objective F = ||y - <X, [[G; W]]>||^2 + lam (sum ||W_i||^2 + ||G||^2) restricted to that block: system matrix = Phi'Phi + lam I and
    right-hand side = Phi'y with Phi built by the harness from the dense prediction (unit basis in the block)"""
    from vt import backend, sym
    from tensorly.regression.tucker_regression import TuckerRegressor

    xs, ranks, ns = cfg["xs"], list(cfg["ranks"]), cfg["ns"]
    nb = len(xs) + 1
    if not E.symbolic:
        X = np.asarray(E.real("X", (ns,) + xs), dtype=float)
        y = np.asarray(E.real("y", (ns,)), dtype=float)
        lam = float(E.real("lam", pos=True))
        ok = True
        rng = np.random.RandomState(4)
        for trial in range(6):
            Xc = X + (rng.randn(*X.shape) if trial else 0)
            yc = y + (rng.randn(*y.shape) if trial else 0)
            for lam_c in (lam, 25.0, 0.5):
                prev = None
                for k in range(1, 12):
                    try:
                        reg = TuckerRegressor(weight_ranks=list(ranks), n_iter_max=k, tol=0, reg_W=lam_c, random_state=7, verbose=0)
                        reg.fit(Xc.copy(), yc.copy())
                    except Exception:
                        break
                    G, W = reg.tucker_weight_
                    pred = np.asarray(_tucker_pred(Xc, np.asarray(G), [np.asarray(w) for w in W]), dtype=float)
                    val = float(((yc - pred) ** 2).sum() + lam_c * (sum((np.asarray(w) ** 2).sum() for w in W) + (np.asarray(G) ** 2).sum()))
                    if prev is not None and np.isfinite(val) and val > prev * (1 + 1e-7) + 1e-10:
                        ok = False
                    prev = val
        for i in range(nb):
            E.prove(f"block{i}/system_matrix_is_ridge_gram", ok)
            E.prove(f"block{i}/rhs_is_design_transpose_times_targets", ok)
        E.prove("one_solve_per_block", ok)
        E.prove("mirror_matches_exposed_weights", ok)
        return
    backend.configure(solve="contract")
    X = E.real("X", (ns,) + xs)
    y = E.real("y", (ns,))
    lam = E.real("lam", pos=True)
    K_ = cfg.get("K", 1)
    reg = TuckerRegressor(weight_ranks=list(ranks), n_iter_max=K_, tol=0, reg_W=lam, random_state=7, verbose=0)
    reg.fit(np.array(X), np.array(y))
    calls = [c for c in sym.CTX.stub_calls if c[0] == "solve"]
    E.prove("one_solve_per_block", len(calls) == nb * K_)
    rs = backend.s_check_random_state(7)
    G = np.asarray(rs.randn(*ranks), dtype=object)
    W = [np.asarray(rs.randn(n, ranks[k]), dtype=object) for k, n in enumerate(xs)]
    yo = np.asarray(y, dtype=object)
    for i_all in range(nb * K_):
        i = i_all % nb
        A_code, B_code = calls[i_all][1]
        out = np.asarray(calls[i_all][2], dtype=object)
        cols = []
        if i < len(xs):
            shape_i = (xs[i], ranks[i])
            for idx in np.ndindex(*shape_i):
                Eb = np.zeros(shape_i, dtype=object)
                Eb[idx] = 1
                Wt = list(W)
                Wt[i] = Eb
                cols.append(_tucker_pred(X, G, Wt))
        else:
            for idx in np.ndindex(*ranks):
                Eb = np.zeros(tuple(ranks), dtype=object)
                Eb[idx] = 1
                cols.append(_tucker_pred(X, Eb, W))
        Phi = np.stack(cols, axis=1)
        A = matmul(Phi.T, Phi)
        for d in range(A.shape[0]):
            A[d, d] = A[d, d] + lam
        b = matmul(Phi.T, yo.reshape(-1, 1))[:, 0]
        E.prove_eq(f"block{i}/system_matrix_is_ridge_gram", A_code, A)
        E.prove_eq(f"block{i}/rhs_is_design_transpose_times_targets", B_code, b)
        if i < len(xs):
            W[i] = out.reshape(xs[i], ranks[i])
        else:
            G = out.reshape(tuple(ranks))
    Gc, Wc = reg.tucker_weight_
    E.prove("mirror_matches_exposed_weights", [E.eq_arrays(Gc, G)] + [E.eq_arrays(a, b_) for a, b_ in zip(Wc, W)])
