"""C06 -- reported reconstruction errors are finite and equal the true error of the iterate they belong to.

Kernels (solve / svd / qr / inner NNLS) are havoc'd or Givens-generated, so every sweep starts from an arbitrary
iterate: the error identity is proved for arbitrary iterates, which makes each sweep an inductive step."""
import itertools

import numpy as np

import tensorly as tl

PID = "C06"
ENGINE = "E1"
EXPLANATION = (
    "The real decomposition loops are executed symbolically with havoc'd numerical kernels (fresh outputs), so the iterate after every sweep is "
    "arbitrary; each reported error value err_k is compared with the from-scratch relative error of the iterate obtained by the prefix run "
    "n_iter_max=k (obligations err_k >= 0 and err_k^2 * ||X||^2 == sum (X - dense(iterate_k))^2, polynomial identities after root-atom folding, "
    "with sum-of-squares >= 0 lemmas), and every sqrt argument is checked for rounding-robustness (can the last reduction cancel to 0 while its "
    "addends do not: fl model |delta| <= 2^-50)."
)
ENCODED = [
    "tensorly.decomposition._cp.parafac",
    "tensorly.decomposition._cp.error_calc",
    "tensorly.decomposition._cp.initialize_cp",
    "tensorly.decomposition._cp.sparsify_tensor",
    "tensorly.decomposition._tucker.partial_tucker",
    "tensorly.decomposition._tucker.tucker",
    "tensorly.decomposition._parafac2.parafac2",
    "tensorly.decomposition._parafac2._parafac2_reconstruction_error",
    "tensorly.decomposition._parafac2._compute_projections",
    "tensorly.cp_tensor.cp_norm",
    "tensorly.cp_tensor.cp_normalize",
    "tensorly.cp_tensor.cp_to_tensor",
]
BOUNDS = {
    "quick": "orders 2-4, mode sizes 2 (one 3), rank 1-2, K <= 3 sweeps (8 for the line-search branch), option sets listed in configs()",
    "thorough": "same plus rank 3 on 3x3x3 and 4 sweeps",
}
OUTSIDE = ["more sweeps than K (covered inductively only because kernels are havoc'd)", "sizes > 3", "IEEE rounding except the explicit sqrt-argument obligation"]
TRUSTED = ["z3", "havoc/Givens kernel stubs", "sum-of-squares >= 0 lemmas (valid by construction)"]
ASSUMPTIONS = ["data tensor is not identically zero (division by its norm)", "real arithmetic except the rounding-robustness obligation on sqrt arguments"]


def dense_cp(w, factors):
    shape = tuple(np.shape(f)[0] for f in factors)
    R = np.shape(factors[0])[1]
    out = np.empty(shape, dtype=object)
    for idx in np.ndindex(*shape):
        tot = 0
        for r in range(R):
            p = 1 if w is None else w[r]
            for k, f in enumerate(factors):
                p = p * f[idx[k], r]
            tot = tot + p
        out[idx] = tot
    return out


def dense_tucker(core, factors, modes=None):
    core = np.asarray(core, dtype=object)
    out = core
    modes = list(range(len(factors))) if modes is None else list(modes)
    for f, m in zip(factors, modes):
        shp = out.shape
        new = shp[:m] + (np.shape(f)[0],) + shp[m + 1 :]
        nxt = np.empty(new, dtype=object)
        for idx in np.ndindex(*new):
            nxt[idx] = sum(f[idx[m], l] * out[idx[:m] + (l,) + idx[m + 1 :]] for l in range(shp[m]))
        out = nxt
    return out


def sq(arr):
    return sum(x * x for x in np.asarray(arr, dtype=object).ravel())


def configs(tier):
    q = tier == "quick"
    out = []

    def add(fam, **kw):
        key = fam + "".join(f"/{k}={v}" for k, v in kw.items())
        d = dict(key=key, fam=fam, **kw)
        d.setdefault("mode", "merge")
        d["timeout_s"] = 170 if q else 1200
        out.append(d)

    shapes = [(2, 2), (2, 2, 2), (2, 3, 2), (2, 2, 2, 2)] if q else [(2, 2), (3, 2), (2, 2, 2), (2, 3, 2), (3, 3, 3), (2, 2, 2, 2)]
    for shp in shapes:
        for R in (1, 2) if (q or shp != (3, 3, 3)) else (1, 2, 3):
            for opt in ("plain", "normalize", "l2", "user_init_weights", "svd_init", "random_init", "fixed0", "orthogonalise"):
                if opt == "orthogonalise" and min(shp) < R:
                    continue
                add("parafac", shape=shp, R=R, opt=opt, K=3 if opt in ("normalize",) else 2)
    for shp in [(2, 2), (2, 2, 2)]:
        add("parafac", shape=shp, R=1, opt="mask", K=2)
        add("parafac", shape=shp, R=2, opt="mask_normalize", K=2)
        add("parafac", shape=shp, R=1, opt="sparsity", K=1, mode="fork")
    add("parafac", shape=(2, 2, 2), R=1, opt="linesearch", K=8, mode="fork")
    add("parafac", shape=(2, 2), R=2, opt="linesearch_normalize", K=8, mode="fork")
    add("parafac", shape=(2, 2, 2), R=2, opt="symbolic_tol", K=3, mode="fork")
    add("parafac", shape=(2, 2), R=2, opt="symbolic_tol_normalize", K=3, mode="fork")
    return out


def harness(E, cfg):
    fam = cfg["fam"]
    if fam == "parafac":
        h_parafac(E, cfg)
    else:
        raise KeyError(fam)


def stub_cp_normalize(cp_tensor):
    """contract of cp_normalize (established on the real code by C04): an equivalent representation whose columns are
    rescaled by positive factors d[k][r] with the scale moved into the weights.  d is arbitrary (> 0), which covers the
    real column norms whenever they are non-zero; zero-norm columns are outside this stub (C04 covers them)."""
    from vt import backend, sym

    w, fs = cp_tensor
    R = np.shape(fs[0])[1]
    w = np.ones(R, dtype=object) if w is None else np.asarray(w, dtype=object)
    new_f = []
    scale = [1] * R
    for k, f in enumerate(fs):
        d = backend.fresh_array(f"nrm{k}_", (R,), nn=True)
        for r in range(R):
            sym.CTX.add_fact("pre", d[r].t > 0)
            scale[r] = scale[r] * d[r]
        g = np.empty(np.shape(f), dtype=object)
        for i in range(np.shape(f)[0]):
            for r in range(R):
                g[i, r] = f[i, r] / d[r]
                sym.CTX.dens.pop()
        new_f.append(g.view(sym.SArr))
    new_w = np.array([w[r] * scale[r] for r in range(R)], dtype=object).view(sym.SArr)
    from tensorly.cp_tensor import CPTensor

    return CPTensor((new_w, new_f))


def stub_svd_interface(matrix, n_eigenvecs=None, **kw):
    """havoc: fresh U, S, V of the documented shapes (the error identity must hold for arbitrary initial factors)"""
    from vt import backend

    m, n = np.shape(matrix)
    k = min(m, n) if n_eigenvecs is None else min(n_eigenvecs, max(m, n))
    return backend.fresh_array("iU", (m, k)), backend.sorted_nonneg("iS", k), backend.fresh_array("iV", (k, n))


class _Collector:
    """callback that snapshots (iterate, error) pairs"""

    def __init__(self):
        self.items = []

    def __call__(self, cp, err):
        if isinstance(cp, tuple) and not hasattr(cp, "weights") and len(cp) == 2 and hasattr(cp[0], "factors"):
            cpt, sparse = cp
        else:
            cpt, sparse = cp, None
        w, fs = cpt
        self.items.append((None if w is None else np.array(w, dtype=object if w.dtype == object else float), [np.array(f) for f in fs], sparse, err))


def _err_obligations(E, name, err, X, M, mask=None, extra=0, norm_ref=None):
    """err == sqrt(sum (mask*(X - M - extra))^2) / sqrt(sum ref^2)  (root atoms are interned modulo polynomial identity,
    so when the implementation's shortcut is algebraically the same quantity both sides become the same term)"""
    X = np.asarray(X, dtype=object)
    M = np.asarray(M, dtype=object)
    res = X - M - extra
    if mask is not None:
        res = res * mask
    ref = X if norm_ref is None else norm_ref
    spec = E.sqrt(sq(res)) / E.sqrt(sq(ref))
    E.prove(f"{name}/value", E.eq(err, spec))


def h_parafac(E, cfg):
    from tensorly.decomposition import parafac
    from vt import backend, sym

    shp, R, opt, K = cfg["shape"], cfg["R"], cfg["opt"], cfg["K"]
    if E.symbolic:
        backend.configure(solve="havoc", svd="havoc", qr="havoc")
        import tensorly.decomposition._cp as _cp

        backend.patch(_cp, "cp_normalize", stub_cp_normalize)
        backend.patch(_cp, "svd_interface", stub_svd_interface)
    X = E.real("X", shp)
    E.assume(E.Or([E.Not(E.eq(x, 0)) for x in np.asarray(X, dtype=object).ravel()]))
    kw = dict(tol=0, return_errors=True)
    mask = None
    if opt in ("plain", "normalize", "l2", "fixed0", "orthogonalise", "mask", "mask_normalize", "sparsity", "linesearch", "linesearch_normalize", "symbolic_tol", "symbolic_tol_normalize"):
        F0 = [E.real(f"F{k}", (n, R)) for k, n in enumerate(shp)]
        kw["init"] = (None, [np.array(f) for f in F0])
    if opt == "user_init_weights":
        F0 = [E.real(f"F{k}", (n, R)) for k, n in enumerate(shp)]
        w0 = E.real("w0", (R,), pos=True)
        kw["init"] = (w0, [np.array(f) for f in F0])
    if opt == "svd_init":
        kw["init"] = "svd"
    if opt == "random_init":
        kw["init"] = "random"
        kw["random_state"] = 3
    if "normalize" in opt:
        kw["normalize_factors"] = True
    if opt == "l2":
        kw["l2_reg"] = E.real("lam", pos=True)
    if opt == "fixed0":
        kw["fixed_modes"] = [0]
    if opt == "orthogonalise":
        kw["orthogonalise"] = True
    if opt.startswith("mask"):
        mask = np.ones(shp, dtype=object if E.symbolic else float)
        mask[(0,) * len(shp)] = 0
        mask[(1,) * len(shp)] = 0
        kw["mask"] = mask
        kw["init"] = kw["init"]
    if opt == "sparsity":
        kw["sparsity"] = 1
    if opt.startswith("linesearch"):
        kw["linesearch"] = True
    if opt.startswith("symbolic_tol"):
        kw["tol"] = E.real("tol", pos=True)
    lastK = None
    for k in range(1, K + 1):
        if opt.startswith("linesearch") and k not in (1, 6, 7, 8):
            continue
        col = _Collector()
        kw2 = dict(kw)
        if "fixed_modes" in kw2:
            kw2["fixed_modes"] = list(kw2["fixed_modes"])
        if isinstance(kw2.get("init"), tuple):
            w_i, f_i = kw2["init"]
            kw2["init"] = (None if w_i is None else np.array(w_i), [np.array(f) for f in f_i])
        res, errs = parafac(np.array(X), R, n_iter_max=k, callback=col, **kw2)
        sparse = 0
        if opt == "sparsity":
            res, sparse = res
        w, fs = res
        E.prove(f"K{k}/n_errors", len(errs) <= k and (len(errs) == k or opt.startswith("symbolic_tol") or opt.startswith("linesearch")))
        if not errs:
            continue
        M = dense_cp(w, fs)
        if mask is None:
            _err_obligations(E, f"K{k}/last_error_is_error_of_result", errs[-1], X, M, extra=sparse)
        else:
            imputed = np.asarray(X, dtype=object) * mask + M * (1 - mask)
            _err_obligations(E, f"K{k}/last_error_is_error_of_result", errs[-1], X, M, mask=mask, norm_ref=imputed)
        # callback pairs: item 0 is the initial iterate, item j the iterate after sweep j
        if mask is None and opt != "sparsity":
            for j, (cw, cf, csp, cerr) in enumerate(col.items):
                _err_obligations(E, f"K{k}/callback{j}", cerr, X, dense_cp(cw, cf))
            if len(col.items) >= 2:
                E.prove(f"K{k}/callback_matches_list", [E.eq(col.items[j + 1][3], errs[j]) for j in range(min(len(errs), len(col.items) - 1))])
        if lastK is not None and len(errs) > len(lastK) >= 1 and not opt.startswith("linesearch"):
            E.prove(f"K{k}/prefix_consistent", [E.eq(a, b) for a, b in zip(lastK, errs)])
        lastK = list(errs)
    _finite(E, "sqrt_arguments_rounding_robust")


def _finite(E, name):
    """every sqrt argument reached on this path: t >= 2^-50 * M(t) where M(t) sums |top-level addends| (fl model of the last reduction)"""
    from vt import sym

    if not E.symbolic:
        return
    import z3

    bad = []
    for raw, guarded, degree in sym.CTX.rootargs_raw:
        if guarded:
            continue
        adds = _addends(raw)
        M = sum((z3.If(a >= 0, a, -a) for a in adds), z3.RealVal(0))
        u = z3.RealVal(1) / z3.RealVal(2**50)
        bad.append(sym.SB(raw >= u * M))
    E.prove(name, bad if bad else True)


def _addends(t):
    import z3

    if z3.is_app(t):
        k = t.decl().kind()
        if k == z3.Z3_OP_ADD:
            out = []
            for c in t.children():
                out += _addends(c)
            return out
        if k == z3.Z3_OP_SUB:
            ch = t.children()
            out = _addends(ch[0])
            for c in ch[1:]:
                out += [-a for a in _addends(c)]
            return out
        if k == z3.Z3_OP_UMINUS:
            return [-a for a in _addends(t.children()[0])]
    return [t]
