"""C06 -- reported reconstruction errors are finite and equal the true error of the iterate they belong to.

Kernels (solve / svd / qr / inner NNLS) are havoc'd or Givens-generated, so every sweep starts from an arbitrary
iterate: the error identity is proved for arbitrary iterates, which makes each sweep an inductive step."""
import itertools

import numpy as np

import tensorly as tl

PID = "C06"
ENGINE = "E1"
EXPLANATION = (
    "The real decomposition loops are executed symbolically with havoc'd numerical kernels (fresh outputs), so the iterate after every sweep is "
    "arbitrary; each reported error value err_k is compared with the from-scratch relative error of the iterate obtained by the prefix run "
    "n_iter_max=k (obligations err_k >= 0 and err_k^2 * ||X||^2 == sum (X - dense(iterate_k))^2, polynomial identities after root-atom folding, "
    "with sum-of-squares >= 0 lemmas), and every sqrt argument is checked for rounding-robustness (can the last reduction cancel to 0 while its "
    "addends do not: fl model |delta| <= 2^-50)."
)
ENCODED = [
    "tensorly.decomposition._nn_cp.non_negative_parafac",
    "tensorly.decomposition._nn_cp.non_negative_parafac_hals",
    "tensorly.decomposition._constrained_cp.constrained_parafac",
    "tensorly.decomposition._tucker.non_negative_tucker",
    "tensorly.decomposition._tucker.non_negative_tucker_hals",
    "tensorly.decomposition._parafac2._BroThesisLineSearch.line_step",
    "tensorly.decomposition._tr_als.tensor_ring_als",
    "tensorly.decomposition._cp.randomised_parafac",
    "tensorly.decomposition._cmtf_als.coupled_matrix_tensor_3d_factorization",
    "tensorly.decomposition._cp.parafac",
    "tensorly.decomposition._cp.error_calc",
    "tensorly.decomposition._cp.initialize_cp",
    "tensorly.decomposition._cp.sparsify_tensor",
    "tensorly.decomposition._tucker.partial_tucker",
    "tensorly.decomposition._tucker.tucker",
    "tensorly.decomposition._parafac2.parafac2",
    "tensorly.decomposition._parafac2._parafac2_reconstruction_error",
    "tensorly.decomposition._parafac2._compute_projections",
    "tensorly.decomposition._parafac2._project_tensor_slices",
    "tensorly.cp_tensor.cp_norm",
    "tensorly.cp_tensor.cp_normalize",
    "tensorly.cp_tensor.cp_to_tensor",
]
BOUNDS = {
    "quick": "orders 2-4, mode sizes 2 (one 3), rank 1-2, K <= 3 sweeps (8 for the line-search branch), option sets listed in configs(); randomised_parafac on 2x2 with 1-2 sampled rows (every index draw forked)",
    "thorough": "same plus rank 3 on 3x3x3 and 4 sweeps",
}
OUTSIDE = ["HOOI at full multilinear rank (2,2,2) and randomised_parafac on 2x2x2 (two sweeps exceed the path/time budget): not decided, not claimed", "PARAFAC2 line search, the path on which the extrapolated jump is accepted (1 of 8 paths of the K=7 configuration): the value identity after the re-computed Givens projections stays `unknown` (reported as INCONCLUSIVE, not as proved)", "order-4 HOOI (shape (2,2,2,2), rank 1) and PARAFAC2 with slice heights (3,2) at rank 2 with normalisation: the value identity was left undecided by z3 within 100 s per query (measured), so these sizes are outside the claim", "CMTF: the docstring writes the reported quantity with factors 1/2, the code reports it without; the check uses the code's form (documentation mismatch, not a value defect)", "masked Tucker/HOOI (which quantity is 'the' error of a masked iterate -- observed entries or the tensor imputed from the previous iterate -- is not fixed by the property; observed while building: partial_tucker keeps the norm of the un-imputed tensor)", "more sweeps than K (covered inductively only because kernels are havoc'd)", "sizes > 3", "IEEE rounding except the explicit sqrt-argument obligation"]
TRUSTED = ["z3", "havoc/Givens kernel stubs", "sum-of-squares >= 0 lemmas (valid by construction)"]
ASSUMPTIONS = ["data tensor is not identically zero (division by its norm)", "real arithmetic except the rounding-robustness obligation on sqrt arguments"]


def dense_cp(w, factors):
    shape = tuple(np.shape(f)[0] for f in factors)
    R = np.shape(factors[0])[1]
    out = np.empty(shape, dtype=object)
    for idx in np.ndindex(*shape):
        tot = 0
        for r in range(R):
            p = 1 if w is None else w[r]
            for k, f in enumerate(factors):
                p = p * f[idx[k], r]
            tot = tot + p
        out[idx] = tot
    return out


def dense_tucker(core, factors, modes=None):
    core = np.asarray(core, dtype=object)
    out = core
    modes = list(range(len(factors))) if modes is None else list(modes)
    for f, m in zip(factors, modes):
        shp = out.shape
        new = shp[:m] + (np.shape(f)[0],) + shp[m + 1 :]
        nxt = np.empty(new, dtype=object)
        for idx in np.ndindex(*new):
            nxt[idx] = sum(f[idx[m], l] * out[idx[:m] + (l,) + idx[m + 1 :]] for l in range(shp[m]))
        out = nxt
    return out


def sq(arr):
    return sum(x * x for x in np.asarray(arr, dtype=object).ravel())


def configs(tier):
    q = tier == "quick"
    out = []

    def add(fam, **kw):
        key = fam + "".join(f"/{k}={v}" for k, v in kw.items())
        d = dict(key=key, fam=fam, **kw)
        d.setdefault("mode", "merge")
        d["timeout_s"] = 170 if q else 1200
        out.append(d)

    shapes = [(2, 2), (2, 2, 2), (2, 3, 2), (2, 2, 2, 2)] if q else [(2, 2), (3, 2), (2, 2, 2), (2, 3, 2), (3, 3, 3), (2, 2, 2, 2)]
    for shp in shapes:
        for R in (1, 2) if (q or shp != (3, 3, 3)) else (1, 2, 3):
            for opt in ("plain", "normalize", "l2", "user_init_weights", "svd_init", "random_init", "fixed0", "orthogonalise"):
                if opt == "orthogonalise" and min(shp) < R:
                    continue
                add("parafac", shape=shp, R=R, opt=opt, K=3 if opt in ("normalize",) else 2)
    for shp in [(2, 2), (2, 2, 2)]:
        add("parafac", shape=shp, R=1, opt="mask", K=2)
        add("parafac", shape=shp, R=2, opt="mask_normalize", K=2)
        if shp == (2, 2):
            add("parafac", shape=shp, R=1, opt="sparsity", K=1)
    for shp, rank in [((2, 2), (1, 1)), ((2, 2), (2, 1)), ((2, 2, 2), (1, 1, 1)), ((2, 2, 2), (2, 1, 1)), ((2, 2, 2), (2, 2, 1)), ((3, 2, 2), (1, 2, 1))]:  # (full multilinear rank (2,2,2): value identity `unknown` at refinement level 1, measured twice -- outside the claim)
        add("tucker", shape=shp, rank=rank, opt="plain", K=2, mode="fork")
    add("tucker", shape=(2, 2, 2), rank=(2, 1), opt="partial", modes=(0, 2), K=2, mode="fork")
    add("tucker", shape=(2, 2, 2), rank=(1, 2, 1), opt="random_init", K=2, mode="fork")
    for rows, J, R in [((2, 2), 2, 1), ((2, 3), 2, 1), ((2, 2), 2, 2)] + ([] if q else [((2, 2, 2), 2, 1)]):
        for opt in ("plain", "normalize", "svd_init"):
            add("parafac2", rows=rows, J=J, R=R, opt=opt, K=2, mode="fork")
    for alg in ("nn_parafac", "nn_parafac_hals", "constrained", "nn_tucker", "nn_tucker_hals"):
        for shp, R in [((2, 2), 1), ((2, 2, 2), 1), ((2, 2), 2)]:
            opts = ["plain"]
            if alg in ("nn_parafac", "nn_parafac_hals"):
                opts.append("normalize")
            if alg in ("nn_parafac_hals", "nn_tucker_hals"):
                opts.append("sparsity")
            if alg == "nn_tucker_hals":
                opts.append("active_set")
            for opt in opts:
                if alg == "nn_tucker" and R == 2:
                    continue  # nested clip terms of the multiplicative core update at rank 2 exceed the budget
                add("other", alg=alg, shape=shp, R=R, opt=opt, K=2, mode="merge")
    for shp, rank in [((2, 2, 2), [1, 2, 1, 1]), ((2, 2, 2), [2, 1, 2, 2]), ((2, 3, 2), [1, 1, 2, 1])] + ([] if q else [((2, 2, 2, 2), [1, 2, 1, 2, 1])]):
        for ls in ("lstsq", "normal_eq"):
            add("tr_als", shape=shp, rank=rank, ls=ls, K=2)
    # a design matrix that is column-rank deficient by construction (bond of size 1 next to ranks larger than the mode size): LAPACK's
    # lstsq then returns an EMPTY residual array, which only the float replay can show (the stub's residual output is arbitrary)
    add("tr_als", shape=(2, 4, 3), rank=[3, 1, 2, 3], ls="lstsq", K=1)
    for shp, R, ns_, K_ in [((2, 2), 1, 1, 2), ((2, 2), 2, 2, 1)] + ([] if q else [((2, 2), 2, 2, 2)]):
        add("randomised", shape=shp, R=R, ns=ns_, K=K_, mode="fork", max_paths=4000)
    for R in (1, 2):
        add("cmtf", shape=(2, 2, 2), cols=2, R=R, K=2 if q else 3, mode="fork")
        if R == 1 or not q:
            add("cmtf", shape=(2, 2, 2), cols=2, R=R, K=2, norm=1, mode="fork")  # normalize_factors=True: both outputs renormalised after the loop
    add("parafac2", rows=(2, 2), J=2, R=1, opt="linesearch", K=7, mode="fork")
    add("parafac", shape=(2, 2, 2), R=1, opt="linesearch", K=8, mode="fork")
    add("parafac", shape=(2, 2), R=2, opt="linesearch_normalize", K=8, mode="fork")
    add("parafac", shape=(2, 2, 2), R=2, opt="symbolic_tol", K=3, mode="fork")
    add("parafac", shape=(2, 2), R=2, opt="symbolic_tol_normalize", K=3, mode="fork")
    return out


def harness(E, cfg):
    fam = cfg["fam"]
    if fam != "cmtf" and not E.symbolic:
        # the compared quantities are relative errors (dimensionless): the replay tolerance must not shrink with the data
        # scale, or the sqrt(eps) cancellation of the norm shortcut on an exact fit of tiny data is reported as a mismatch
        E._floor_cache = 1.0
    if fam == "parafac":
        h_parafac(E, cfg)
    elif fam == "tucker":
        h_tucker(E, cfg)
    elif fam == "parafac2":
        h_parafac2(E, cfg)
    elif fam == "other":
        h_other(E, cfg)
    elif fam == "tr_als":
        h_tr_als(E, cfg)
    elif fam == "cmtf":
        h_cmtf(E, cfg)
    elif fam == "randomised":
        h_randomised(E, cfg)
    else:
        raise KeyError(fam)


def _fresh_stub(kind, nn=True, shape_from=0):
    """functional contract stub for an inner solver: fresh (non-negative) output of the shape of argument `shape_from`"""
    from vt import backend

    def stub(*a, **k):
        ref = a[shape_from] if shape_from < len(a) else k.get("x")
        args = tuple(x for x in a if isinstance(x, np.ndarray))
        hit = backend._lookup(kind, args)
        if hit is None:
            hit = backend._record(kind, args, backend.fresh_array(kind, np.shape(ref), nn=nn))
        return hit.copy()

    return stub


def h_other(E, cfg):
    """algorithms whose error is (or should be) the explicit residual norm, plus the shortcut-based non-negative / constrained CP variants"""
    from vt import backend
    import tensorly.decomposition._nn_cp as _nn
    import tensorly.decomposition._tucker as _tk
    import tensorly.decomposition._constrained_cp as _cc
    import tensorly.decomposition._cp as _cp
    from tensorly.decomposition import non_negative_parafac, non_negative_parafac_hals, non_negative_tucker, non_negative_tucker_hals, constrained_parafac

    alg, shp, R, opt, K = cfg["alg"], cfg["shape"], cfg["R"], cfg["opt"], cfg["K"]
    if E.symbolic:
        backend.configure(solve="havoc", svd="havoc")
        for mod in (_cp, _nn, _cc):
            if hasattr(mod, "cp_normalize"):
                backend.patch(mod, "cp_normalize", stub_cp_normalize)
        backend.patch(_nn, "hals_nnls", _fresh_stub("hals"))
        backend.patch(_tk, "hals_nnls", _fresh_stub("hals"))
        backend.patch(_tk, "fista", lambda UtM, UtU, x=None, **k: _fresh_stub("fista", shape_from=0)(UtM, *([x] if x is not None else [])))
        backend.patch(_tk, "active_set_nnls", lambda Utm, UtU, x=None, **k: _fresh_stub("aset", shape_from=0)(Utm, UtU))

        def admm_stub(UtM, UtU, x, dual_var, **k):
            out = _fresh_stub("admm_x", nn=False, shape_from=2)(UtM, UtU, x, dual_var)
            return out, np.transpose(_fresh_stub("admm_split", nn=False, shape_from=2)(UtM, UtU, x, dual_var)), _fresh_stub("admm_dual", nn=False, shape_from=2)(UtM, UtU, x, dual_var)

        backend.patch(_cc, "admm", admm_stub)
        import tensorly.tenalg as _tg

        backend.patch(tl, "truncated_svd", lambda M, **k: stub_svd_interface(M, **k))
    X = E.real("X", shp, pos=True)
    last = None
    for k in range(1, K + 1):
        if alg in ("nn_parafac", "nn_parafac_hals", "constrained"):
            F0 = [E.real(f"F{m}", (n, R), pos=True) for m, n in enumerate(shp)]
            kw = dict(n_iter_max=k, init=(None, [np.array(f) for f in F0]), return_errors=True)
            if alg == "nn_parafac":
                res, errs = non_negative_parafac(np.array(X), R, tol=0 if False else 1e-300, normalize_factors=(opt == "normalize"), **kw)
            elif alg == "nn_parafac_hals":
                kw2 = dict(kw)
                if opt == "sparsity":
                    kw2["sparsity_coefficients"] = [E.real("sp0", pos=True)] + [None] * (len(shp) - 1)
                res, errs = non_negative_parafac_hals(np.array(X), R, tol=1e-300, normalize_factors=(opt == "normalize"), **kw2)
            else:
                res, errs = constrained_parafac(np.array(X), R, tol_outer=1e-300, n_iter_max_inner=1, non_negative=True, **kw)
            w, fs = res
            M = dense_cp(w, fs)
        else:
            rank = [R] * len(shp)
            core0 = E.real("G", tuple(rank), pos=True)
            F0 = [E.real(f"F{m}", (n, R), pos=True) for m, n in enumerate(shp)]
            kw = dict(n_iter_max=k, init=(np.array(core0), [np.array(f) for f in F0]), return_errors=True)
            if alg == "nn_tucker":
                res, errs = non_negative_tucker(np.array(X), rank=rank, tol=1e-300, normalize_factors=False, **kw)
            else:
                kw2 = dict(kw)
                if opt == "sparsity":
                    kw2["sparsity_coefficients"] = [E.real("sp0", pos=True)] + [None] * (len(shp) - 1)
                if opt == "active_set":
                    kw2["algorithm"] = "active_set"
                res, errs = non_negative_tucker_hals(np.array(X), rank=rank, tol=1e-300, **kw2)
            core, fs = res
            M = dense_tucker(core, fs)
        if len(errs) == k:
            _err_obligations(E, f"K{k}/last_error_is_error_of_result", errs[-1], X, M)
        else:
            E.prove(f"K{k}/n_errors", 1 <= len(errs) <= k)
        if last is not None and len(errs) > len(last):
            E.prove(f"K{k}/prefix_consistent", [E.eq(a, b) for a, b in zip(last, errs)])
        if len(errs) == k:
            last = list(errs)
    _finite(E, "sqrt_arguments_rounding_robust")


def stub_orthonormal_svd(matrix, n_eigenvecs=None, **kw):
    """SVD contract used for the error identities: U has orthonormal columns and V orthonormal rows *identically*
    (Givens-generated, see DESIGN 1.3), singular values non-increasing >= 0; no relation to `matrix` is assumed, i.e. the
    identity is proved for ANY orthonormal frames, hence in particular for the true singular vectors.  Functional in `matrix`."""
    from vt import backend

    m, n = np.shape(matrix)
    k = min(m, n) if n_eigenvecs is None else min(n_eigenvecs, max(m, n))
    hit = backend._lookup(("orth_svd", k), (matrix,))
    if hit is None:
        ku = min(k, m)
        kv = min(k, n)
        U = backend.givens_frame(m, ku, "oU")
        V = backend.givens_frame(n, kv, "oV").T
        if ku < k:  # more components requested than rows: pad like full_matrices would (never used by the callers here)
            U = np.concatenate([U, np.zeros((m, k - ku), dtype=object)], axis=1)
        if kv < k:
            V = np.concatenate([V, np.zeros((k - kv, n), dtype=object)], axis=0)
        hit = backend._record(("orth_svd", k), (matrix,), (U, backend.sorted_nonneg("oS", k), V))
    return tuple(np.array(h, dtype=object).view(__import__("vt.sym", fromlist=["SArr"]).SArr) for h in hit)


def h_tucker(E, cfg):
    from tensorly.decomposition import tucker, partial_tucker
    from vt import backend
    import tensorly.decomposition._tucker as _tk

    shp, rank, opt, K = cfg["shape"], cfg["rank"], cfg["opt"], cfg["K"]
    if E.symbolic:
        backend.configure(svd="givens")
        backend.patch(_tk, "svd_interface", stub_orthonormal_svd)
    X = E.real("X", shp)
    E.assume(E.Or([E.nonzero(x) for x in np.asarray(X, dtype=object).ravel()]))
    mask = None
    kw = dict(tol=0)
    if opt == "mask":
        mask = np.ones(shp, dtype=object if E.symbolic else float)
        mask[(0,) * len(shp)] = 0
        kw["mask"] = mask
    last = None
    for k in range(1, K + 1):
        if opt == "partial":
            modes = cfg["modes"]
            (core, factors), errs = partial_tucker(np.array(X), rank=list(rank), modes=list(modes), n_iter_max=k, init="svd", **kw)
            M = dense_tucker(core, factors, modes)
        else:
            res, errs = tucker(np.array(X), rank=list(rank), n_iter_max=k, init="svd" if opt != "random_init" else "random", return_errors=True, random_state=5, **kw)
            core, factors = res
            M = dense_tucker(core, factors)
        E.prove(f"K{k}/n_errors", len(errs) == k)
        if mask is None:
            _err_obligations(E, f"K{k}/last_error_is_error_of_result", errs[-1], X, M)
        else:
            # HOOI on masked data works on the imputed tensor of the last sweep
            _err_obligations(E, f"K{k}/last_error_is_error_of_result", errs[-1], X, M, mask=mask, norm_ref=np.asarray(X, dtype=object) * mask + M * (1 - mask))
        if last is not None:
            E.prove(f"K{k}/prefix_consistent", [E.eq(a, b) for a, b in zip(last, errs)])
        last = list(errs)

    def rerun(Xv):
        return tucker(Xv, rank=list(rank), n_iter_max=2, return_errors=True, tol=0)[1] if opt != "partial" else partial_tucker(Xv, rank=list(rank), modes=list(cfg["modes"]), n_iter_max=2, tol=0)[1]

    _finite(E, "sqrt_arguments_rounding_robust", rerun, X if not E.symbolic else None)


def h_parafac2(E, cfg):
    from tensorly.decomposition import parafac2
    from tensorly.parafac2_tensor import Parafac2Tensor
    from vt import backend
    import tensorly.decomposition._parafac2 as _p2

    rows, J, R, opt, K = cfg["rows"], cfg["J"], cfg["R"], cfg["opt"], cfg["K"]
    seen_projections = []
    if E.symbolic:
        backend.configure(solve="havoc", svd="givens")
        backend.patch(_p2, "svd_interface", stub_orthonormal_svd)
        backend.patch(_p2, "cp_normalize", stub_cp_normalize)
        import tensorly.parafac2_tensor as _p2t

        def validate_stub(t):
            # structural part of _validate_parafac2_tensor; its numerical orthonormality test (max|P^T P - I| > 1e-5) is replaced by the
            # exact obligation P^T P == I proved below for every projection set that reaches the validator
            w, fs, projs = t
            seen_projections.append([np.asarray(p_, dtype=object) for p_ in projs])
            rank_ = np.shape(fs[0])[1]
            return tuple((np.shape(p_)[0], np.shape(fs[2])[0]) for p_ in projs), rank_

        backend.patch(_p2, "_validate_parafac2_tensor", validate_stub)
        backend.patch(_p2t, "_validate_parafac2_tensor", validate_stub)
    slices = [E.real(f"X{i}", (n, J)) for i, n in enumerate(rows)]
    allx = [x for sl in slices for x in np.asarray(sl, dtype=object).ravel()]
    E.assume(E.Or([E.nonzero(x) for x in allx]))
    I = len(rows)
    kw = dict(return_errors=True, n_iter_parafac=1, linesearch=(opt == "linesearch"), tol=cfg.get("tol", 1e-30))
    if opt == "normalize":
        kw["normalize_factors"] = True
    if opt in ("svd_init",):
        kw["init"] = "svd"
    else:
        A = E.real("A", (I, R))
        B = E.real("B", (R, R))
        C = E.real("C", (J, R))
        if E.symbolic:
            P0 = [backend.givens_frame(n, R, f"P0_{i}_") for i, n in enumerate(rows)]
        else:
            P0 = [np.linalg.qr(np.arange(1.0, n * R + 1).reshape(n, R) ** 1.5 + np.eye(n, R))[0] for n in rows]
        kw["init"] = (None, [np.array(A), np.array(B), np.array(C)], P0)
    last = None
    for k in range(1, K + 1):
        if opt == "linesearch" and k < K:
            continue
        if isinstance(kw["init"], tuple):
            init = (None, [np.array(f) for f in kw["init"][1]], [np.array(p_) for p_ in kw["init"][2]])
            kw2 = dict(kw, init=init)
        else:
            kw2 = dict(kw)
        res, errs = parafac2([np.array(sl) for sl in slices], R, n_iter_max=k, **kw2)
        w, (A_, B_, C_), projs = res
        E.prove(f"K{k}/n_errors", 1 <= len(errs) <= k)
        # dense slices of the returned decomposition: X_i ~ P_i B diag(w * A_i) C^T
        tot_res = 0
        tot_ref = 0
        tot_M = 0
        for i, sl in enumerate(slices):
            n = rows[i]
            for a in range(n):
                for j in range(J):
                    m = 0
                    for r in range(R):
                        pb = sum(projs[i][a, q] * B_[q, r] for q in range(R))
                        wr = 1 if w is None else w[r]
                        m = m + wr * A_[i, r] * pb * C_[j, r]
                    d = sl[a, j] - m
                    tot_res = tot_res + d * d
                    tot_ref = tot_ref + sl[a, j] * sl[a, j]
                    tot_M = tot_M + m * m
        E.nonneg(tot_M)
        E.nonneg(tot_res)
        spec = E.sqrt(tot_res) / E.sqrt(tot_ref)
        # holds on every exit (iteration cap or convergence break): the last reported value belongs to the returned decomposition
        E.prove(f"K{k}/last_error_is_error_of_result/value", E.eq(errs[-1], spec))
        if last is not None and len(errs) > len(last):
            E.prove(f"K{k}/prefix_consistent", [E.eq(a, b) for a, b in zip(last, errs)])
        if len(errs) == k:
            last = list(errs)

    if E.symbolic and seen_projections:
        ok = []
        for projs in seen_projections[-2 * len(rows):]:
            for P in projs:
                G = np.dot(P.T, P)
                ok.append(E.eq_arrays(G, np.eye(R, dtype=object)))
        E.prove("projections_reaching_the_validator_are_orthonormal", ok)

    def rerun(Xv):
        sl = [Xv[i] for i in range(Xv.shape[0])]
        return parafac2(sl, R, n_iter_max=3, return_errors=True, init="svd", tol=1e-30, linesearch=False)[1]

    X3 = None
    if not E.symbolic and len(set(rows)) == 1:
        X3 = np.stack([np.asarray(sl, dtype=float) for sl in slices])
    _finite(E, "sqrt_arguments_rounding_robust", rerun, X3)


def stub_cp_normalize(cp_tensor):
    """contract of cp_normalize (established on the real code by C04): an equivalent representation whose columns are
    rescaled by positive factors d[k][r] with the scale moved into the weights.  d is arbitrary (> 0), which covers the
    real column norms whenever they are non-zero; zero-norm columns are outside this stub (C04 covers them)."""
    from vt import backend, sym

    w, fs = cp_tensor
    R = np.shape(fs[0])[1]
    w = np.ones(R, dtype=object) if w is None else np.asarray(w, dtype=object)
    from tensorly.cp_tensor import CPTensor

    hit = backend._lookup("cp_normalize", (w,) + tuple(fs))
    if hit is not None:
        return CPTensor((hit[0].copy(), [f.copy() for f in hit[1]]))
    new_f = []
    scale = [1] * R
    for k, f in enumerate(fs):
        d = backend.fresh_array(f"nrm{k}_", (R,), nn=True)
        for r in range(R):
            sym.CTX.add_fact("pre", d[r].t > 0)
            scale[r] = scale[r] * d[r]
        g = np.empty(np.shape(f), dtype=object)
        for i in range(np.shape(f)[0]):
            for r in range(R):
                g[i, r] = f[i, r] / d[r]
                sym.CTX.dens.pop()
        new_f.append(g.view(sym.SArr))
    new_w = np.array([w[r] * scale[r] for r in range(R)], dtype=object).view(sym.SArr)
    backend._record("cp_normalize", (w,) + tuple(fs), (new_w, new_f))
    return CPTensor((new_w.copy(), [f.copy() for f in new_f]))


def stub_svd_interface(matrix, n_eigenvecs=None, **kw):
    """havoc: fresh U, S, V of the documented shapes (the error identity must hold for arbitrary initial factors)"""
    from vt import backend

    m, n = np.shape(matrix)
    k = min(m, n) if n_eigenvecs is None else min(n_eigenvecs, max(m, n))
    hit = backend._lookup(("svd_interface", k), (matrix,))
    if hit is None:
        hit = backend._record(("svd_interface", k), (matrix,), (backend.fresh_array("iU", (m, k)), backend.sorted_nonneg("iS", k), backend.fresh_array("iV", (k, n))))
    return tuple(h.copy() for h in hit)


class _Collector:
    """callback that snapshots (iterate, error) pairs"""

    def __init__(self):
        self.items = []

    def __call__(self, cp, err):
        if isinstance(cp, tuple) and not hasattr(cp, "weights") and len(cp) == 2 and hasattr(cp[0], "factors"):
            cpt, sparse = cp
        else:
            cpt, sparse = cp, None
        w, fs = cpt
        self.items.append((None if w is None else np.array(w, dtype=object if w.dtype == object else float), [np.array(f) for f in fs], sparse, err))


def _err_obligations(E, name, err, X, M, mask=None, extra=0, norm_ref=None):
    """err == sqrt(sum (mask*(X - M - extra))^2) / sqrt(sum ref^2)  (root atoms are interned modulo polynomial identity,
    so when the implementation's shortcut is algebraically the same quantity both sides become the same term)"""
    X = np.asarray(X, dtype=object)
    M = np.asarray(M, dtype=object)
    res = X - M - extra
    if mask is not None:
        res = res * mask
    ref = X if norm_ref is None else norm_ref
    E.nonneg(sq(M))
    spec = E.sqrt(sq(res)) / E.sqrt(sq(ref))
    E.prove(f"{name}/value", E.eq(err, spec))


def h_parafac(E, cfg):
    from tensorly.decomposition import parafac
    from vt import backend, sym

    shp, R, opt, K = cfg["shape"], cfg["R"], cfg["opt"], cfg["K"]
    if E.symbolic:
        backend.configure(solve="havoc", svd="havoc", qr="havoc")
        import tensorly.decomposition._cp as _cp

        backend.patch(_cp, "cp_normalize", stub_cp_normalize)
        backend.patch(_cp, "svd_interface", stub_svd_interface)
    X = E.real("X", shp)
    E.assume(E.Or([E.nonzero(x) for x in np.asarray(X, dtype=object).ravel()]))
    kw = dict(tol=0, return_errors=True)
    mask = None
    if opt in ("plain", "normalize", "l2", "fixed0", "orthogonalise", "mask", "mask_normalize", "sparsity", "linesearch", "linesearch_normalize", "symbolic_tol", "symbolic_tol_normalize"):
        F0 = [E.real(f"F{k}", (n, R)) for k, n in enumerate(shp)]
        kw["init"] = (None, [np.array(f) for f in F0])
    if opt == "user_init_weights":
        F0 = [E.real(f"F{k}", (n, R)) for k, n in enumerate(shp)]
        w0 = E.real("w0", (R,), pos=True)
        kw["init"] = (w0, [np.array(f) for f in F0])
    if opt == "svd_init":
        kw["init"] = "svd"
    if opt == "random_init":
        kw["init"] = "random"
        kw["random_state"] = 3
    if "normalize" in opt:
        kw["normalize_factors"] = True
    if opt == "l2":
        kw["l2_reg"] = E.real("lam", pos=True)
    if opt == "fixed0":
        kw["fixed_modes"] = [0]
    if opt == "orthogonalise":
        kw["orthogonalise"] = True
    if opt.startswith("mask"):
        mask = np.ones(shp, dtype=object if E.symbolic else float)
        mask[(0,) * len(shp)] = 0
        mask[(1,) * len(shp)] = 0
        kw["mask"] = mask
        kw["init"] = kw["init"]
    if opt == "sparsity":
        kw["sparsity"] = 1
    if opt.startswith("linesearch"):
        kw["linesearch"] = True
    if opt.startswith("symbolic_tol"):
        kw["tol"] = E.real("tol", pos=True)
    lastK = None
    for k in range(1, K + 1):
        if opt.startswith("linesearch") and k not in (7, 8):
            continue
        col = _Collector()
        kw2 = dict(kw)
        if "fixed_modes" in kw2:
            kw2["fixed_modes"] = list(kw2["fixed_modes"])
        if isinstance(kw2.get("init"), tuple):
            w_i, f_i = kw2["init"]
            kw2["init"] = (None if w_i is None else np.array(w_i), [np.array(f) for f in f_i])
        res, errs = parafac(np.array(X), R, n_iter_max=k, callback=None if opt == "sparsity" else col, **kw2)
        sparse = 0
        if opt == "sparsity":
            res, sparse = res
        w, fs = res
        E.prove(f"K{k}/n_errors", len(errs) <= k and (len(errs) == k or opt.startswith("symbolic_tol") or opt.startswith("linesearch")))
        if not errs:
            continue
        M = dense_cp(w, fs)
        if mask is None:
            _err_obligations(E, f"K{k}/last_error_is_error_of_result", errs[-1], X, M, extra=sparse)
        else:
            imputed = np.asarray(X, dtype=object) * mask + M * (1 - mask)
            _err_obligations(E, f"K{k}/last_error_is_error_of_result", errs[-1], X, M, mask=mask, norm_ref=imputed)
        # callback pairs: item 0 is the initial iterate, item j the iterate after sweep j
        if mask is None and opt != "sparsity":
            for j, (cw, cf, csp, cerr) in enumerate(col.items):
                _err_obligations(E, f"K{k}/callback{j}", cerr, X, dense_cp(cw, cf))
            if len(col.items) >= 2:
                E.prove(f"K{k}/callback_matches_list", [E.eq(col.items[j + 1][3], errs[j]) for j in range(min(len(errs), len(col.items) - 1))])
        if lastK is not None and len(errs) > len(lastK) >= 1 and not opt.startswith("linesearch"):
            E.prove(f"K{k}/prefix_consistent", [E.eq(a, b) for a, b in zip(lastK, errs)])
        lastK = list(errs)
    def rerun(Xv):
        kw3 = {k_: v_ for k_, v_ in kw.items() if k_ not in ("init", "mask")}
        kw3["init"] = "random"
        kw3["random_state"] = 0
        return parafac(Xv, R, n_iter_max=3, **kw3)[1]

    _finite(E, "sqrt_arguments_rounding_robust", rerun, X if not E.symbolic else None)


def rank1_variants(X):
    """concrete replay family for the rounding obligation: exactly rank-1 tensors built from the fibres of the model input,
    at several scales (a real ALS/HOOI sweep fits them exactly, which is where an unguarded sqrt argument rounds below 0)"""
    X = np.asarray(X, dtype=float)
    vecs = []
    for k in range(X.ndim):
        idx = [0] * X.ndim
        idx[k] = slice(None)
        v = X[tuple(idx)].copy()
        if not np.any(v):
            v = np.ones_like(v)
        vecs.append(v)
    out = []
    for s_ in (1.0, 1e-3, 1e3, 0.7, 3.3, 1e-6, 17.0, 0.1):
        for flip in (1.0, -1.0):
            t = np.array(flip * s_)
            for v in vecs:
                t = np.multiply.outer(t, v * 1.37 if flip < 0 else v)
            out.append(t)
    return out


def _finite(E, name, rerun=None, X=None):
    """symbolic: every sqrt argument t reached on this path satisfies t >= 2^-50 * M(t), M(t) = sum |top-level addends| (fl model of
    the last reduction; a syntactic sum of squares / |.|-guarded argument passes by construction).
    concrete (replay): the real run on exactly-low-rank variants of the model input must report finite values only."""
    from vt import sym

    if not E.symbolic:
        ok = True
        if rerun is not None and X is not None:
            for Xv in rank1_variants(X):
                try:
                    vals = rerun(Xv)
                except Exception:
                    continue
                if not all(np.isfinite(float(v)) for v in vals):
                    ok = False
                    break
        E.prove(name, ok)
        return
    import z3

    conds = []
    hints = []
    u = z3.RealVal(1) / z3.RealVal(2**50)
    for raw, guarded, degree in sym.CTX.rootargs_raw:
        if guarded:
            continue
        adds = _addends(raw)
        M = sum((z3.If(a >= 0, a, -a) for a in adds), z3.RealVal(0))
        conds.append(sym.SB(raw >= u * M))
        hints.append(z3.And(raw == 0, M >= 1))
    E.prove(name, conds if conds else True, hints=hints)


def _addends(t):
    import z3

    if z3.is_app(t):
        k = t.decl().kind()
        if k == z3.Z3_OP_ADD:
            out = []
            for c in t.children():
                out += _addends(c)
            return out
        if k == z3.Z3_OP_SUB:
            ch = t.children()
            out = _addends(ch[0])
            for c in ch[1:]:
                out += [-a for a in _addends(c)]
            return out
        if k == z3.Z3_OP_UMINUS:
            return [-a for a in _addends(t.children()[0])]
    return [t]


def h_tr_als(E, cfg):
    """tensor_ring_als reports the error from the last least-squares residual: it must be the relative error of the iterate handed to the callback"""
    from vt import backend
    from tensorly.decomposition import tensor_ring_als
    from props.c03 import d_tr

    shp, rank, ls, K = cfg["shape"], cfg["rank"], cfg["ls"], cfg["K"]
    if E.symbolic:
        backend.configure(solve="havoc", lstsq="havoc")
    X = E.real("X", shp)
    E.assume(E.Or([E.nonzero(x) for x in np.asarray(X, dtype=object).ravel()]))
    items = []

    def cb(tr, err):
        items.append(([np.array(c) for c in tr], err))

    res = tensor_ring_als(np.array(X), list(rank), ls_solve=ls, n_iter_max=K, tol=0, random_state=9, callback=cb)
    E.prove("callbacks", len(items) == K + 1)
    for j, (cores, err) in enumerate(items):
        M = d_tr([np.asarray(c, dtype=object if E.symbolic else float) for c in cores])
        _err_obligations(E, f"callback{j}", err, X, M)
    if items:
        E.prove("returned_decomposition_is_last_iterate", [E.eq_arrays(a, b) for a, b in zip(list(res), items[-1][0])])
    _finite(E, "sqrt_arguments_rounding_robust")


def h_cmtf(E, cfg):
    """coupled matrix-tensor factorisation: every reported value is ||X - [[A,B,C]]||^2 + ||Y - A V^T||^2 of an iterate (the code's squared,
    un-normalised form; the docstring writes the same quantity with factors 1/2 -- that discrepancy is documentation, see OUTSIDE), and the
    last reported value belongs to the returned decomposition on BOTH exits (iteration cap and convergence; the tolerance is symbolic)."""
    from vt import backend
    import tensorly.decomposition._cp as _cp
    from tensorly.decomposition._cmtf_als import coupled_matrix_tensor_3d_factorization as cmtf

    shp, cols, R, K = cfg["shape"], cfg["cols"], cfg["R"], cfg["K"]
    if E.symbolic:
        backend.configure(lstsq="havoc", svd="havoc")
        backend.patch(_cp, "svd_interface", stub_svd_interface)
        import tensorly.decomposition._cmtf_als as _cm

        backend.patch(_cm, "cp_normalize", stub_cp_normalize)  # C04 contract: positive rescaling, scales into the weights
    X = E.real("X", shp)
    Y = E.real("Y", (shp[0], cols))
    tol = E.real("tol", pos=True)
    tcp, mcp, errs = cmtf(np.array(X), np.array(Y), R, init="svd", n_iter_max=K, tol=tol, normalize_factors=bool(cfg.get("norm", 0)))
    w, fs = tcp
    wm, fm = mcp
    E.prove("n_errors", 1 <= len(errs) <= K)
    Xo, Yo = np.asarray(X, dtype=object), np.asarray(Y, dtype=object)
    M = dense_cp(w, fs)
    N = dense_cp(wm, fm)
    val = sq(Xo - M) + sq(Yo - N)
    E.prove("last_reported_value_is_error_of_returned_decomposition", E.eq(errs[-1], val))
    if not cfg.get("norm"):
        E.prove("coupled_factor_shared", E.eq_arrays(fs[0], fm[0]))


def h_randomised(E, cfg):
    """randomised_parafac (sampled MTTKRP rows; the integer draws fork over their range): every value in the returned list and every value
    handed to the callback is the relative error of the iterate it comes with, the list and the callback values agree, and the last value
    belongs to the returned decomposition"""
    from vt import backend
    from tensorly.decomposition import randomised_parafac

    shp, R, ns_, K = cfg["shape"], cfg["R"], cfg["ns"], cfg["K"]
    if E.symbolic:
        backend.configure(solve="havoc", svd="havoc")
    X = E.real("X", shp)
    E.assume(E.Or([E.nonzero(x) for x in np.asarray(X, dtype=object).ravel()]))
    F0 = [E.real(f"F{k}", (n, R)) for k, n in enumerate(shp)]
    seen = []

    def cb(cp, err=None):
        w, fs = cp
        seen.append((None if w is None else np.array(w, dtype=object if E.symbolic else float), [np.array(f, dtype=object if E.symbolic else float) for f in fs], err))

    import warnings

    with warnings.catch_warnings():
        warnings.simplefilter("ignore")
        res, errs = randomised_parafac(np.array(X), R, ns_, n_iter_max=K, init=(None, [np.array(f) for f in F0]), tol=1e-300, max_stagnation=50, return_errors=True, random_state=5, callback=cb)
    E.prove("n_errors", len(errs) == K and len(seen) == K + 1)
    w, fs = res
    _err_obligations(E, "last_error_is_error_of_result", errs[-1], X, dense_cp(w, fs))
    for j in range(1, len(seen)):
        wj, fj, ej = seen[j]
        _err_obligations(E, f"callback{j}/error_belongs_to_the_iterate_passed", ej, X, dense_cp(wj, fj))
        E.prove(f"callback{j}/matches_list", E.eq(ej, errs[j - 1]))
