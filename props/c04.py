"""C04 -- canonicalising / algebraic transforms of factorised tensors preserve the represented dense tensor and
establish the advertised canonical form; factorised mode products represent the dense mode product.

The dense tensor before and after is always this module's own index-sum oracle over the *input variables*
(never tl.cp_to_tensor & co).  Families (key = <tenalg backend>/<family>/...):
  cpnorm, tknorm, p2norm   cp_normalize / CPTensor.normalize, tucker_normalize / TuckerTensor.normalize, parafac2_normalise
                           (fork mode on `scales == 0`): dense unchanged; every returned column has unit norm or is the
                           zero column with zero weight / zero core slice
  flip                     cp_flip_sign: dense unchanged, weights >= 0, mean of every column of every non-target mode >= 0
                           (`/any`: all inputs; `/nzmean`: columns of non-target modes have non-zero mean)
  permute                  cp_permute_factors with scipy's linear_sum_assignment stubbed (forks over all R! permutations, optimality of
                           the returned one is an assumption): consistent column permutation, dense unchanged, aligned with the reference
  cpmd, tkmd               cp_mode_dot / CPTensor.mode_dot / tucker_mode_dot / TuckerTensor.mode_dot for matrix and vector operands,
                           keep_dim / copy options
  padtt                    pad_tt_rank on TT (pad_boundaries=False) and TR (pad_boundaries=True) cores
  fromcp                   Parafac2Tensor.from_CPTensor with B := Q R generated from the QR stub's outputs
  svdc                     svd_compress_tensor_slices + svd_decompress_parafac2_tensor with slice := U diag(s) Vt generated from the SVD stub's outputs
                           (.../Psym, /P<n>: symbolic orthonormal U, free Vt; model projections symbolic when they have one row, else from a
                           catalogue of rational frames; .../Ucat<n>: U and Vt from the catalogue, s symbolic -- these are the configurations in
                           which counterexamples of a wrong implementation are found and replayed faithfully)
Obligation names are stable per family: dense_unchanged[/...], unit_or_zero/<mode>/c<r>, weights_nonneg/c<r>, summary_nonneg/m<k>/c<r>,
dense_is_mode_product, factor_shapes, shape_attr, enlarged_ranks/core<k>, call/no_exception, t<j>/aligned_with_reference, ...
"""
import itertools

import numpy as np

import tensorly as tl
from tensorly import tenalg
from tensorly import cp_tensor as CP
from tensorly import tucker_tensor as TK
from tensorly import tt_tensor as TT
from tensorly import parafac2_tensor as P2
from tensorly import preprocessing as PRE

from .c03 import obj, d_cp, d_tucker, d_tt, d_tr, d_p2

PID = "C04"
ENGINE = "E1"
EXPLANATION = (
    "Bounded symbolic execution of the real normalisation / sign-flip / permutation / mode-product / padding / conversion / compression "
    "routines on NumPy object arrays of z3 reals (every factor, weight, core, operand entry is a solver variable, so zero columns, zero-mean "
    "columns, negative weights are inside the quantifier). Dense tensors before and after are index sums over the inputs written in the "
    "property module; equality is an SMT validity query per configuration (normalisation code is explored in fork mode: one linear-ish query "
    "per zero/non-zero pattern of the column norms, root atoms interned so that w * prod(norms) * prod(x / norm) cancels). Canonical-form "
    "obligations: unit-norm-or-zero columns, non-negative weights and column means after cp_flip_sign, enlarged ranks after padding, "
    "consistent reference-aligned column permutation (scipy.optimize.linear_sum_assignment replaced by a stub that forks over all R! "
    "permutations and assumes optimality of the returned one). QR / SVD kernels are stubbed with input-from-output generation "
    "(B := Q R, slice := U diag(s) Vt with orthonormality of Q / U as preconditions), so the factorisation holds identically."
)
ENCODED = [
    "tensorly.cp_tensor.cp_normalize",
    "tensorly.cp_tensor.cp_flip_sign",
    "tensorly.cp_tensor.cp_mode_dot",
    "tensorly.cp_tensor.cp_permute_factors",
    "tensorly.cp_tensor.CPTensor",
    "tensorly.tucker_tensor.tucker_normalize",
    "tensorly.tucker_tensor.tucker_mode_dot",
    "tensorly.tucker_tensor.TuckerTensor",
    "tensorly.parafac2_tensor.parafac2_normalise",
    "tensorly.parafac2_tensor.Parafac2Tensor",
    "tensorly.parafac2_tensor._validate_parafac2_tensor",
    "tensorly.tt_tensor.pad_tt_rank",
    "tensorly.preprocessing.svd_compress_tensor_slices",
    "tensorly.preprocessing.svd_decompress_parafac2_tensor",
    "tensorly.metrics.factors.congruence_coefficient",
    "tensorly.tenalg.svd.svd_interface",
    "tensorly.tenalg.svd.truncated_svd",
    "tensorly.tenalg.svd.svd_flip",
]
BOUNDS = {
    "quick": "orders 2-3, mode sizes in {1,2} (plus a 3 in one shape per family), R <= 2 (Tucker ranks <= 2), every mode (cp_flip_sign on 2x2x2 R=2: target mode 1 only), "
    "matrix operands with 1-2 rows and vector operands, keep_dim/copy in {False,True}, tuple / wrapper / method entry points; permutation R <= 2 plus one 1x2 R=3 case; "
    "padding 1-2; from_CPTensor second mode >= R; compression: slices 2x1, 3x1, 1x2, 2x2 (2x2 with a symbolic threshold in (0,1]), max_rank None or n_cols+1, "
    "all singular values kept; projections of the model fitted to 2-row score matrices from a catalogue of 3 rational frames",
    "thorough": "orders 2-4, mode sizes in {1,2,3}, R <= 3 (normalisation and sign flip: order*R <= 8; sign flip on all inputs: order*R <= 6, else non-zero-mean columns); "
    "permutation R <= 3; compression slices up to 3x2 (3x2: left/right singular vectors from the catalogue of rational frames, singular values symbolic)",
}
OUTSIDE = [
    "sizes > 3, orders > 4, ranks > 3",
    "compression that discards singular values (C09)",
    "from_CPTensor with second-mode size < rank (no orthonormal J x R projection exists)",
    "contracting an order-2 Tucker tensor with a vector (order-1 result: TuckerTensor requires at least two factors by design)",
    "cp_permute_factors on tensors with a zero column or a zero reference weight (congruence_coefficient raises by design)",
    "IEEE rounding; ties broken differently by SciPy are covered (every optimal permutation is explored)",
]
TRUSTED = [
    "z3",
    "NumPy object-dtype structural ops",
    "reals instead of IEEE floats",
    "root-atom abstraction of sqrt",
    "scipy.optimize.linear_sum_assignment returns an optimal assignment (stub contract)",
    "LAPACK QR / SVD return a factorisation with orthonormal Q / U (stub contract; inputs are generated from the outputs)",
]
ASSUMPTIONS = [
    "entries range over the reals; violations are replayed in float64 on the real NumPy backend with real LAPACK / SciPy",
    "divisions performed by the code are defined (after the code's own zero guards)",
]


# ----------------------------------------------------------------------------- configurations
def _shapes(orders, sizes):
    out = []
    for o in orders:
        out += list(itertools.product(sizes, repeat=o))
    return out


def configs(tier):
    q = tier == "quick"
    out = []

    def add(key, **kw):
        kw["key"] = key
        kw.setdefault("be", key.split("/")[0])
        kw.setdefault("timeout_s", 170 if q else 1500)
        kw.setdefault("max_paths", 3000 if q else 20000)
        out.append(kw)

    base = [(2, 2), (1, 2), (2, 1, 2), (2, 2, 2)] + ([(3, 2)] if q else [(3, 2), (3, 3), (2, 3, 2), (3, 3, 3), (2, 2, 2, 2), (2, 1, 3, 2)])
    Rs = (1, 2) if q else (1, 2, 3)
    # ---- cp_normalize
    for shp in base:
        for R in Rs:
            if len(shp) * R > (6 if q else 8):
                continue
            for w in (0, 1):
                for how in ("tuple", "wrapper", "method"):
                    if how != "tuple" and (shp not in [(2, 2), (2, 2, 2)] or R != max(r for r in Rs if len(shp) * r <= (6 if q else 8))):
                        continue
                    add(f"core/cpnorm/{shp}/R{R}/w{w}/{how}", fam="cpnorm", shape=shp, R=R, w=w, how=how, mode="fork")
    # ---- tucker_normalize
    tk = [((2, 2), (2, 2)), ((2, 2), (1, 2)), ((1, 2), (2, 1)), ((2, 1, 2), (2, 1, 2)), ((2, 2, 2), (1, 2, 2)), ((3, 2), (2, 2))]
    if not q:
        tk += [((2, 2, 2), (2, 2, 2)), ((3, 3), (3, 2)), ((3, 2, 3), (2, 2, 2)), ((2, 2, 2, 2), (1, 2, 1, 2))]
    for shp, rk in tk:
        for how in ("tuple", "wrapper", "method"):
            if how != "tuple" and shp != (2, 2):
                continue
            add(f"core/tknorm/{shp}/r{rk}/{how}", fam="tknorm", shape=shp, ranks=rk, how=how, mode="fork")
    # ---- parafac2_normalise
    p2 = [((2,), 1, 2), ((2, 3), 1, 1), ((2, 2), 2, 1), ((2,), 2, 2)] + ([] if q else [((2, 3), 1, 2), ((2, 2, 2), 2, 2), ((3, 3), 1, 2)])  # 3-row projections with R = 2 (3x2 frames under P^T P = I) make every query slow
    for Js, R, K in p2:
        for w in (0, 1):
            for how in ("tuple", "wrapper"):
                if how == "wrapper" and (Js, R, K) != p2[0]:
                    continue
                add(f"core/p2norm/J{Js}/R{R}/K{K}/w{w}/{how}", fam="p2norm", Js=Js, R=R, K=K, w=w, how=how, mode="fork")
    # ---- cp_flip_sign
    for shp in base:
        for R in Rs:
            if len(shp) * R > (6 if q else 8):
                continue
            for m in range(len(shp)):
                if len(shp) * R >= (6 if q else 8) and m != 1:
                    continue  # 3^(R*order) sign patterns per configuration: one target mode only for the largest case of each tier
                for pre in ("any", "nzmean"):
                    if pre == "any" and (len(shp) * R > 6 or max(shp) * R > 6):
                        continue  # all-input runs on the small cases only (3^(R*order) paths; float-exact zero-mean witnesses exist there)
                    add(f"core/flip/{shp}/R{R}/m{m}/w1/tuple/{pre}", fam="flip", shape=shp, R=R, tmode=m, w=1, how="tuple", pre=pre, mode="fork")
    for pre in ("any", "nzmean"):
        add(f"core/flip/(2, 2)/R2/m0/w1/wrapper/{pre}", fam="flip", shape=(2, 2), R=2, tmode=0, w=1, how="wrapper", pre=pre, mode="fork")
        add(f"core/flip/(2, 2)/R2/m1/w0/wrapper/{pre}", fam="flip", shape=(2, 2), R=2, tmode=1, w=0, how="wrapper", pre=pre, mode="fork")
        add(f"core/flip/(2, 2)/R1/m1/w0/tuple/{pre}", fam="flip", shape=(2, 2), R=1, tmode=1, w=0, how="tuple", pre=pre, mode="fork")
        add(f"core/flip/(2, 2)/R2/m0/w1/tuple_sum/{pre}", fam="flip", shape=(2, 2), R=2, tmode=0, w=1, how="tuple", func="sum", pre=pre, mode="fork")
    # ---- cp_permute_factors
    # R = 3 is needed to tell a permutation from its inverse (one small shape already in the quick tier)
    pm = [((2, 2), 1), ((2, 2), 2), ((2, 1, 2), 2), ((1, 2), 2), ((1, 2), 3)] + ([] if q else [((2, 2, 2), 2), ((3, 2), 2), ((2, 2), 3), ((3, 3), 3)])
    for shp, R in pm:
        for how in ("single", "list"):
            if how == "list" and (shp != (2, 2) or R == 3):
                continue
            # the R = 3 run is dominated by Python-side root-atom interning (about 1 min alone, more on a loaded machine)
            add(f"core/permute/{shp}/R{R}/{how}", fam="permute", shape=shp, R=R, how=how, mode="fork", cost=100 * R * len(shp), timeout_s=(420 if q else 3000) if R == 3 else (170 if q else 1500))
    # ---- mode products
    md_shapes = [(2, 2), (1, 2), (2, 1, 2), (2, 2, 2), (3, 2)] if q else [(2, 2), (1, 2), (3, 2), (2, 1, 2), (2, 2, 2), (2, 3, 2), (3, 3, 3), (2, 2, 2, 2), (2, 1, 3, 2)]
    for shp in md_shapes:
        for R in Rs if q else (1, 2, 3):
            if R == 3 and shp not in [(2, 2), (2, 3, 2), (3, 3, 3)]:
                continue
            for m in range(len(shp)):
                ops = [("mat1", 0), ("mat2", 0), ("vec", 0), ("vec", 1)] + ([] if q else [("mat3", 0)])
                for op, kd in ops:
                    if q and op == "mat1" and not (shp in [(2, 2), (2, 1, 2)] and R == 2):
                        continue
                    for cp_ in (0, 1):
                        for how, w in (("wrapper", 1), ("wrapper", 0), ("tuple", 1), ("tuple", 0), ("method", 1)):
                            small = shp in [(2, 2), (2, 1, 2)] and R == 2
                            if how == "tuple" and not small:
                                continue
                            if (how, w) == ("wrapper", 0) and not small:
                                continue
                            if how == "method" and not (small and m == 0):
                                continue
                            add(f"core/cpmd/{shp}/R{R}/w{w}/m{m}/{op}/kd{kd}/copy{cp_}/{how}", fam="cpmd", shape=shp, R=R, w=w, tmode=m, op=op, kd=kd, copy=cp_, how=how)
    tkmd = [((2, 2), (2, 2)), ((1, 2), (2, 1)), ((2, 1, 2), (2, 1, 2)), ((2, 2, 2), (1, 2, 2)), ((3, 2), (2, 2))]
    if not q:
        tkmd += [((2, 2, 2), (2, 2, 2)), ((3, 3, 3), (2, 3, 2)), ((2, 2, 2, 2), (1, 2, 1, 2))]
    for be in ("core", "einsum"):
        for shp, rk in tkmd:
            for m in range(len(shp)):
                for op, kd in [("mat1", 0), ("mat2", 0), ("vec", 0), ("vec", 1)]:
                    if be == "einsum" and op != "vec":
                        continue  # only the contraction goes through tenalg.mode_dot
                    if op == "vec" and kd == 0 and len(shp) == 2:
                        continue  # order-1 result: TuckerTensor requires >= 2 factors by design (outside the claim)
                    for cp_ in (0, 1):
                        for how in ("tuple", "wrapper", "method"):
                            if how != "tuple" and not (shp in [(2, 2), (2, 1, 2)] and m == 0):
                                continue
                            add(f"{be}/tkmd/{shp}/r{rk}/m{m}/{op}/kd{kd}/copy{cp_}/{how}", fam="tkmd", shape=shp, ranks=rk, tmode=m, op=op, kd=kd, copy=cp_, how=how)
    # ---- pad_tt_rank
    pads = [((2, 2), (1, 1, 1)), ((2, 2), (1, 2, 1)), ((2, 1, 2), (1, 2, 1, 1)), ((2, 2, 2), (1, 2, 2, 1)), ((3, 2), (1, 2, 1))]
    if not q:
        pads += [((3, 3, 3), (1, 3, 2, 1)), ((2, 2, 2, 2), (1, 2, 1, 2, 1)), ((2, 3, 2), (1, 1, 3, 1))]
    for shp, rk in pads:
        for n in (1, 2):
            add(f"core/padtt/tt/{shp}/r{rk}/n{n}/b0", fam="padtt", kind="tt", shape=shp, ranks=rk, n=n, b=0)
    add("core/padtt/tt/(2, 2)/r(1, 2, 1)/default", fam="padtt", kind="tt", shape=(2, 2), ranks=(1, 2, 1), n=None, b=0)
    add("core/padtt/tt_order1/(2,)/r(1, 1)/n1/b0", fam="padtt", kind="tt", shape=(2,), ranks=(1, 1), n=1, b=0)
    rings = [((2, 2), (1, 1, 1)), ((2, 2), (2, 1, 2)), ((2, 2), (2, 2, 2)), ((2, 1, 2), (1, 2, 1, 1)), ((2, 2, 2), (2, 1, 2, 2))]
    if not q:
        rings += [((3, 3, 3), (2, 3, 1, 2)), ((2, 2, 2, 2), (2, 1, 2, 1, 2)), ((3, 2), (3, 2, 3))]
    for shp, rk in rings:
        for n in (1, 2):
            add(f"core/padtt/tr/{shp}/r{rk}/n{n}/b1", fam="padtt", kind="tr", shape=shp, ranks=rk, n=n, b=1)
    # ---- from_CPTensor (I, J, K), R <= J
    fc = [((2, 2, 2), 1), ((2, 2, 2), 2), ((1, 2, 2), 2), ((2, 3, 1), 2), ((2, 1, 2), 1)] + ([] if q else [((2, 3, 2), 3), ((3, 3, 3), 2), ((3, 2, 3), 2)])
    for shp, R in fc:
        for w in (0, 1):
            for how in ("tuple", "wrapper"):
                if how == "wrapper" and shp != (2, 2, 2):
                    continue
                add(f"core/fromcp/{shp}/R{R}/w{w}/{how}", fam="fromcp", shape=shp, R=R, w=w, how=how)
    add("core/fromcp_passthrough/J(2, 2)/R2", fam="fromcp_pass", Js=(2, 2), R=2, K=2)
    # ---- SVD compression / decompression: list of (rows, cols) per slice, rank of the PARAFAC2 model fitted to the scores
    sv = [([(2, 1)], 1, "none"), ([(3, 1), (2, 1)], 1, "none"), ([(2, 2)], 2, "thr"), ([(2, 2), (1, 2)], 1, "none"), ([(2, 1), (1, 1)], 1, "maxrank"), ([(2, 2)], 1, "thr"),
          # first slice short (left uncompressed), a later one tall (compressed): the per-slice decision must not be taken from slice 0
          ([(1, 1), (2, 1)], 1, "none"), ([(1, 1), (3, 1), (1, 1)], 1, "none")]
    if not q:
        sv += [([(3, 2)], 1, "none"), ([(3, 2)], 2, "none"), ([(3, 2), (2, 2)], 2, "thr"), ([(3, 2)], 2, "maxrank")]
    for sl, R, opt in sv:
        tall = any(min(n, c) > 1 and (n > c or opt == "thr") for n, c in sl)
        symbolic_U = all(n <= 2 or min(n, c) == 1 for n, c in sl)  # 3x2 frames under P^T P = I: z3 does not decide svd_flip's branches
        for cat in ((0, 1, 2) if tall else (0,)) if symbolic_U else ():
            add(f"core/svdc/{sl}/R{R}/{opt}/P{cat if tall else 'sym'}", fam="svdc", slices=sl, R=R, opt=opt, cat=cat, mode="fork", branch_timeout_ms=8000)
        for cat in (0, 1):
            add(f"core/svdc/{sl}/R{R}/{opt}/Ucat{cat}", fam="svdc", slices=sl, R=R, opt=opt, cat=cat, U="cat", mode="fork")
    return out


# ----------------------------------------------------------------------------- oracles / helpers
def o_mode_dot(T, M, mode):
    """(T x_mode M)[..., j, ...] = sum_l M[j, l] T[..., l, ...];  vector: mode removed"""
    shp = T.shape
    M = np.asarray(M, dtype=object)
    if M.ndim == 2:
        new = shp[:mode] + (M.shape[0],) + shp[mode + 1 :]
        out = obj(new)
        for idx in np.ndindex(*new):
            out[idx] = sum(M[idx[mode], l] * T[idx[:mode] + (l,) + idx[mode + 1 :]] for l in range(shp[mode]))
        return out
    new = shp[:mode] + shp[mode + 1 :]
    out = obj(new)
    for idx in np.ndindex(*new):
        out[idx] = sum(M[l] * T[idx[:mode] + (l,) + idx[mode:]] for l in range(shp[mode]))
    return out


def cp(x):
    return x.copy()


def ssq(col):
    return sum(x * x for x in col)


def column(M, r):
    M = np.asarray(M, dtype=object)
    return [M[i, r] for i in range(M.shape[0])]


def same_shape(E, name, A, shape):
    ok = tuple(np.shape(A)) == tuple(shape)
    E.prove(name, ok, detail=f"{tuple(np.shape(A))} vs {tuple(shape)}")
    return ok


def frame(E, name, n, k):
    """n x k input matrix with orthonormal columns (precondition P^T P = I)"""
    P = E.real(name, (n, k))
    pre = []
    for a in range(k):
        for b in range(a, k):
            pre.append(E.eq(sum(P[j, a] * P[j, b] for j in range(n)), 1 if a == b else 0))
    E.assume(pre)
    return P


def matmul(A, B):
    A = np.asarray(A, dtype=object)
    B = np.asarray(B, dtype=object)
    out = obj((A.shape[0], B.shape[1]))
    for i in range(A.shape[0]):
        for j in range(B.shape[1]):
            out[i, j] = sum(A[i, k] * B[k, j] for k in range(A.shape[1]))
    return out


def as_input(E, M):
    if E.symbolic:
        from vt.sym import sarr

        return sarr(M)
    return np.array(M, dtype=np.float64)


def unit_or_zero(E, name, F, weight_of, N_of):
    """every column of F has sum of squares 1, or is the zero column and the scale that multiplies it is zero.

    Proof tactic (does not change the meaning): N_of(r) is any non-negative expression of the inputs and v := sqrt(N).  The run is split
    on v == 0 (the same decision the code under test takes on `scales == 0`, so no new feasible path appears).  On the v != 0 side the
    extra disjunct `sum_i (y_i^2 * v^2) == v^2` implies `sum_i y_i^2 == 1`, so the disjunction proved is equivalent to the claim; when N
    is the squared norm of the matching input column the engine's root atoms cancel and the query is a polynomial identity."""
    F = np.asarray(F, dtype=object)
    for r in range(F.shape[1]):
        col = column(F, r)
        zero = E.And([E.eq(x, 0) for x in col] + [E.eq(s, 0) for s in weight_of(r)])
        v = E.sqrt(N_of(r))
        if bool(v == 0):
            E.prove(f"{name}/c{r}", E.Or(E.eq(ssq(col), 1), zero))
        else:
            n2 = v * v
            scaled = sum((x * x) * n2 for x in col)
            E.prove(f"{name}/c{r}", E.Or(E.eq(ssq(col), 1), E.eq(scaled, n2), zero))


def cp_dense_unchanged(E, w2, fs2, w, fs):
    """dense([w2; fs2]) == dense([w; fs]).  The second disjunct (every rank-one component unchanged) implies the first, so the
    disjunction is equivalent to dense equality; it only gives the solver an easier refutation target."""
    D1, D0 = d_cp(w2, fs2), d_cp(w, fs)
    dense = E.eq_arrays(D1, D0)
    R = np.shape(fs[0])[1]
    comp = []
    for r in range(R):
        c1 = d_cp(None if w2 is None else [w2[r]], [np.asarray(f, dtype=object)[:, r : r + 1] for f in fs2])
        c0 = d_cp(None if w is None else [w[r]], [np.asarray(f, dtype=object)[:, r : r + 1] for f in fs])
        comp.append(E.eq_arrays(c1, c0))
    return E.Or(dense, E.And(comp))


def attempt(E, name, fn):
    try:
        return True, fn()
    except Exception as e:  # noqa
        E.prove(name + "/no_exception", False, detail=f"{type(e).__name__}: {str(e)[:200]}")
        return False, None


# ----------------------------------------------------------------------------- harness
def _eager_atom_lemmas():
    """the engine keeps the consequences of v = sqrt(sum p_i^2) (v == 0 <=> all p_i == 0, v >= |p_i|) as on-demand refinement
    lemmas; the code verified here branches on `norm == 0` right after taking the root (`where(scales == 0, 1, scales)`, the zero-norm
    test of congruence_coefficient), so they are asserted as soon as the atom is created (sound: consequences of the definition).
    Same helper as in props/c19.py / props/c20.py."""
    from vt import sym

    c = sym.CTX
    if not hasattr(c, "atom_lemmas") or getattr(c, "_c04_eager", False):
        return
    c._c04_eager = True
    orig = c.root

    def root(*a, **k):
        r = orig(*a, **k)
        done = getattr(c, "_c04_flushed", None)
        if done is None or done[0] is not c.atom_lemmas:
            done = c._c04_flushed = [c.atom_lemmas, 0]  # reset_path installs a new list per path
        for f in c.atom_lemmas[done[1] :]:
            c.add_fact("def", f)
        done[1] = len(c.atom_lemmas)
        return r

    c.root = root


def harness(E, cfg):
    if E.symbolic:
        _eager_atom_lemmas()
    tenalg.set_backend(cfg["be"])
    try:
        globals()["h_" + cfg["fam"]](E, cfg)
    finally:
        tenalg.set_backend("core")


def _cp_inputs(E, shape, R, w, prefix=""):
    fs = [E.real(f"{prefix}A{k}", (n, R)) for k, n in enumerate(shape)]
    wv = E.real(f"{prefix}w", (R,)) if w else None
    return wv, fs


def h_cpnorm(E, cfg):
    shape, R, how = cfg["shape"], cfg["R"], cfg["how"]
    w, fs = _cp_inputs(E, shape, R, cfg["w"])
    D0 = d_cp(w, fs)
    arg = (None if w is None else cp(w), [cp(f) for f in fs])
    if how == "tuple":
        ok, res = attempt(E, "call", lambda: tl.cp_normalize(arg))
    elif how == "wrapper":
        ok, res = attempt(E, "call", lambda: tl.cp_normalize(CP.CPTensor(arg)))
    else:

        def run():
            c = CP.CPTensor(arg)
            c.normalize()
            return c

        ok, res = attempt(E, "call", run)
    if not ok:
        return
    w2, fs2 = res[0], res[1]
    E.prove("returns_CPTensor", isinstance(res, CP.CPTensor))
    E.prove("shape_rank_attr", (tuple(int(s) for s in res.shape), int(res.rank)) == (tuple(shape), R))
    if not (same_shape(E, "weights_shape", w2, (R,)) and all(same_shape(E, f"factor_shape/m{k}", f, (n, R)) for k, (f, n) in enumerate(zip(fs2, shape)))):
        return
    E.prove_eq("dense_unchanged", d_cp(w2, fs2), D0)
    for k, f in enumerate(fs2):
        unit_or_zero(E, f"unit_or_zero/m{k}", f, lambda r: [w2[r]], lambda r, k=k: ssq([x * (w[r] if (k == 0 and w is not None) else 1) for x in column(fs[k], r)]))


def h_tknorm(E, cfg):
    shape, ranks, how = cfg["shape"], cfg["ranks"], cfg["how"]
    core = E.real("G", ranks)
    fs = [E.real(f"U{k}", (n, r)) for k, (n, r) in enumerate(zip(shape, ranks))]
    D0 = d_tucker(core, fs)
    arg = (cp(core), [cp(f) for f in fs])
    if how == "tuple":
        ok, res = attempt(E, "call", lambda: TK.tucker_normalize(arg))
    elif how == "wrapper":
        ok, res = attempt(E, "call", lambda: TK.tucker_normalize(TK.TuckerTensor(arg)))
    else:

        def run():
            c = TK.TuckerTensor(arg)
            c.normalize()
            return c

        ok, res = attempt(E, "call", run)
    if not ok:
        return
    core2, fs2 = res[0], res[1]
    E.prove("returns_TuckerTensor", isinstance(res, TK.TuckerTensor))
    E.prove("shape_rank_attr", (tuple(int(s) for s in res.shape), tuple(int(s) for s in res.rank)) == (tuple(shape), tuple(ranks)))
    if not (same_shape(E, "core_shape", core2, ranks) and all(same_shape(E, f"factor_shape/m{k}", f, (n, r)) for k, (f, n, r) in enumerate(zip(fs2, shape, ranks)))):
        return
    core2 = np.asarray(core2, dtype=object)
    E.prove_eq("dense_unchanged", d_tucker(core2, fs2), D0)
    for k, f in enumerate(fs2):

        def core_slice(r, k=k):
            return [core2[idx] for idx in np.ndindex(*core2.shape) if idx[k] == r]

        unit_or_zero(E, f"unit_or_zero/m{k}", f, core_slice, lambda r, k=k: ssq(column(fs[k], r)))


def _p2_inputs(E, Js, R, K, w):
    I = len(Js)
    A = E.real("A", (I, R))
    B = E.real("B", (R, R))
    C = E.real("C", (K, R))
    wv = E.real("w", (R,)) if w else None
    Ps = [frame(E, f"P{i}", J, R) for i, J in enumerate(Js)]
    return wv, A, B, C, Ps


def h_p2norm(E, cfg):
    Js, R, K, how = cfg["Js"], cfg["R"], cfg["K"], cfg["how"]
    w, A, B, C, Ps = _p2_inputs(E, Js, R, K, cfg["w"])
    _, _, D0 = d_p2(w, A, B, C, Ps)
    arg = (None if w is None else cp(w), [cp(A), cp(B), cp(C)], [cp(P) for P in Ps])
    if how == "tuple":
        ok, res = attempt(E, "call", lambda: P2.parafac2_normalise(arg))
    else:
        ok, res = attempt(E, "call", lambda: P2.parafac2_normalise(P2.Parafac2Tensor(arg)))
    if not ok:
        return
    E.prove("returns_Parafac2Tensor", isinstance(res, P2.Parafac2Tensor))
    w2, (A2, B2, C2), Ps2 = res[0], res[1], res[2]
    shapes_ok = same_shape(E, "weights_shape", w2, (R,))
    for nm, X, Y in (("A", A2, A), ("B", B2, B), ("C", C2, C)):
        shapes_ok = same_shape(E, f"factor_shape/{nm}", X, Y.shape) and shapes_ok
    E.prove("n_projections", len(Ps2) == len(Ps))
    if not shapes_ok or len(Ps2) != len(Ps):
        return
    for i, (X, Y) in enumerate(zip(Ps2, Ps)):
        if same_shape(E, f"projection_shape/{i}", X, Y.shape):
            E.prove_eq(f"projection_unchanged/{i}", X, Y)
    # slice_i = P_i . (slice i of the CP tensor [w; A, B, C]): with the projections unchanged (above), the dense tensor is unchanged
    # iff that CP part is (stated this way because the orthonormality preconditions on P make the full polynomial query slow)
    E.prove_eq("dense_unchanged/cp_part", d_cp(w2, [A2, B2, C2]), d_cp(w, [A, B, C]))
    for nm, X, Y in (("A", A2, A), ("B", B2, B), ("C", C2, C)):
        unit_or_zero(E, f"unit_or_zero/{nm}", X, lambda r: [w2[r]], lambda r, nm=nm, Y=Y: ssq([x * (w[r] if (nm == "A" and w is not None) else 1) for x in column(Y, r)]))


def h_flip(E, cfg):
    shape, R, m, how = cfg["shape"], cfg["R"], cfg["tmode"], cfg["how"]
    w, fs = _cp_inputs(E, shape, R, cfg["w"])
    if cfg["pre"] == "nzmean":
        for k, f in enumerate(fs):
            if k != m:
                E.assume([E.Not(E.eq(sum(column(f, r)), 0)) for r in range(R)])
    D0 = d_cp(w, fs)
    arg = (None if w is None else cp(w), [cp(f) for f in fs])
    kw = {}
    if cfg.get("func") == "sum":
        kw["func"] = tl.sum
    if how == "tuple":
        ok, res = attempt(E, "call", lambda: CP.cp_flip_sign(arg, mode=m, **kw))
    else:
        ok, res = attempt(E, "call", lambda: CP.cp_flip_sign(CP.CPTensor(arg), mode=m, **kw))
    if not ok:
        return
    w2, fs2 = res[0], res[1]
    E.prove("returns_CPTensor", isinstance(res, CP.CPTensor))
    if not (same_shape(E, "weights_shape", w2, (R,)) and all(same_shape(E, f"factor_shape/m{k}", f, (n, R)) for k, (f, n) in enumerate(zip(fs2, shape)))):
        return
    E.prove("dense_unchanged", cp_dense_unchanged(E, w2, fs2, w, fs))
    for r in range(R):
        E.prove(f"weights_nonneg/c{r}", E.ge(w2[r], 0))
    for k, f in enumerate(fs2):
        if k == m:
            continue
        for r in range(R):
            # sign of the mean == sign of the sum (the size is a positive constant)
            E.prove(f"summary_nonneg/m{k}/c{r}", E.ge(sum(column(f, r)) / shape[k], 0))


# -- scipy.optimize.linear_sum_assignment stub (symbolic mode only)
LSA_CALLS = []


def lsa_stub(cost, maximize=False):
    import z3
    from vt import sym

    C = np.asarray(cost, dtype=object)
    n = C.shape[0]
    assert C.shape == (n, n)
    perms = list(itertools.permutations(range(n)))
    # the optimality fact is stated on fresh names c_ab for the cost entries; the definitions c_ab == cost[a, b] form the fact group
    # "lsa_def", which no obligation of this module needs (weaker path assumption = sound, and the path conditions stay linear)
    cv = {}
    for a in range(n):
        for b in range(n):
            cv[a, b] = sym.CTX.fresh("lsa_c")
            sym.CTX.add_fact("lsa_def", cv[a, b] == sym.term(C[a, b]))
    tot = {p: z3.Sum([cv[i, p[i]] for i in range(n)]) for p in perms}
    chosen = None
    if n == 1:
        chosen = perms[0]
    else:
        for p in perms:
            better = [(tot[p] >= tot[q]) if maximize else (tot[p] <= tot[q]) for q in perms if q != p]
            b = z3.Bool(f"lsa_pick!{sym.CTX.nfresh_path}")
            sym.CTX.nfresh_path += 1
            if sym.CTX.branch(z3.And([b] + better)):
                chosen = p
                break
        if chosen is None:
            raise sym.Abort()  # covered by the sibling paths
    LSA_CALLS.append((C, chosen))
    return np.arange(n), np.array(chosen, dtype=int)


def conformance(seed):
    """the stub's contract evaluated on real SciPy output: the returned assignment is optimal among all permutations"""
    from scipy.optimize import linear_sum_assignment

    rng = np.random.RandomState(seed)
    n_ok = 0
    for n in (1, 2, 3):
        for _ in range(20):
            C = rng.randn(n, n).round(1)
            r, c = linear_sum_assignment(C)
            assert list(r) == list(range(n))
            best = min(sum(C[i, p[i]] for i in range(n)) for p in itertools.permutations(range(n)))
            assert abs(C[r, c].sum() - best) < 1e-12
            n_ok += 1
    return {"linear_sum_assignment_contract_checked_on": n_ok}


def h_permute(E, cfg):
    shape, R, how = cfg["shape"], cfg["R"], cfg["how"]
    wr, fr = _cp_inputs(E, shape, R, 1, prefix="ref_")
    tensors = []
    for j in range(2 if (how == "list" and R == 1) else 1):  # R >= 2: a one-element list (cost of the root-atom interning grows fast)
        tensors.append(_cp_inputs(E, shape, R, 1, prefix=f"t{j}_"))
    # congruence_coefficient raises on zero columns by design: exclude them (and zero reference weights)
    E.assume([E.Not(E.eq(wr[r], 0)) for r in range(R)])
    for w_, fs_ in [(wr, fr)] + tensors:
        for f in fs_:
            for r in range(R):
                E.assume(E.Or([E.Not(E.eq(x, 0)) for x in column(f, r)]))
    if how == "list":
        # cp_permute_factors normalises the list entries: zero weights give zero columns there
        for w_, _ in tensors:
            E.assume([E.Not(E.eq(w_[r], 0)) for r in range(R)])
    import tensorly.metrics.factors as MF

    del LSA_CALLS[:]
    real_lsa = MF.linear_sum_assignment
    if E.symbolic:
        from vt import backend

        backend.patch(MF, "linear_sum_assignment", lsa_stub)
    else:
        # replay: the real SciPy solver runs; its argument and answer are recorded for the same two obligations
        def recording(cost, *a, **k):
            r, c = real_lsa(cost, *a, **k)
            LSA_CALLS.append((np.array(cost, dtype=np.float64), tuple(int(x) for x in c)))
            return r, c

        MF.linear_sum_assignment = recording
    ref = CP.CPTensor((cp(wr), [cp(f) for f in fr]))
    objs = [CP.CPTensor((cp(w_), [cp(f) for f in fs_])) for w_, fs_ in tensors]
    try:
        ok, res = attempt(E, "call", lambda: CP.cp_permute_factors(ref, objs[0] if how == "single" else list(objs)))
    finally:
        if not E.symbolic:
            MF.linear_sum_assignment = real_lsa
    if not ok:
        return
    outs, perms = res
    if isinstance(outs, CP.CPTensor):  # a single tensor (also for a one-element list) is returned bare
        outs = [outs]
    E.prove("n_results", (len(outs), len(perms)) == (len(tensors), len(tensors)))
    for j, ((w_, fs_), o, p) in enumerate(zip(tensors, outs, perms)):
        p = [int(x) for x in np.asarray(p).ravel()]
        E.prove(f"t{j}/is_permutation", sorted(p) == list(range(R)), detail=str(p))
        if sorted(p) != list(range(R)):
            continue
        w2, fs2 = o[0], o[1]
        if not (same_shape(E, f"t{j}/weights_shape", w2, (R,)) and all(same_shape(E, f"t{j}/factor_shape/m{k}", f, (n, R)) for k, (f, n) in enumerate(zip(fs2, shape)))):
            continue
        E.prove(f"t{j}/weights_permuted_consistently", [E.eq(w2[r], w_[p[r]]) for r in range(R)])
        for k, f in enumerate(fs2):
            E.prove(f"t{j}/factor_permuted_consistently/m{k}", [E.eq(f[i, r], fs_[k][i, p[r]]) for i in range(shape[k]) for r in range(R)])
        E.prove_eq(f"t{j}/dense_unchanged", d_cp(w2, fs2), d_cp(w_, fs_))
        # alignment with the reference: component r of the result is paired with reference component r, and this pairing
        # maximises the summed product over modes of |cos(angle)| between the paired columns
        # cosine = inner product of the unit-normalised columns; the cosine is invariant under rescaling of either column, so it is
        # evaluated on the reference after this module's own normalisation (weights absorbed in mode 0), and for list input on the
        # likewise normalised tensor -- this keeps the symbolic terms aligned with the root atoms of the code under test
        def unit(col):
            nrm = E.sqrt(sum(abs(x) * abs(x) for x in col))
            return [x / nrm for x in col]

        def prepared(ws, fs, k, r, normalise):
            col = column(fs[k], r)
            if not normalise:
                return col
            if k == 0:
                col = [x * ws[r] for x in col]
            return unit(col)

        refn = [[unit(prepared(wr, fr, k, a, True)) for a in range(R)] for k in range(len(shape))]
        tn = [[unit(prepared(w_, fs_, k, b, how == "list")) for b in range(R)] for k in range(len(shape))]

        def cong(a, b):
            tot = 1
            for k in range(len(shape)):
                tot = tot * abs(sum(x * y for x, y in zip(refn[k][a], tn[k][b])))
            return tot

        M = [[cong(a, b) for b in range(R)] for a in range(R)]
        E.prove(f"t{j}/assignment_solver_called", j < len(LSA_CALLS))
        if j < len(LSA_CALLS):
            # (i) the matrix handed to the assignment solver is minus the congruence matrix (so "optimal assignment" means
            #     "maximal summed congruence with reference component a paired with tensor component chosen[a]") ...
            C, chosen = LSA_CALLS[j]
            for a in range(R):
                for b in range(R):
                    E.prove(f"t{j}/assignment_cost_is_minus_congruence/{a}{b}", E.eq(C[a, b], -M[a][b]))
            # (ii) ... and the returned component order is the assignment the solver returned for it
            E.prove(f"t{j}/aligned_with_reference", p == list(chosen), detail=f"{p} vs {chosen}")
        if not E.symbolic:
            best = sum(M[a][p[a]] for a in range(R))
            E.prove(f"t{j}/aligned_with_reference_direct", [E.ge(best, sum(M[a][s_[a]] for a in range(R))) for s_ in itertools.permutations(range(R))])


def _operand(E, cfg, size):
    op = cfg["op"]
    if op == "vec":
        return E.real("v", (size,))
    return E.real("M", (int(op[3:]), size))


def _expected_mode_product(D, X, m, keep_dim):
    X = np.asarray(X, dtype=object)
    if X.ndim == 1 and keep_dim:
        X = X.reshape(1, -1)
    return o_mode_dot(D, X, m)


def h_cpmd(E, cfg):
    shape, R, m, how = cfg["shape"], cfg["R"], cfg["tmode"], cfg["how"]
    w, fs = _cp_inputs(E, shape, R, cfg["w"])
    X = _operand(E, cfg, shape[m])
    D0 = d_cp(w, fs)
    want = _expected_mode_product(D0, X, m, cfg["kd"])
    arg = (None if w is None else cp(w), [cp(f) for f in fs])
    kd, copy = bool(cfg["kd"]), bool(cfg["copy"])
    if how == "tuple":
        ok, res = attempt(E, "call", lambda: tl.cp_mode_dot(arg, cp(X), m, keep_dim=kd, copy=copy))
    elif how == "wrapper":
        ok, res = attempt(E, "call", lambda: tl.cp_mode_dot(CP.CPTensor(arg), cp(X), m, keep_dim=kd, copy=copy))
    else:
        ok, res = attempt(E, "call", lambda: CP.CPTensor(arg).mode_dot(cp(X), m, keep_dim=kd, copy=copy))
    if not ok:
        return
    ok, parts = attempt(E, "result_is_cp_tensor", lambda: (res[0], list(res[1])))
    if not ok:
        return
    w2, fs2 = parts
    if R == 1:  # the validator's convention: a 1-D factor is a single column
        fs2 = [np.reshape(f, (-1, 1)) if np.ndim(f) == 1 else f for f in fs2]
    good = all(np.ndim(f) == 2 and np.shape(f)[1] == R for f in fs2) and len(fs2) == want.ndim and tuple(np.shape(f)[0] for f in fs2) == want.shape
    E.prove("factor_shapes", good, detail=f"{[np.shape(f) for f in fs2]} for dense shape {want.shape}")
    if hasattr(res, "shape"):
        E.prove("shape_attr", tuple(int(s) for s in res.shape) == want.shape, detail=f"{res.shape} vs {want.shape}")
    if not good:
        return
    if w2 is not None and not same_shape(E, "weights_shape", w2, (R,)):
        return
    E.prove_eq("dense_is_mode_product", d_cp(w2, fs2), want)


def h_tkmd(E, cfg):
    shape, ranks, m, how = cfg["shape"], cfg["ranks"], cfg["tmode"], cfg["how"]
    core = E.real("G", ranks)
    fs = [E.real(f"U{k}", (n, r)) for k, (n, r) in enumerate(zip(shape, ranks))]
    X = _operand(E, cfg, shape[m])
    D0 = d_tucker(core, fs)
    want = _expected_mode_product(D0, X, m, cfg["kd"])
    arg = (cp(core), [cp(f) for f in fs])
    kd, copy = bool(cfg["kd"]), bool(cfg["copy"])
    if how == "tuple":
        ok, res = attempt(E, "call", lambda: tl.tucker_mode_dot(arg, cp(X), m, keep_dim=kd, copy=copy))
    elif how == "wrapper":
        ok, res = attempt(E, "call", lambda: tl.tucker_mode_dot(TK.TuckerTensor(arg), cp(X), m, keep_dim=kd, copy=copy))
    else:
        ok, res = attempt(E, "call", lambda: TK.TuckerTensor(arg).mode_dot(cp(X), m, keep_dim=kd, copy=copy))
    if not ok:
        return
    ok, parts = attempt(E, "result_is_tucker_tensor", lambda: (res[0], list(res[1])))
    if not ok:
        return
    core2, fs2 = parts
    core2 = np.asarray(core2, dtype=object)
    good = len(fs2) == want.ndim == core2.ndim and all(np.ndim(f) == 2 for f in fs2) and tuple(np.shape(f)[0] for f in fs2) == want.shape and tuple(np.shape(f)[1] for f in fs2) == core2.shape
    E.prove("factor_shapes", good, detail=f"core {core2.shape} factors {[np.shape(f) for f in fs2]} for dense shape {want.shape}")
    if hasattr(res, "shape"):
        E.prove("shape_attr", tuple(int(s) for s in res.shape) == want.shape, detail=f"{res.shape} vs {want.shape}")
    if not good:
        return
    E.prove_eq("dense_is_mode_product", d_tucker(core2, fs2), want)


def h_padtt(E, cfg):
    shape, ranks, n, b, kind = cfg["shape"], cfg["ranks"], cfg["n"], bool(cfg["b"]), cfg["kind"]
    fs = [E.real(f"G{k}", (ranks[k], s, ranks[k + 1])) for k, s in enumerate(shape)]
    dense = d_tt if kind == "tt" else d_tr
    D0 = dense(fs)
    if n is None:
        ok, res = attempt(E, "call", lambda: tl.pad_tt_rank([cp(f) for f in fs]))
        n = 1
    else:
        ok, res = attempt(E, "call", lambda: tl.pad_tt_rank([cp(f) for f in fs], n_padding=n, pad_boundaries=b))
    if not ok:
        return
    E.prove("n_cores", len(res) == len(fs))
    if len(res) != len(fs):
        return
    want_ranks = [r + (n if (b or 0 < k < len(ranks) - 1) else 0) for k, r in enumerate(ranks)]
    shapes_ok = True
    for k, f in enumerate(res):
        shapes_ok = same_shape(E, f"enlarged_ranks/core{k}", f, (want_ranks[k], shape[k], want_ranks[k + 1])) and shapes_ok
    if not shapes_ok:
        return
    res = [np.asarray(f, dtype=object) for f in res]
    E.prove_eq("dense_unchanged", dense(res), D0)
    if kind == "tt":
        ok, _ = attempt(E, "still_valid_tt", lambda: TT.TTTensor(list(res)))


def h_fromcp(E, cfg):
    (I, J, K), R, how = cfg["shape"], cfg["R"], cfg["how"]
    A = E.real("A", (I, R))
    C = E.real("C", (K, R))
    w = E.real("w", (R,)) if cfg["w"] else None
    Q = frame(E, "Q", J, R)
    Rv = E.real("Rm", (R, R))
    Rm = obj((R, R))
    for i in range(R):
        for j in range(R):
            Rm[i, j] = Rv[i, j] if i <= j else 0
    B = as_input(E, matmul(Q, Rm))
    if E.symbolic:
        from vt import backend

        backend.configure(qr="factor")
        backend.POLICY.tables["qr"].append(((B,), (Q, as_input(E, Rm))))
    D0 = d_cp(w, [A, B, C])
    arg = (None if w is None else cp(w), [cp(A), cp(B), cp(C)])
    if how == "tuple":
        ok, res = attempt(E, "call", lambda: P2.Parafac2Tensor.from_CPTensor(arg))
    else:
        ok, res = attempt(E, "call", lambda: P2.Parafac2Tensor.from_CPTensor(CP.CPTensor(arg)))
    if not ok:
        return
    E.prove("returns_Parafac2Tensor", isinstance(res, P2.Parafac2Tensor))
    w2, (A2, B2, C2), Ps2 = res[0], res[1], res[2]
    E.prove("n_projections", len(Ps2) == I)
    ok_shapes = len(Ps2) == I and same_shape(E, "factor_shape/A", A2, (I, R)) and same_shape(E, "factor_shape/B", B2, (R, R)) and same_shape(E, "factor_shape/C", C2, (K, R))
    ok_shapes = ok_shapes and all(same_shape(E, f"projection_shape/{i}", P, (J, R)) for i, P in enumerate(Ps2))
    if w2 is not None:
        ok_shapes = same_shape(E, "weights_shape", w2, (R,)) and ok_shapes
    if not ok_shapes:
        return
    E.prove("shape_rank_attr", (tuple(tuple(int(x) for x in s) for s in res.shape), int(res.rank)) == (tuple((J, K) for _ in range(I)), R), detail=f"{res.shape} {res.rank}")
    for i, P in enumerate(Ps2):
        P = np.asarray(P, dtype=object)
        E.prove(f"projection_orthonormal/{i}", [E.eq(sum(P[j, a] * P[j, b] for j in range(J)), 1 if a == b else 0) for a in range(R) for b in range(a, R)])
    _, _, D1 = d_p2(w2, np.asarray(A2, dtype=object), np.asarray(B2, dtype=object), np.asarray(C2, dtype=object), [np.asarray(P, dtype=object) for P in Ps2])
    if same_shape(E, "dense_shape", D1, D0.shape):
        E.prove_eq("dense_unchanged", D1, D0)


def h_fromcp_pass(E, cfg):
    Js, R, K = cfg["Js"], cfg["R"], cfg["K"]
    w, A, B, C, Ps = _p2_inputs(E, Js, R, K, 1)
    _, _, D0 = d_p2(w, A, B, C, Ps)
    arg = (cp(w), [cp(A), cp(B), cp(C)], [cp(P) for P in Ps])
    ok, res = attempt(E, "call", lambda: P2.Parafac2Tensor.from_CPTensor(arg, parafac2_tensor_ok=True))
    if ok:
        E.prove("returns_Parafac2Tensor", isinstance(res, P2.Parafac2Tensor))
        w2, (A2, B2, C2), Ps2 = res[0], res[1], res[2]
        _, _, D1 = d_p2(w2, np.asarray(A2, dtype=object), np.asarray(B2, dtype=object), np.asarray(C2, dtype=object), [np.asarray(P, dtype=object) for P in Ps2])
        E.prove_eq("dense_unchanged", D1, D0)
    try:
        P2.Parafac2Tensor.from_CPTensor(arg)
        E.prove("three_part_input_rejected_without_flag", False)
    except TypeError:
        E.prove("three_part_input_rejected_without_flag", True)


def _fr(rows):
    from fractions import Fraction as Fr

    M = obj((len(rows), len(rows[0])))
    for i, r in enumerate(rows):
        for j, x in enumerate(r):
            M[i, j] = Fr(x[0], x[1]) if isinstance(x, tuple) else Fr(x)
    return M


# rational matrices with orthonormal columns, keyed by shape
CATALOGUE = {
    (1, 1): [_fr([[1]]), _fr([[-1]])],
    (2, 1): [_fr([[(3, 5)], [(4, 5)]]), _fr([[0], [-1]]), _fr([[(-5, 13)], [(12, 13)]])],
    (2, 2): [_fr([[(3, 5), (-4, 5)], [(4, 5), (3, 5)]]), _fr([[0, 1], [1, 0]]), _fr([[(5, 13), (12, 13)], [(12, 13), (-5, 13)]])],
    (3, 1): [_fr([[(1, 3)], [(2, 3)], [(2, 3)]]), _fr([[0], [0], [1]])],
    (3, 2): [_fr([[(1, 3), (2, 3)], [(2, 3), (1, 3)], [(2, 3), (-2, 3)]]), _fr([[0, 1], [1, 0], [0, 0]])],
}


def h_svdc(E, cfg):
    sl, R, opt = cfg["slices"], cfg["R"], cfg["opt"]
    ncols = sl[0][1]
    I = len(sl)
    if E.symbolic:
        from vt import backend

        backend.configure(svd="factor")
    kw = {}
    thr = None
    if opt == "thr":
        thr = E.real("thr", lo=0, hi=1)
        E.assume(E.gt_strict(thr, 0))
        kw["compression_threshold"] = thr
    elif opt == "maxrank":
        kw["max_rank"] = ncols + 1
    Xs, Us, Ss, Vs = [], [], [], []
    for i, (n, c) in enumerate(sl):
        assert c == ncols
        k = min(n, c)
        if cfg.get("U") == "cat":
            # left singular vectors from the catalogue of rational frames: no non-linear preconditions, so that counterexamples of a
            # wrong implementation are found (and replayed) easily; the symbolic-U configurations carry the general claim
            U = as_input(E, CATALOGUE[(n, k)][(i + cfg.get("cat", 0)) % len(CATALOGUE[(n, k)])])
        else:
            U = frame(E, f"U{i}", n, k)
            E.assume([E.Or([E.Not(E.eq(U[j, a], 0)) for j in range(n)]) for a in range(k)])  # implied by the unit norm of the columns
        s = E.real(f"s{i}", (k,), nn=True)
        E.assume([E.ge(s[a], s[a + 1]) for a in range(k - 1)])
        if thr is not None:
            # every singular value is kept (strictly above the threshold, so that the replay's float SVD takes the same decisions)
            E.assume([E.gt_strict(s[a], s[0] * thr) for a in range(1, k)])
        if cfg.get("U") == "cat":
            # right singular vectors from the catalogue as well: (U, s, Vt) is then a genuine SVD of the slice, so that the real LAPACK
            # SVD of the replay returns the same singular values (faithful replay of threshold decisions)
            Vt = as_input(E, np.asarray(CATALOGUE[(c, k)][(i + 1 + cfg.get("cat", 0)) % len(CATALOGUE[(c, k)])], dtype=object).T.copy())
        else:
            Vt = E.real(f"Vt{i}", (k, c))
        X = as_input(E, matmul(matmul(U, np.diag(np.asarray(s, dtype=object)) if k > 1 else np.asarray(s, dtype=object).reshape(1, 1)), Vt))
        if E.symbolic:
            backend.POLICY.tables["svd"].append(((X,), (U, s, as_input(E, Vt))))
        Xs.append(X)
        Us.append(U)
        Ss.append(s)
        Vs.append(Vt)
    # (all inputs are declared before the first obligation so that every replay file is complete)
    rows = [(min(n, c) if ((n > ncols) or (thr is not None)) else n) for n, c in sl]
    A = E.real("A", (I, R))
    B = E.real("B", (R, R))
    C = E.real("C", (ncols, R))
    w = E.real("w", (R,))
    # projections of the model: symbolic orthonormal frames when they have one row; for taller ones a catalogue of rational frames
    # (the validator inside Parafac2Tensor must see that loading x projection is orthonormal: with symbolic loadings AND symbolic
    # projections that is a degree-4 consequence of two sets of quadratic constraints which z3 does not decide in context)
    Ps = []
    for i in range(I):
        if rows[i] == 1:
            Ps.append(frame(E, f"P{i}", rows[i], R))
        else:
            Ps.append(as_input(E, CATALOGUE[(rows[i], R)][(cfg.get("cat", 0) + i) % len(CATALOGUE[(rows[i], R)])]))
    ok, res = attempt(E, "compress/call", lambda: PRE.svd_compress_tensor_slices([cp(X) for X in Xs], **kw))
    if not ok:
        return
    scores, loadings = res
    E.prove("compress/counts", (len(scores), len(loadings)) == (I, I))
    rec = []
    for i, (n, c) in enumerate(sl):
        compressed = (n > ncols) or (thr is not None)
        S_i, L_i = scores[i], loadings[i]
        E.prove(f"compress/slice{i}/loading_present_iff_compressed", (L_i is not None) == compressed)
        if L_i is None:
            if same_shape(E, f"compress/slice{i}/score_shape", S_i, (n, c)):
                E.prove_eq(f"compress/slice{i}/score_is_slice", S_i, Xs[i])
            rec.append(np.asarray(S_i, dtype=object))
            continue
        k = min(n, c)
        if not (same_shape(E, f"compress/slice{i}/score_shape", S_i, (k, c)) and same_shape(E, f"compress/slice{i}/loading_shape", L_i, (n, k))):
            return
        L_i = np.asarray(L_i, dtype=object)
        E.prove_eq(f"compress/slice{i}/loading_times_score_is_slice", matmul(L_i, S_i), Xs[i])
        E.prove(f"compress/slice{i}/loading_orthonormal", [E.eq(sum(L_i[j, a] * L_i[j, b] for j in range(n)), 1 if a == b else 0) for a in range(k) for b in range(a, k)])
        rec.append(np.asarray(S_i, dtype=object))
    # a PARAFAC2 model of the scores (any model: the decompression claim is about the model, not about its fit)
    if [r.shape[0] for r in rec] != rows:
        return
    _, sl0, _ = d_p2(w, A, B, C, Ps)
    # lemma (proved here from the preconditions, then available as a fact): loading x projection has orthonormal columns
    for i in range(I):
        if loadings[i] is None or rows[i] > 1:
            continue
        W = matmul(loadings[i], Ps[i])
        lem = [E.eq(sum(W[j, a] * W[j, b] for j in range(W.shape[0])), 1 if a == b else 0) for a in range(R) for b in range(a, R)]
        for n_, l in enumerate(lem):
            if E.prove(f"lemma/loading_times_projection_orthonormal/slice{i}/{n_}", l) or not E.symbolic:
                E.assume(l)
    model = P2.Parafac2Tensor((cp(w), [cp(A), cp(B), cp(C)], [cp(P) for P in Ps]))
    ok, dec = attempt(E, "decompress/call", lambda: PRE.svd_decompress_parafac2_tensor(model, loadings))
    if not ok:
        return
    E.prove("decompress/returns_Parafac2Tensor", isinstance(dec, P2.Parafac2Tensor))
    w2, (A2, B2, C2), Ps2 = dec[0], dec[1], dec[2]
    if len(Ps2) != I or not all(same_shape(E, f"decompress/projection_shape/{i}", P, (sl[i][0], R)) for i, P in enumerate(Ps2)):
        E.prove("decompress/n_projections", len(Ps2) == I)
        return
    _, sl1, _ = d_p2(w2, np.asarray(A2, dtype=object), np.asarray(B2, dtype=object), np.asarray(C2, dtype=object), [np.asarray(P, dtype=object) for P in Ps2])
    for i in range(I):
        want = sl0[i] if loadings[i] is None else matmul(loadings[i], sl0[i])
        E.prove_eq(f"decompress/slice{i}/is_loading_times_model_slice", sl1[i], want)
