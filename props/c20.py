"""C20 -- factor-similarity metrics are optimal and invariant to CP indeterminacies; error metrics equal
their definitions; leverage-score distributions are probability vectors.

The real tensorly.metrics functions run on solver variables.  `scipy.optimize.linear_sum_assignment`
(compiled, imported by name into tensorly.metrics.factors) is replaced in symbolic mode by a contract stub:
it returns *any* permutation (the path forks over all R!) together with SciPy's optimality contract for the cost
matrix it was handed.  Everything else is tensorly's own code.

Nonlinear inequalities (|cos| <= 1, optimal value, value 1 for equivalent factor sets) are not asked as one query
but as a chain of small solver-checked lemmas over abstraction variables (class Chain below)."""
import itertools

import numpy as np

import tensorly as tl
import tensorly.metrics.factors as MF
import tensorly.metrics.leverage_scores as ML
from tensorly.metrics import regression as MR
from tensorly.metrics.similarity import correlation_index
from tensorly.cp_tensor import CPTensor, cp_permute_factors

PID = "C20"
ENGINE = "E1"
EXPLANATION = (
    "The real metric functions are executed on NumPy object arrays of z3 reals. scipy's linear_sum_assignment is replaced by a contract stub "
    "(forks over every permutation; the optimality of the returned one for the recorded cost matrix is a named fact group). Obligations are SMT validity "
    "queries: the cost matrix handed to the assignment solver equals minus the product over modes of the (absolute) column cosines written from the input "
    "variables with root atoms for the norms; the returned value equals the mean matched cosine of the returned permutation and, with the solver contract, "
    "is >= the value of every other matching. Range and invariance claims are proved hierarchically: per column pair the Cauchy-Schwarz instance "
    "(sum a_i b_i)^2 <= (sum a_i^2)(sum b_i^2) is its own polynomial query over the inputs; a generic 6-variable query turns it, with the root definitions "
    "u^2 = sum a_i^2, into 0 <= |cos| <= 1 for an abstraction variable that is definitionally equal to the cosine; the remaining claims (value in [0,1], "
    "value == 1 and recovering permutation for permuted/rescaled copies, correlation index in [0,1] and == 0 for equivalent sets) are then linear (or tiny polynomial) "
    "queries over the abstraction variables. Every fact used is a definition of a fresh variable, the SciPy contract, or a lemma proved by an earlier query of the "
    "same path. Error metrics are compared entrywise with their textbook index formulas (all axis arguments); leverage scores are run on a Givens-parametrised "
    "orthonormal SVD stub, with the numerical-rank comparison forked."
)
ENCODED = [
    "tensorly.metrics.factors.congruence_coefficient",
    "tensorly.metrics.similarity.correlation_index",
    "tensorly.metrics.similarity._compute_correlation_index",
    "tensorly.metrics.regression.MSE",
    "tensorly.metrics.regression.RMSE",
    "tensorly.metrics.regression.R2_score",
    "tensorly.metrics.regression.correlation",
    "tensorly.metrics.regression.covariance",
    "tensorly.metrics.regression.variance",
    "tensorly.metrics.leverage_scores.leverage_score_dist",
    "tensorly.cp_tensor.cp_permute_factors",
    "tensorly.cp_tensor.cp_normalize",
]
BOUNDS = {
    "quick": "congruence: ranks 1-3, lists of 1-3 factor matrices with row counts (2), (3), (2,3), (2,2,3) (three matrices only up to rank 2), absolute_value on/off; "
    "invariance: every column permutation (rank 3 with two matrices: one 3-cycle and one transposition), symbolic non-zero scalings of any sign per matrix and column; "
    "correlation index: all four methods, ranks 1-3, row counts (2), (3), (2,2), default tol; cp_permute_factors: rank 2, shape 2x2, single tensor and one-element list; "
    "metrics: arrays of shape (2), (3), (2,2), (2,3), (3,2) with axis None/0/1; leverage scores: 2x2, 3x2, 2x3 matrices, float64 path and low-precision renormalisation path",
    "thorough": "as quick plus: congruence rows (3,3) and three matrices at rank 3, invariance with (2,2,3) and all permutations, correlation index rows (2,3), "
    "cp_permute_factors for 2x2x2 / rank 3 / list argument with the alignment chain, metric shapes (3,3), (2,2,2), leverage scores of 3x3 matrices",
}
OUTSIDE = [
    "ranks > 3, more than 3 rows per factor matrix, more than 3 matrices per list",
    "optimality of SciPy's Hungarian solver itself (compiled; it is the stub's contract)",
    "complex entries, IEEE rounding (in particular the tol=5e-16 snap-to-zero of the correlation index is executed in exact real arithmetic)",
    "zero columns (cosine undefined; tensorly raises)",
]
TRUSTED = [
    "z3",
    "SciPy contract: linear_sum_assignment returns row indices 0..R-1 and an optimal column assignment",
    "SVD stub: U has orthonormal columns (Givens parametrisation), S sorted non-negative",
    "root atoms: v = sqrt(arg) is the unique v >= 0 with v*v == arg",
]
ASSUMPTIONS = [
    "real arithmetic",
    "all factor columns non-zero",
    "divisions defined",
    "recovering-permutation uniqueness: columns of the first matrix pairwise non-parallel",
]

import tensorly.metrics.similarity as _MS

_REAL_CI = _MS._compute_correlation_index
_REAL_LSA = MF.linear_sum_assignment
_PROVED = set()  # (config key, lemma name, decisions) proved on an earlier path of the same configuration (same process)


def configs(tier):
    q = tier == "quick"
    out = []

    def add(op, **kw):
        extra = {k: kw.pop(k) for k in ("mode", "timeout_s", "max_paths", "cost", "vacuity", "branch_timeout_ms") if k in kw}
        key = op + "/" + "/".join(f"{k}{''.join(map(str, v)) if isinstance(v, (tuple, list)) else v}" for k, v in kw.items())
        d = dict(key=key, op=op, **kw)
        d.setdefault("mode", "merge")
        d.update(extra)
        d.setdefault("timeout_s", 170 if q else 1500)
        d.setdefault("max_paths", 4000)
        out.append(d)
        return d

    rows_all = [(2,), (3,), (2, 3), (2, 2, 3)]
    if not q:
        rows_all.append((3, 3))
    # (a)+(b) congruence coefficient: value of an optimal column matching, range
    for R in (1, 2, 3):
        for rows in rows_all:
            if q and R == 3 and len(rows) == 3:
                continue
            for ab in (1, 0):
                add("cong_def", R=R, rows=rows, abs=ab, cost=R * len(rows))
    # (c) invariance under column permutation + non-zero rescaling
    for R in (1, 2, 3):
        for rows in [(2,), (3,), (2, 3)] + ([] if q else [(2, 2, 3)]):
            for pi in itertools.permutations(range(R)):
                if q and R == 3 and len(rows) > 1 and pi not in ((1, 2, 0), (0, 2, 1)):
                    continue
                add("cong_inv", R=R, rows=rows, pi=pi, cost=R * len(rows))
    # correlation index (the driver's per-path vacuity query is replaced by one on the paths without tol-snapping:
    # feasibility of `score < 5e-16` is a hard nonlinear query that only costs time)
    ckw = dict(vacuity=False, branch_timeout_ms=500)
    for method in ("stacked", "max_score", "min_score", "avg_score"):
        for R in (1, 2, 3):
            for rows in [(2,), (3,), (2, 2)] + ([] if q else [(2, 3)]):
                add("corr_range", method=method, R=R, rows=rows, **ckw)
                for pi in itertools.permutations(range(R)):
                    if q and R == 3 and len(rows) > 1 and pi not in ((1, 2, 0), (0, 2, 1)):
                        continue
                    if method == "stacked" and len(rows) > 1:
                        add("corr_equiv", method=method, R=R, rows=rows, pi=pi, scale="common", **ckw)
                    add("corr_equiv", method=method, R=R, rows=rows, pi=pi, scale="permatrix", **ckw)
    # cp_permute_factors
    # (align=1: also the cost-matrix/alignment chain; with a list argument both sides are normalised twice, 15 s per entry)
    add("cp_permute", R=2, shape=(2, 2), aslist=0, align=1, mode="fork")
    add("cp_permute", R=2, shape=(2, 2), aslist=1, align=0 if q else 1, mode="fork")
    if not q:
        add("cp_permute", R=2, shape=(2, 2, 2), aslist=0, align=0, mode="fork")  # alignment chain undecided at three modes (level-2 refinement unknown)
        add("cp_permute", R=3, shape=(2, 2), aslist=0, align=1, mode="fork")
    # error metrics
    shapes = [(2,), (3,), (2, 2), (2, 3), (3, 2)] + ([] if q else [(3, 3), (2, 2, 2)])
    for fn in ("MSE", "RMSE", "covariance", "variance", "correlation", "R2_score"):
        for shp in shapes:
            add("metric", fn=fn, shape=shp)
    # leverage scores
    for shp in [(2, 2), (3, 2), (2, 3)] + ([] if q else [(3, 3)]):
        for dt in ("f64", "lowprec"):
            add("leverage", shape=shp, dtype=dt, mode="fork")
    return out


# ------------------------------------------------------------------------------------ helpers / oracles (input variables only)
def colv(M, j):
    return [M[i, j] for i in range(np.shape(M)[0])]


def dotv(a, b):
    return sum(x * y for x, y in zip(a, b))


def nonzero_columns(E, M):
    return [E.Or([E.Not(E.eq(x, 0)) for x in colv(M, j)]) for j in range(np.shape(M)[1])]


def _fresh(base):
    """fresh abstraction variable of the current path.  Deliberately not registered in CTX.vars (the engine substitutes
    random values for every registered variable when it interns root atoms; these never occur in code terms)."""
    import z3
    from vt import sym

    c = sym.CTX
    c.nfresh_path += 1
    return sym.SR(z3.Real(f"{base}!{c.nfresh_path}"))


def _abs_plain(E, c):
    """|c| of an oracle/abstraction term as a plain If term: SR.__abs__ would register it with the engine's |.|-resolution
    pool (consulted, with solver calls, whenever the code takes a root) and sym.ite would fork in fork mode"""
    if E.symbolic:
        import z3
        from vt import sym

        t = sym.term(c)
        return sym.SR(z3.If(t >= 0, t, -t), nn=True)
    return abs(c)


def _sq_raw(E, u):
    """u*u without the engine's syntactic fold-back sqrt(t)*sqrt(t) -> t (the lemma is about the root atom itself)"""
    if E.symbolic:
        from vt import sym

        u = sym.SR.lift(u)
        return sym.SR(u.t * u.t)
    return u * u


class Chain:
    """hierarchical proofs: abstraction variables + lemmas that become facts once proved.

    ab(base, expr, group): symbolic mode -> fresh opaque variable v with the definitional fact v == expr in `group`
                           (only queries that list `group` can look inside); concrete mode -> expr itself.
    lemma(name, cond, groups, into): obligation `cond` under the listed fact groups; when proved, `cond` is added to the
                           fact groups `into` for later queries.  A lemma proved on an earlier path of the same
                           configuration (same decisions so far, same deterministic text) is not asked again."""

    def __init__(self, E, cfg):
        self.E = E
        self.key = cfg["key"]

    def ab(self, base, expr, group):
        if not self.E.symbolic:
            return expr
        from vt import sym

        v = _fresh(base)
        sym.CTX.add_fact(group, v.t == sym.term(expr))
        return v

    def fact(self, groups, cond):
        if not self.E.symbolic:
            return
        from vt import sym

        if isinstance(groups, str):
            groups = (groups,)
        conds = cond if isinstance(cond, (list, tuple)) else [cond]
        for c in conds:
            if isinstance(c, (bool, np.bool_)) and c:
                continue
            for g in groups:
                sym.CTX.add_fact(g, sym.bterm(c))

    def prove(self, name, cond, groups=(), scope=None):
        """E.prove with an optional hypothesis scope: "pc" drops the branch conditions of the path, "all" keeps only
        the listed fact groups (+ definedness of divisions).  Fewer hypotheses: sound."""
        E = self.E
        if not E.symbolic:
            return E.prove(name, cond)
        E.drop_path = scope or False
        try:
            return E.prove(name, cond, groups=tuple(groups))
        finally:
            E.drop_path = False

    def lemma(self, name, cond, groups=(), into=(), scope=None, per_config=False):
        """per_config=True (only with a scope, i.e. a query that does not see the branch conditions): the lemma text is the
        same on every path of the configuration (everything it mentions is created before the first fork that separates
        the paths, fresh names are numbered deterministically), so it is asked once per configuration."""
        E = self.E
        if E.symbolic:
            from vt import sym

            k = (self.key, name, () if (per_config and scope) else tuple(sym.CTX.decisions))
            if k in _PROVED:
                ok = True
            else:
                ok = self.prove(name, cond, groups, scope)
                if ok:
                    _PROVED.add(k)
        else:
            ok = E.prove(name, cond)
        if ok and into:
            self.fact(into, cond)
        return ok


class Cosines:
    """oracle (absolute) column cosines between two lists of matrices, from the definition, with the lemma chain
    Cauchy-Schwarz -> |cos| <= 1 per column pair.

    k[m][r][s]  : abstraction of |<a,b>| / (sqrt<a,a> sqrt<b,b>)  (signed cosine when absval is False)
    P[r][s]     : abstraction of prod_m k[m][r][s]
    fact groups : in/mrs, nA/mr, nB/ms (definitions over the inputs), k/mrs, P (definitions over abstractions),
                  cs/mrs, unit/mrs, unit (proved lemmas), rdA/mr, rdB/ms (root definitions, proved by refinement)"""

    def __init__(self, E, ch, mats1, mats2, absval, lemmas=True, tag=""):
        self.E, self.ch = E, ch
        self.M = len(mats1)
        self.R = R = np.shape(mats1[0])[1]
        self.absval = absval
        self.tag = tag
        self.k = [[[None] * R for _ in range(R)] for _ in range(self.M)]
        self.x = [[[None] * R for _ in range(R)] for _ in range(self.M)]
        self.g_in = []
        self.g_k = []
        nA, nB, uA, uB = {}, {}, {}, {}
        for m, (A, B) in enumerate(zip(mats1, mats2)):
            for r in range(R):
                a = colv(A, r)
                b = colv(B, r)
                nA[m, r] = ch.ab("nA", dotv(a, a), f"{tag}nA/{m}{r}")
                nB[m, r] = ch.ab("nB", dotv(b, b), f"{tag}nB/{m}{r}")
                uA[m, r] = E.sqrt(dotv(a, a))
                uB[m, r] = E.sqrt(dotv(b, b))
                self.g_in += [f"{tag}nA/{m}{r}", f"{tag}nB/{m}{r}"]
                if lemmas and absval:
                    ch.lemma(f"lemma/root_definition/A{m}col{r}", E.eq(_sq_raw(E, uA[m, r]), nA[m, r]), groups=(f"{tag}nA/{m}{r}",), into=(f"{tag}rdA/{m}{r}",))
                    ch.lemma(f"lemma/root_definition/B{m}col{r}", E.eq(_sq_raw(E, uB[m, r]), nB[m, r]), groups=(f"{tag}nB/{m}{r}",), into=(f"{tag}rdB/{m}{r}",))
        self.nA, self.nB, self.uA, self.uB = nA, nB, uA, uB
        for m, (A, B) in enumerate(zip(mats1, mats2)):
            for r in range(R):
                for s in range(R):
                    g = f"{tag}{m}{r}{s}"
                    x = ch.ab("ip", dotv(colv(A, r), colv(B, s)), "in/" + g)
                    self.x[m][r][s] = x
                    self.g_in.append("in/" + g)
                    c = x / (uA[m, r] * uB[m, s])
                    if absval:
                        c = _abs_plain(E, c)
                    k = ch.ab("cos", c, "k/" + g)
                    self.g_k.append("k/" + g)
                    self.k[m][r][s] = k
                    if lemmas and absval:
                        ch.lemma(
                            f"lemma/cauchy_schwarz/m{m}/{r}{s}",
                            E.le(x * x, nA[m, r] * nB[m, s]),
                            groups=("in/" + g, f"{tag}nA/{m}{r}", f"{tag}nB/{m}{s}"),
                            into=("cs/" + g,),
                        )
                        ch.lemma(
                            f"lemma/abs_cosine_in_unit_interval/m{m}/{r}{s}",
                            E.And(E.ge(k, 0), E.le(k, 1)),
                            groups=("k/" + g, "cs/" + g, f"{tag}rdA/{m}{r}", f"{tag}rdB/{m}{s}"),
                            into=("unit/" + g, "unit"),
                        )
        self.P = [[None] * R for _ in range(R)]
        for r in range(R):
            for s in range(R):
                p = 1
                for m in range(self.M):
                    p = p * self.k[m][r][s]
                self.P[r][s] = ch.ab("cosprod", p, "P") if self.M > 1 else p
        self.g_defs = tuple(self.g_in + self.g_k + ["P"])  # everything needed to expand P/k down to the inputs

    def mean(self, perm):
        return sum(self.P[r][perm[r]] for r in range(self.R)) / self.R

    def equal_case(self, m, r, s):
        """column s of mats2[m] is a non-zero multiple of column r of mats1[m]: |cos| == 1"""
        E, ch, tag = self.E, self.ch, self.tag
        g = f"{tag}{m}{r}{s}"
        x = self.x[m][r][s]
        ch.lemma(
            f"lemma/parallel_columns_equality_case/m{m}/{r}{s}",
            E.eq(x * x, self.nA[m, r] * self.nB[m, s]),
            groups=("in/" + g, f"{tag}nA/{m}{r}", f"{tag}nB/{m}{s}"),
            into=("cseq/" + g,),
        )
        ch.lemma(
            f"lemma/abs_cosine_is_one/m{m}/{r}{s}",
            E.eq(self.k[m][r][s], 1),
            groups=("k/" + g, "cseq/" + g, f"{tag}rdA/{m}{r}", f"{tag}rdB/{m}{s}"),
            into=("one",),
        )

    def strict_case(self, m, r, s):
        """columns not parallel (precondition): |cos| < 1"""
        E, ch, tag = self.E, self.ch, self.tag
        g = f"{tag}{m}{r}{s}"
        x = self.x[m][r][s]
        ch.lemma(
            f"lemma/nonparallel_columns_strict_case/m{m}/{r}{s}",
            E.gt_strict(self.nA[m, r] * self.nB[m, s], x * x),
            groups=("in/" + g, f"{tag}nA/{m}{r}", f"{tag}nB/{m}{s}"),
            into=("csstrict/" + g,),
        )
        ch.lemma(
            f"lemma/abs_cosine_below_one/m{m}/{r}{s}",
            E.gt_strict(1, self.k[m][r][s]),
            groups=("k/" + g, "csstrict/" + g, f"{tag}rdA/{m}{r}", f"{tag}rdB/{m}{s}"),
            into=("strict",),
        )


# ------------------------------------------------------------------------------------ assignment solver: stub / recorder
class Assignment:
    """symbolic mode: contract stub for scipy.optimize.linear_sum_assignment (square cost matrices): returns an
    arbitrary permutation pi (the path forks over all of them).  The cost entries are named by fresh variables
    Kc[i][j] (fact group `lsa_def`: Kc[i][j] == cost[i][j]) and SciPy's contract
    `sum_i Kc[i, pi(i)] <= sum_i Kc[i, sigma(i)] for all sigma` is the fact group `lsa`.
    concrete mode: the real SciPy routine, wrapped only to record the matrix it is handed."""

    def __init__(self, E):
        self.E = E
        self.calls = []  # (cost matrix, returned col_ind, Kc)
        self._real = _REAL_LSA

    def __enter__(self):
        if self.E.symbolic:
            from vt import backend

            backend.patch(MF, "linear_sum_assignment", self.stub)
        else:
            MF.linear_sum_assignment = self.record
        return self

    def __exit__(self, *a):
        if not self.E.symbolic:
            MF.linear_sum_assignment = self._real
        return False

    def record(self, cost, *a, **k):
        r, c = self._real(cost, *a, **k)
        cost = np.array(cost)
        self.calls.append((cost, np.array(c), cost))
        return r, c

    def stub(self, cost, maximize=False):
        import z3
        from vt import sym

        cost = np.asarray(cost, dtype=object)
        assert cost.ndim == 2 and cost.shape[0] == cost.shape[1], "stub models square problems"
        R = cost.shape[0]
        ncall = len(self.calls)
        Kc = np.empty((R, R), dtype=object)
        for i in range(R):
            for j in range(R):
                Kc[i, j] = _fresh("lsa_cost")
                sym.CTX.add_fact("lsa_def", Kc[i, j].t == sym.term(cost[i, j]))
        perms = list(itertools.permutations(range(R)))
        tot = {p: sym.term(sum(Kc[i, p[i]] for i in range(R))) for p in perms}
        for k, p in enumerate(perms):
            if k == len(perms) - 1 or sym.CTX.branch(z3.Bool(f"lsa_pick!{ncall}!{k}")):
                for s in perms:
                    if s != p:
                        sym.CTX.add_fact("lsa", (tot[p] >= tot[s]) if maximize else (tot[p] <= tot[s]))
                        # optimum with a margin: only used by the `.../strict_optimum` twins of discrete obligations, whose
                        # counterexample models must make the real solver return this very permutation in the float64 replay
                        sym.CTX.add_fact("lsa_margin", (tot[p] >= tot[s] + sym.rv("1/20")) if maximize else (tot[p] + sym.rv("1/20") <= tot[s]))
                self.calls.append((cost.copy(), np.array(p), Kc))
                return np.arange(R), np.array(p)


def _prove_after_assignment(E, name, cond, groups=()):
    """obligation stated on a path that fixes the assignment solver's answer, plus its `strict_optimum` twin (same
    claim under the additional hypothesis that the answer is optimal with a margin): a counterexample of the twin
    makes the real SciPy routine return the same permutation in the float64 replay, so it reproduces"""
    ok = E.prove(name, cond, groups=tuple(groups))
    ok2 = E.prove(name + "/strict_optimum", cond, groups=tuple(groups) + ("lsa_margin", "lsa_def"))
    return ok and ok2


def _eager_atom_lemmas():
    """the engine keeps the consequences of v = sqrt(sum p_i^2) (v == 0 <=> all p_i == 0, v >= |p_i|) as on-demand
    refinement lemmas; this module needs them when the code branches on `norm == 0` right after taking the root, so they
    are asserted as soon as the atom is created (sound: they are consequences of the atom's definition)"""
    from vt import sym

    c = sym.CTX
    if not hasattr(c, "atom_lemmas") or getattr(c, "_c20_eager", False):
        return
    c._c20_eager = True
    orig = c.root

    def root(*a, **k):
        r = orig(*a, **k)
        done = getattr(c, "_c20_flushed", None)
        if done is None or done[0] is not c.atom_lemmas:
            done = c._c20_flushed = [c.atom_lemmas, 0]  # reset_path installs a new list per path
        for f in c.atom_lemmas[done[1]:]:
            c.add_fact("def", f)
        done[1] = len(c.atom_lemmas)
        return r

    c.root = root


def harness(E, cfg):
    if E.symbolic:
        _eager_atom_lemmas()
    E.fresh_solver = True  # one-shot nlsat queries: the incremental core gives up on rational-function identities
    E.div_elim = True  # quotients -> products with inverse variables (valid under the definedness assumption)
    return globals()["h_" + cfg["op"]](E, cfg)


def _mats(E, name, rows, R, **kw):
    return [E.real(f"{name}{m}", (n, R), **kw) for m, n in enumerate(rows)]


def _pstr(p):
    return "".join(map(str, p))


def _congruence_chain(E, ch, cos, lsa, val, perm, R):
    """shared by cong_def / cong_inv / cp_permute: links the code's cost matrix, value and permutation to the oracle
    cosines `cos` and states optimality.  Returns the abstraction variable of the returned value."""
    E.prove("solver_called_once", len(lsa.calls) == 1)
    cost, col, Kc = lsa.calls[-1]
    E.prove("cost_matrix/shape", np.shape(cost) == (R, R))
    for r in range(R):
        for s in range(R):
            ch.lemma(f"cost_matrix/entry{r}{s}_is_minus_cosine_product", E.eq(Kc[r, s], -cos.P[r][s]), groups=("lsa_def",) + cos.g_defs, into=("link",), scope="pc", per_config=True)
    perm = [int(p) for p in perm]
    # (the contract groups are listed so that a counterexample model makes the stub's permutation optimal, i.e. replayable)
    E.prove("perm/is_permutation", sorted(perm) == list(range(R)), groups=("lsa", "lsa_def"))
    _prove_after_assignment(E, "perm/is_solver_assignment", perm == [int(c) for c in col], groups=("lsa", "lsa_def"))
    v = ch.ab("value", val, "out")
    # the returned value is minus the mean of the cost entries selected by the returned permutation (code terms only) ...
    ch.lemma("value/is_minus_mean_assigned_cost", E.eq(v, -sum(Kc[r, perm[r]] for r in range(R)) / R), groups=("out", "lsa_def"), into=("link",), scope="pc")
    E.prove("value/is_minus_mean_assigned_cost/strict_optimum", E.eq(v, -sum(Kc[r, perm[r]] for r in range(R)) / R), groups=("out", "lsa_def", "lsa_margin"))
    # ... hence, with the proved cost-matrix entries, the mean matched cosine of the returned permutation (linear)
    ch.lemma("value/is_mean_matched_cosine", E.eq(v, cos.mean(perm)), groups=("link",), into=("link",), scope="all")
    for s in itertools.permutations(range(R)):
        # concrete mode: brute-force check of SciPy's answer; symbolic mode: linear consequence of the contract + proved links
        ch.prove(f"value/max_over_matchings/{_pstr(s)}", E.ge(v, cos.mean(s)), groups=("lsa", "link"), scope="all")
    return v, perm


def h_cong_def(E, cfg):
    R, rows, ab = cfg["R"], cfg["rows"], bool(cfg["abs"])
    A = _mats(E, "A", rows, R)
    B = _mats(E, "B", rows, R)
    for M in A + B:
        E.assume(nonzero_columns(E, M))
    ch = Chain(E, cfg)
    cos = Cosines(E, ch, A, B, ab)
    single = len(rows) == 1
    with Assignment(E) as lsa:
        try:
            val, perm = MF.congruence_coefficient(A[0] if single else list(A), B[0] if single else list(B), absolute_value=ab)
        except Exception as e:
            E.prove("no_exception", False, detail=f"{type(e).__name__}: {e}")
            return
    v, perm = _congruence_chain(E, ch, cos, lsa, val, perm, R)
    if ab:
        ch.prove("value/in_unit_interval", E.And(E.ge(v, 0), E.le(v, 1)), groups=("link", "P", "unit"), scope="all")


def h_cong_inv(E, cfg):
    """second set := first with columns permuted by pi and rescaled by non-zero factors of any sign"""
    R, rows, pi = cfg["R"], cfg["rows"], cfg["pi"]
    A = _mats(E, "A", rows, R)
    c = [E.real(f"c{m}", (R,), nonzero=True) for m in range(len(rows))]
    for M in A:
        E.assume(nonzero_columns(E, M))
    # pairwise non-parallel columns in the first matrix (needed only for uniqueness of the recovering permutation)
    nonpar = []
    for r in range(R):
        for s in range(r + 1, R):
            a, b = colv(A[0], r), colv(A[0], s)
            nonpar.append(E.gt_strict(dotv(a, a) * dotv(b, b), dotv(a, b) * dotv(a, b)))
    E.assume(nonpar)
    B = []
    for m, n in enumerate(rows):
        Bm = np.empty((n, R), dtype=object if E.symbolic else float)
        for j in range(R):
            for i in range(n):
                Bm[i, j] = c[m][j] * A[m][i, pi[j]]
        B.append(tl.tensor(Bm))
    rho = [pi.index(r) for r in range(R)]  # column rho[r] of B is parallel to column r of A
    ch = Chain(E, cfg)
    cos = Cosines(E, ch, A, B, True)
    for m in range(len(rows)):
        for r in range(R):
            cos.equal_case(m, r, rho[r])
    for r in range(R):
        for s in range(R):
            if s != rho[r]:
                cos.strict_case(0, r, s)
    single = len(rows) == 1
    with Assignment(E) as lsa:
        try:
            val, perm = MF.congruence_coefficient(A[0] if single else list(A), B[0] if single else list(B), absolute_value=True)
        except Exception as e:
            E.prove("no_exception", False, detail=f"{type(e).__name__}: {e}")
            return
    v, perm = _congruence_chain(E, ch, cos, lsa, val, perm, R)
    ch.prove("equivalent_sets/value_is_one", E.eq(v, 1), groups=("lsa", "link", "P", "unit", "one"), scope="all")
    ch.prove("equivalent_sets/returned_permutation_attains_one", E.eq(cos.mean(perm), 1), groups=("lsa", "link", "P", "unit", "one"), scope="all")
    # on a path where the solver returned another permutation this asks for infeasibility of that path
    ch.prove("equivalent_sets/permutation_recovers_pi", perm == rho, groups=("lsa", "link", "P", "unit", "one", "strict"), scope="all")


# ------------------------------------------------------------------------------------ correlation index
def _corr_oracle(E, k, R, tol):
    """CorrIndex of one pair of column-normalised matrices from the |cosine| matrix k (Sobhani et al. 2022),
    including tensorly's snap-to-zero below `tol`"""
    tot = 0
    for r in range(R):
        tot = tot + _abs_plain(E, E.max([k[r][s] for s in range(R)]) - 1)
    for s in range(R):
        tot = tot + _abs_plain(E, E.max([k[r][s] for r in range(R)]) - 1)
    # 1/(2R) as the float64 constant the code multiplies with (for R = 3 the literal 1/6 is not a binary fraction; the
    # symbolic run takes float literals exactly, so the real-arithmetic formula uses the same constant)
    F = (1 / (2 * R)) * tot
    return E.ite(E.gt_strict(tol, F), 0, F)


def _stack(E, mats):
    out = np.concatenate([np.asarray(M, dtype=object if E.symbolic else float) for M in mats], axis=0)
    return tl.tensor(out)


class _RecordCI:
    """records the arguments/results of the real tensorly.metrics.similarity._compute_correlation_index (still executed)"""

    def __init__(self, E):
        import tensorly.metrics.similarity as MS

        self.E, self.MS = E, MS
        self.real = _REAL_CI  # captured at import: backend.patch is only undone at the end of a configuration, not per path
        self.calls = []

    def wrapper(self, x1, x2, tol=5e-16):
        r = _scalar(self.real(x1, x2, tol=tol))
        g = r
        if self.E.symbolic:
            # the real result is only *renamed*: g is a fresh variable with the definitional fact g == r (group res<m>), so
            # that the max/min/mean combination in correlation_index is built over small terms
            from vt import sym

            g = _fresh("ci")
            sym.CTX.add_fact(f"res{len(self.calls)}", g.t == sym.term(r))
        self.calls.append((x1, x2, tol, r, g))
        return g

    def __enter__(self):
        if self.E.symbolic:
            from vt import backend

            backend.patch(self.MS, "_compute_correlation_index", self.wrapper)
        else:
            self.MS._compute_correlation_index = self.wrapper
        return self

    def __exit__(self, *a):
        if not self.E.symbolic:
            self.MS._compute_correlation_index = self.real
        return False


def _scalar(x):
    if isinstance(x, np.ndarray) and x.ndim == 0:
        return x[()]
    return x


def _corr_common(E, cfg, A, B, ch, cos, method, R):
    """runs correlation_index and links its result to the CorrIndex formula over the oracle |cosines| cos.k in three
    solver-checked steps: (i) the matrices handed to _compute_correlation_index have |x1^T x2| == oracle |cosines|;
    (ii) each _compute_correlation_index result == formula of |x1^T x2| of its own arguments; (iii) the returned score is the
    stacked / max / min / mean combination of those results.  Returns the abstraction variable of the score."""
    tol = 5e-16
    with _RecordCI(E) as rec:
        try:
            score = correlation_index(list(A), list(B), method=method)
        except Exception as e:
            E.prove("no_exception", False, detail=f"{type(e).__name__}: {e}")
            return None
    score = _scalar(score)
    E.prove("score/is_scalar", np.ndim(score) == 0)
    E.prove("score/one_index_per_matrix_pair", len(rec.calls) == cos.M)
    if len(rec.calls) != cos.M:
        return None
    g = []
    for m, (x1, x2, tl_, res, gm) in enumerate(rec.calls):
        E.prove(f"pair{m}/default_tolerance_forwarded", tl_ == tol)
        kk = [[None] * R for _ in range(R)]
        for r in range(R):
            for s in range(R):
                kk[r][s] = ch.ab("cc", _abs_plain(E, dotv(colv(x1, r), colv(x2, s))), f"cdef{m}")
                ch.lemma(f"pair{m}/abs_crossproduct_{r}{s}_is_abs_cosine", E.eq(kk[r][s], cos.k[m][r][s]), groups=(f"cdef{m}",) + cos.g_defs, into=("link", f"link{m}"), scope="pc")
        ch.lemma(f"pair{m}/index_equals_corrindex_formula", E.eq(gm, _corr_oracle(E, kk, R, tol)), groups=(f"cdef{m}", f"res{m}"), into=("link", f"link{m}"))
        ch.lemma(f"pair{m}/index_in_unit_interval", E.And(E.ge(gm, 0), E.le(gm, 1)), groups=(f"link{m}",) + tuple(f"unit/{m}{r}{s}" for r in range(R) for s in range(R)), into=("gunit",), scope="all")
        g.append(gm)
    if method == "stacked":
        spec = g[0]
    elif method == "max_score":
        spec = E.max(g)
    elif method == "min_score":
        spec = E.min(g)
    else:
        spec = sum(g) / len(g)
    if E.symbolic and not any(isinstance(c[3], (int, np.integer)) for c in rec.calls):
        E.vacuity()
    v = ch.ab("score", score, "out")
    ch.lemma(f"score/is_{method}_of_pair_indices", E.eq(v, spec), groups=("out",) + tuple(f"res{m}" for m in range(cos.M)), into=("link",), scope="all")
    return v, g


def h_corr_range(E, cfg):
    method, R, rows = cfg["method"], cfg["R"], cfg["rows"]
    A = _mats(E, "A", rows, R)
    B = _mats(E, "B", rows, R)
    for M in A + B:
        E.assume(nonzero_columns(E, M))
    ch = Chain(E, cfg)
    if method == "stacked":
        cos = Cosines(E, ch, [_stack(E, A)], [_stack(E, B)], True)
    else:
        cos = Cosines(E, ch, A, B, True)
    out = _corr_common(E, cfg, A, B, ch, cos, method, R)
    if out is None:
        return
    v, g = out
    ch.prove("score/in_unit_interval", E.And(E.ge(v, 0), E.le(v, 1)), groups=("link", "gunit"), scope="all")


def h_corr_equiv(E, cfg):
    method, R, rows, pi, scale = cfg["method"], cfg["R"], cfg["rows"], cfg["pi"], cfg["scale"]
    A = _mats(E, "A", rows, R)
    if scale == "common":
        c0 = E.real("c", (R,), nonzero=True)
        c = [c0 for _ in rows]
    else:
        c = [E.real(f"c{m}", (R,), nonzero=True) for m in range(len(rows))]
    for M in A:
        E.assume(nonzero_columns(E, M))
    B = []
    for m, n in enumerate(rows):
        Bm = np.empty((n, R), dtype=object if E.symbolic else float)
        for j in range(R):
            for i in range(n):
                Bm[i, j] = c[m][j] * A[m][i, pi[j]]
        B.append(tl.tensor(Bm))
    rho = [pi.index(r) for r in range(R)]
    ch = Chain(E, cfg)
    stacked_indep = method == "stacked" and len(rows) > 1 and scale == "permatrix"
    if stacked_indep:
        # the stacked columns of the two sets are in general not parallel: no lemma chain applies; ask directly
        try:
            score = correlation_index(list(A), list(B), method=method)
        except Exception as e:
            E.prove("no_exception", False, detail=f"{type(e).__name__}: {e}")
            return
        E.prove("equivalent_sets/index_is_zero", E.eq(score, 0))
        return
    if method == "stacked":
        cos = Cosines(E, ch, [_stack(E, A)], [_stack(E, B)], True)
    else:
        cos = Cosines(E, ch, A, B, True)
    for m in range(cos.M):
        for r in range(R):
            cos.equal_case(m, r, rho[r])
    out = _corr_common(E, cfg, A, B, ch, cos, method, R)
    if out is None:
        return
    v, g = out
    ch.prove("equivalent_sets/index_is_zero", E.eq(v, 0), groups=("link", "unit", "one"), scope="all")


# ------------------------------------------------------------------------------------ cp_permute_factors
def _dense_cp(w, factors, shape, R):
    out = np.empty(shape, dtype=object)
    for idx in np.ndindex(*shape):
        tot = 0
        for r in range(R):
            p = w[r]
            for m, i in enumerate(idx):
                p = p * factors[m][i, r]
            tot = tot + p
        out[idx] = tot
    return out


def h_cp_permute(E, cfg):
    R, shape, aslist = cfg["R"], cfg["shape"], cfg["aslist"]
    wr = E.real("wr", (R,), nonzero=True)
    wt = E.real("wt", (R,), nonzero=True)
    Fr = _mats(E, "Fr", shape, R)
    Ft = _mats(E, "Ft", shape, R)
    for M in Fr + Ft:
        E.assume(nonzero_columns(E, M))
    ch = Chain(E, cfg)
    cos = Cosines(E, ch, Fr, Ft, True, lemmas=False)
    dense_in = _dense_cp(wt, Ft, shape, R)
    wt0 = [wt[r] for r in range(R)]
    Ft0 = [[[M[i, r] for r in range(R)] for i in range(np.shape(M)[0])] for M in Ft]
    ref = CPTensor((tl.tensor(wr), [tl.tensor(M) for M in Fr]))
    tgt = CPTensor((tl.tensor(wt), [tl.tensor(M) for M in Ft]))
    with Assignment(E) as lsa:
        try:
            out, perms = cp_permute_factors(ref, [tgt] if aslist else tgt)
        except Exception as e:
            E.prove("no_exception", False, detail=f"{type(e).__name__}: {e}")
            return
    E.prove("solver_called_once", len(lsa.calls) == 1)
    cost, col, Kc = lsa.calls[-1]
    col = [int(x) for x in col]
    E.prove("returns_one_permutation_per_tensor", len(perms) == 1)
    perm = [int(p) for p in np.asarray(perms[0]).ravel()]
    _prove_after_assignment(E, "perm/is_solver_assignment", perm == col, groups=("lsa", "lsa_def"))
    E.prove("perm/is_permutation", sorted(perm) == list(range(R)), groups=("lsa", "lsa_def"))
    E.prove("output_is_single_cp_tensor", not isinstance(out, list))
    if isinstance(out, list):
        return
    w_out, F_out = out
    E.prove("weights/shape", np.shape(w_out) == (R,))
    _prove_after_assignment(E, "weights/permuted_by_solver_assignment", [E.eq(w_out[r], wt0[perm[r]]) for r in range(R)])
    for m in range(len(shape)):
        E.prove(f"factor{m}/shape", np.shape(F_out[m]) == (shape[m], R))
        _prove_after_assignment(E, f"factor{m}/columns_permuted_by_solver_assignment", [E.eq(F_out[m][i, r], Ft0[m][i][perm[r]]) for i in range(shape[m]) for r in range(R)])
    E.prove_eq("dense_tensor_unchanged", _dense_cp(w_out, F_out, shape, R), dense_in)
    if not cfg["align"]:
        return
    # aligned: the solver was asked to match reference columns with target columns by product of |cosines|, so by
    # its contract the identity matching is optimal between the reference and the permuted tensor
    for r in range(R):
        for s in range(R):
            ch.lemma(f"cost_matrix/entry{r}{s}_is_minus_cosine_product", E.eq(Kc[r, s], -cos.P[r][s]), groups=("lsa_def",) + cos.g_defs, into=("link",), scope="pc", per_config=True)
    ident = sum(cos.P[r][perm[r]] for r in range(R))
    for s in itertools.permutations(range(R)):
        ch.prove(f"aligned/identity_matching_optimal_after_permutation/{_pstr(s)}", E.ge(ident, sum(cos.P[r][perm[s[r]]] for r in range(R))), groups=("lsa", "link"), scope="all")


# ------------------------------------------------------------------------------------ error metrics
def _along(arr, axis):
    """-> (out_shape, {out_index: list of entries reduced over})"""
    arr = np.asarray(arr)
    if axis is None:
        return (), {(): list(arr.ravel())}
    moved = np.moveaxis(arr, axis, -1)
    return moved.shape[:-1], {idx: list(moved[idx]) for idx in np.ndindex(*moved.shape[:-1])}


def _mean(xs):
    return sum(xs) / len(xs)


def h_metric(E, cfg):
    fn, shape = cfg["fn"], cfg["shape"]
    yt = E.real("yt", shape)
    yp = E.real("yp", shape)
    for axis in [None] + ([] if fn == "R2_score" else list(range(len(shape)))):
        _metric_axis(E, fn, yt, yp, axis, f"axis{axis}/")


def _metric_axis(E, fn, yt, yp, axis, pre):
    oshape, T_ = _along(yt, axis)
    _, P_ = _along(yp, axis)
    spec = {}
    try:
        if fn == "MSE":
            out = MR.MSE(yt, yp, axis=axis)
            for j in T_:
                spec[j] = _mean([(a - b) * (a - b) for a, b in zip(T_[j], P_[j])])
        elif fn == "RMSE":
            out = MR.RMSE(yt, yp, axis=axis)
            for j in T_:
                spec[j] = E.sqrt(_mean([(a - b) * (a - b) for a, b in zip(T_[j], P_[j])]))
        elif fn == "covariance":
            out = MR.covariance(yt, yp, axis=axis)
            for j in T_:
                mt, mp = _mean(T_[j]), _mean(P_[j])
                spec[j] = _mean([(a - mt) * (b - mp) for a, b in zip(T_[j], P_[j])])
        elif fn == "variance":
            out = MR.variance(yt, axis=axis)
            for j in T_:
                mt = _mean(T_[j])
                spec[j] = _mean([(a - mt) * (a - mt) for a in T_[j]])
        elif fn == "correlation":
            out = MR.correlation(yt, yp, axis=axis)
            for j in T_:
                mt, mp = _mean(T_[j]), _mean(P_[j])
                cov = _mean([(a - mt) * (b - mp) for a, b in zip(T_[j], P_[j])])
                vt = _mean([(a - mt) * (a - mt) for a in T_[j]])
                vp = _mean([(b - mp) * (b - mp) for b in P_[j]])
                E.assume(E.Not(E.eq(vt, 0)))
                E.assume(E.Not(E.eq(vp, 0)))
                spec[j] = cov / E.sqrt(vt * vp)
        elif fn == "R2_score":
            E.assume(E.Or([E.Not(E.eq(a - T_[()][0], 0)) for a in T_[()]]))  # the original is not constant
            out = MR.R2_score(yt, yp)
            mo = _mean(T_[()])
            ss_res = sum((a - b) * (a - b) for a, b in zip(T_[()], P_[()]))
            ss_tot = sum((a - mo) * (a - mo) for a in T_[()])
            spec[()] = 1 - ss_res / ss_tot
            spec_unc = 1 - ss_res / sum(a * a for a in T_[()])
        else:
            raise KeyError(fn)
    except (KeyError, AssertionError):
        raise
    except Exception as e:
        E.prove(pre + "no_exception", False, detail=f"{type(e).__name__}: {e}")
        return
    E.prove(pre + "shape", tuple(np.shape(out)) == tuple(oshape))
    if tuple(np.shape(out)) != tuple(oshape):
        return
    name = {"R2_score": "equals_coefficient_of_determination"}.get(fn, "equals_definition")
    o = np.asarray(out, dtype=object if E.symbolic else float)
    E.prove(pre + name, [E.eq(o[j], spec[j]) for j in spec])
    if fn == "R2_score":
        # the uncentred variant (R^2 of a model without intercept): what tensorly's unit tests and CP_PLSR.score rely on
        E.prove(pre + "equals_uncentred_r2", E.eq(o[()], spec_unc))


# ------------------------------------------------------------------------------------ leverage scores
class _TlF64:
    """`tl` as seen by leverage_score_dist for a float64 input: context() reports float64 (the symbolic backend reports
    dtype=object, which would send every run through the low-precision renormalisation branch)"""

    def __getattr__(self, name):
        return getattr(tl, name)

    def context(self, t):
        return {"dtype": tl.float64}


def h_leverage(E, cfg):
    (m, n), dt = cfg["shape"], cfg["dtype"]
    M = E.real("M", (m, n))
    if E.symbolic:
        from vt import backend

        backend.configure(svd="givens")
        if dt == "f64":
            backend.patch(ML, "tl", _TlF64())
        X = M
    else:
        X = tl.tensor(M, dtype=tl.float32) if dt == "lowprec" else M
    # the SVD contract group is listed everywhere so that a counterexample model has M == U diag(S) V for the stub outputs of
    # this path (e.g. rank deficient on the path where the numerical-rank comparison drops a singular value): replayable
    G = ("svd_factor",)
    try:
        p = ML.leverage_score_dist(X)
    except Exception as e:
        # no distribution exists for the zero matrix; anything else must not raise.  Same obligation name as on the normal
        # path: a defect that raises symbolically (x / 0) typically yields nan, i.e. a wrong sum, in the float64 replay
        E.prove("sums_to_one", [E.eq(M[i, j], 0) for i in range(m) for j in range(n)], groups=G, detail=f"raised {type(e).__name__}: {e}")
        return
    E.prove("shape", tuple(np.shape(p)) == (m,))
    p = np.asarray(p, dtype=object if E.symbolic else float)
    for i in range(m):
        E.prove(f"nonnegative/row{i}", E.ge(p[i], 0), groups=G)
    E.prove("sums_to_one", E.eq(sum(p[i] for i in range(m)), 1), groups=G)
