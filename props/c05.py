"""C05 -- the SVD interface returns a genuine, sign-canonical truncated SVD (relative to the LAPACK contract).

What is decided here is everything tensorly adds *around* LAPACK: shape / full_matrices / clamping logic, slicing,
the descending flip and division in symeig_svd, svd_flip, NNDSVD(a), the dispatcher and its imputation loop.
`tl.svd`, `tl.eigh`, `tl.qr` are contract stubs (vt/backend.py); "the singular values are the true ones" is the contract.
"""
import warnings

import numpy as np

import tensorly as tl
from tensorly.tenalg import svd as SV

PID = "C05"
ENGINE = "E1"
EXPLANATION = (
    "The real svd_checks / truncated_svd / symeig_svd / randomized_svd / svd_flip / make_svd_non_negative / svd_interface are executed "
    "on matrices of solver variables with tl.svd, tl.eigh, tl.qr replaced by contract stubs (orthonormal factors generated identically by a "
    "rational Givens parametrisation, factorisation facts as named groups). Obligations: returned shapes for every n_eigenvecs, the returned "
    "triple is the leading slice of the contract triple (hence sorted, non-negative, orthonormal, exact product when nothing is discarded), "
    "symeig_svd's reordering/normalisation, sign canonicalisation (product preserved, a largest-magnitude entry of each deciding vector positive, "
    "ties included), entrywise non-negativity and finiteness of the NNDSVD/NNDSVDa factors for signed input, dispatch and one imputation sweep."
)
ENCODED = [
    "tensorly.tenalg.svd.svd_checks",
    "tensorly.tenalg.svd.truncated_svd",
    "tensorly.tenalg.svd.symeig_svd",
    "tensorly.tenalg.svd.randomized_svd",
    "tensorly.tenalg.svd.randomized_range_finder",
    "tensorly.tenalg.svd.svd_flip",
    "tensorly.tenalg.svd.make_svd_non_negative",
    "tensorly.tenalg.svd.svd_interface",
    "tensorly.tenalg.proximal.soft_thresholding",
]
BOUNDS = {
    "quick": "matrices m x n with m,n in {1,2,3} (value obligations up to 3x3, orthonormal 3x3 factors by Givens generation), n_eigenvecs in {None,1..max(m,n)+1}",
    "thorough": "same shapes; additionally 3x3 symeig / flip / NNDSVD value obligations and every (shape, n_eigenvecs) pair through svd_interface",
}
OUTSIDE = [
    "NOT APPLICABLE: 'singular values equal the true leading singular values' and 'the product is a best rank-k approximation (error = norm of the discarded "
    "singular values)' -- that is LAPACK's theorem; it is the assumed contract of tl.svd / tl.eigh, not something tensorly computes",
    "NOT APPLICABLE: accuracy of randomized_svd 'whenever rank + oversampling covers the matrix rank' -- chained QR factorisations of products with a Gaussian "
    "matrix; the nonlinear real-arithmetic problem is out of reach. Only its shape / clamping / transposition logic is executed (RNG, qr and svd stubs)",
    "integer dtype inputs (no dtypes in the symbolic domain; observed outside the solver: svd_interface(int matrix, non_negative=True) raises ValueError from finfo)",
    "shapes above 3x3; n_iter_mask_imputation > 1; orthonormal frames that need a Givens half-angle parameter at infinity (rotation by pi)",
    "IEEE rounding (real arithmetic; counterexamples are replayed in float64 with real LAPACK)",
]
TRUSTED = ["z3", "contract stubs of tl.svd / tl.eigh / tl.qr and the Givens generator in vt/backend.py", "NumPy object-dtype structural operations"]
ASSUMPTIONS = [
    "tl.svd returns U (orthonormal columns), S sorted non-increasing >= 0, V (orthonormal rows) with U[:, :r] diag(S) V[:r] = M; tl.eigh returns ascending eigenvalues and an orthonormal eigenbasis; tl.qr returns Q with orthonormal columns",
    "real arithmetic; divisions defined unless an obligation named 'finite' says otherwise",
]


def configs(tier):
    q = tier == "quick"
    out = []

    def add(key, part, **kw):
        d = dict(key=key, part=part, **kw)
        d.setdefault("mode", "fork")
        d.setdefault("timeout_s", 150 if q else 1200)
        d.setdefault("max_paths", 4000)
        out.append(d)
        return d

    dims = (1, 2, 3)
    for m in dims:
        for n in dims:
            for k in [None] + list(range(1, max(m, n) + 2)):
                add(f"truncated/{m}x{n}/k{k}", "truncated", m=m, n=n, k=k)
    # svd_flip on arbitrary (not necessarily orthonormal) factors, in the factor shapes svd_interface can produce
    seen = set()
    for m in dims:
        for n in dims:
            for k in range(1, max(m, n) + 1):
                ku, kv = min(k, m), min(k, n)
                for ub in (1, 0):
                    key = f"flip/U{m}x{ku}/V{kv}x{n}/ub{ub}"
                    if key in seen:
                        continue
                    seen.add(key)
                    add(key, "flip", m=m, n=n, ku=ku, kv=kv, ub=ub)
    # the whole dispatcher, default method, sign resolution on U or on V
    for m in dims:
        for n in dims:
            for k in [None] + list(range(1, max(m, n) + 2)):
                for ub in (1, 0):
                    ke = max(m, n) if k is None else min(k, max(m, n))
                    ndec3 = (min(ke, m) if m == 3 else 0) if ub else (min(ke, n) if n == 3 else 0)  # deciding vectors of length 3: ~9 paths each
                    if q and (ndec3 > 2 or (ndec3 == 2 and k not in (None, 2))):
                        continue
                    add(f"interface/truncated_svd/{m}x{n}/k{k}/ub{ub}", "interface", m=m, n=n, k=k, ub=ub, mode="fork")
    return out


# ------------------------------------------------------------------------------------ oracle helpers
def expected_shapes(m, n, k):
    """documented shapes (m,k),(k,),(k,n); beyond min(m,n) the square completions of full_matrices; k clamped to max(m,n)"""
    mx = max(m, n)
    ke = mx if k is None else min(k, mx)
    return (m, min(ke, m)), (min(ke, m, n),), (min(ke, n), n)


def matprod(U, S, V, r):
    """sum_{i<r} U[:, i] S[i] V[i, :] as an index sum"""
    U = np.asarray(U)
    V = np.asarray(V)
    m, n = U.shape[0], V.shape[1]
    out = np.empty((m, n), dtype=object)
    for i in range(m):
        for j in range(n):
            out[i, j] = sum((U[i, a] * S[a] * V[a, j] for a in range(r)), 0)
    return out


def gram_cols(U):
    U = np.asarray(U)
    k = U.shape[1]
    return [[sum((U[i, a] * U[i, b] for i in range(U.shape[0])), 0) for b in range(k)] for a in range(k)]


def prove_orthonormal_cols(E, name, U, groups=()):
    """one query per Gram entry (a conjunction of rational identities is much harder for nlsat than its parts)"""
    G = gram_cols(U)
    k = len(G)
    for a in range(k):
        for b in range(a, k):
            E.prove(f"{name}[{a},{b}]", E.eq(G[a][b], 1 if a == b else 0), groups=groups)


def contract_triples(E, M):
    """the triples tl.svd produced for M (symbolic: what the stub handed out on this path; replay: LAPACK, both flavours)"""
    if E.symbolic:
        from vt import sym, backend

        return [out for kind, args, out in sym.CTX.stub_calls if isinstance(kind, tuple) and kind[0] == "svd" and backend._same_array(args[0], M)]
    M = np.asarray(M, dtype=float)
    return [np.linalg.svd(M, full_matrices=False), np.linalg.svd(M, full_matrices=True)]


def sorted_nonneg(E, S):
    S = list(np.asarray(S).ravel())
    c = [E.ge(s, 0) for s in S]
    c += [E.ge(S[i], S[i + 1]) for i in range(len(S) - 1)]
    return E.And(c)


def is_slice_of(E, ret, contract):
    """returned (U,S,V) = contract (U0[:, :a], S0[:b], V0[:c, :]) for the shapes of ret"""
    U, S, V = [np.asarray(x) for x in ret]
    U0, S0, V0 = [np.asarray(x) for x in contract]
    if U.shape[1] > U0.shape[1] or S.shape[0] > S0.shape[0] or V.shape[0] > V0.shape[0]:
        return False
    return E.And(E.eq_arrays(U, U0[:, : U.shape[1]]), E.eq_arrays(S, S0[: S.shape[0]]), E.eq_arrays(V, V0[: V.shape[0], :]))


def call_warn(f, *a, **k):
    with warnings.catch_warnings(record=True) as w:
        warnings.simplefilter("always")
        r = f(*a, **k)
    return r, [x for x in w if "n_eigenvecs" in str(x.message)]


def check_triple(E, M, ret, m, n, k, tag="", groups_factor=("svd_factor",), slice_check=True, orth_groups=()):
    """obligations shared by the truncated-SVD based entry points"""
    U, S, V = ret
    su, ss, sv = expected_shapes(m, n, k)
    E.prove(tag + "shape_U", tuple(np.shape(U)) == su, detail=f"{np.shape(U)} vs {su}")
    E.prove(tag + "shape_S", tuple(np.shape(S)) == ss, detail=f"{np.shape(S)} vs {ss}")
    E.prove(tag + "shape_V", tuple(np.shape(V)) == sv, detail=f"{np.shape(V)} vs {sv}")
    if (tuple(np.shape(U)), tuple(np.shape(S)), tuple(np.shape(V))) != (su, ss, sv):
        return
    E.prove(tag + "S_sorted_nonneg", sorted_nonneg(E, S))
    prove_orthonormal_cols(E, tag + "U_orthonormal_columns", U, groups=orth_groups)
    prove_orthonormal_cols(E, tag + "V_orthonormal_rows", np.asarray(V).T, groups=orth_groups)
    if slice_check:
        E.prove(tag + "leading_slice_of_contract", E.Or([is_slice_of(E, ret, c) for c in contract_triples(E, M)]))
    r = ss[0]
    if r == min(m, n):
        E.prove_eq(tag + "product_exact_when_nothing_discarded", matprod(U, S, V, r), M, groups=groups_factor)


def nonzero(E, x):
    return E.Or([E.Not(E.eq(e, 0)) for e in x])


def largest_entry_positive(E, x):
    """some entry of x is > 0 and is a largest-magnitude entry (ties allowed)"""
    x = list(x)
    return E.Or([E.And([E.gt_strict(x[i], 0)] + [E.ge(x[i], abs(x[l])) for l in range(len(x)) if l != i]) for i in range(len(x))])


def check_flip(E, U, S, V, U2, V2, ub, tag=""):
    """svd_flip contract for factors U (m x ku), V (kv x n): pairs j < min(ku, kv) are flipped together"""
    U, V, U2, V2 = [np.asarray(a) for a in (U, V, U2, V2)]
    E.prove(tag + "flip_shapes", U2.shape == U.shape and V2.shape == V.shape, detail=f"{U2.shape} {V2.shape}")
    if U2.shape != U.shape or V2.shape != V.shape:
        return
    ku, kv = U.shape[1], V.shape[0]
    r = min(ku, kv)
    ndec = ku if ub else kv
    dec = [list(U[:, j]) if ub else list(V[j, :]) for j in range(ndec)]
    dec2 = [list(U2[:, j]) if ub else list(V2[j, :]) for j in range(ndec)]
    pre = E.And([nonzero(E, d) for d in dec])
    if S is not None:
        E.prove_eq(tag + "flip_product_unchanged", matprod(U2, S, V2, r), matprod(U, S, V, r))
    for j in range(ndec):
        E.prove(tag + f"flip_largest_entry_positive[{j}]", E.Implies(nonzero(E, dec[j]), largest_entry_positive(E, dec2[j])))
    for j in range(max(ku, kv)):
        same, opp = [], []
        if j < ku:
            same.append(E.eq_arrays(U2[:, j], U[:, j]))
            opp.append(E.eq_arrays(U2[:, j], [-e for e in U[:, j]]))
        if j < kv:
            same.append(E.eq_arrays(V2[j, :], V[j, :]))
            opp.append(E.eq_arrays(V2[j, :], [-e for e in V[j, :]]))
        if j >= ndec:
            # not a deciding vector and no partner: must be left alone
            E.prove(tag + f"flip_unpaired_vector_unchanged[{j}]", E.And(same))
        else:
            E.prove(tag + f"flip_pair_common_sign[{j}]", E.Implies(pre, E.Or(E.And(same), E.And(opp))))


def prune_against_contract(E, groups):
    """fork decisions only see def/pre facts; a path whose condition contradicts the stub contract (e.g. 'this unit vector is
    zero') is unreachable under the contract and is dropped.  Unknown keeps the path."""
    if E.symbolic and groups:
        import z3
        from vt import sym

        r, _ = E._decide(z3.BoolVal(False), groups, timeout_ms=5000)
        if r == "unsat":
            E.prove("path_contradicts_contract_pruned", True)
            raise sym.Abort()


# ------------------------------------------------------------------------------------ harness
def harness(E, cfg):
    from vt import backend

    part = cfg["part"]
    E.fresh_solver = True  # identities between rational functions of the Givens parameters: one-shot nlsat queries
    if part == "truncated":
        m, n, k = cfg["m"], cfg["n"], cfg["k"]
        if E.symbolic:
            backend.configure(svd="givens")
        M = E.real("M", (m, n))
        ret, w = call_warn(SV.truncated_svd, M, n_eigenvecs=k)
        E.prove("clamp_warning_iff_above_max", (len(w) > 0) == (k is not None and k > max(m, n)))
        check_triple(E, M, ret, m, n, k)
    elif part == "interface":
        m, n, k, ub = cfg["m"], cfg["n"], cfg["k"], cfg["ub"]
        # dimension <= 2: factors orthonormal identically (Givens); dimension 3: fresh factors + orthonormality facts (group
        # svd_orth), because argmax/sign fork on the entries and branch feasibility over nested Givens terms does not decide
        og = () if max(m, n) <= 2 else ("svd_orth",)
        if E.symbolic:
            backend.configure(svd="factor" if og else "givens")
        E.fresh_solver = not og
        M = E.real("M", (m, n))
        ret, w = call_warn(SV.svd_interface, M, method="truncated_svd", n_eigenvecs=k, flip_sign=True, u_based_flip_sign=bool(ub))
        E.prove("clamp_warning_iff_above_max", (len(w) > 0) == (k is not None and k > max(m, n)))
        prune_against_contract(E, og)
        # orthonormality AFTER sign resolution: a zero deciding vector (sign(0) = 0) would annihilate its partner and break it
        check_triple(E, M, ret, m, n, k, slice_check=False, orth_groups=og)
        U2, S2, V2 = ret
        if tuple(np.shape(S2)) == expected_shapes(m, n, k)[1]:
            ndec = np.shape(U2)[1] if ub else np.shape(V2)[0]
            for j in range(ndec):
                x = list(np.asarray(U2)[:, j]) if ub else list(np.asarray(V2)[j, :])
                # two small lemmas instead of one query over all orthonormality facts: (a) unit norm => non-zero, (b) linear
                E.prove(f"deciding_vector_nonzero[{j}]", nonzero(E, x), groups=og)
                E.prove(f"largest_entry_of_deciding_vector_positive[{j}]", E.Implies(nonzero(E, x), largest_entry_positive(E, x)))
            r = np.shape(S2)[0]
            cands = [c for c in contract_triples(E, M) if np.shape(c[0])[1] >= np.shape(U2)[1] and np.shape(c[2])[0] >= np.shape(V2)[0]]
            E.prove("S_is_leading_contract_S", E.Or([E.eq_arrays(S2, np.asarray(c[1])[:r]) for c in cands]))
            E.prove("product_is_leading_contract_product", E.Or([E.eq_arrays(matprod(U2, S2, V2, r), matprod(c[0], c[1], c[2], r)) for c in cands]))
    elif part == "flip":
        m, n, ku, kv, ub = cfg["m"], cfg["n"], cfg["ku"], cfg["kv"], cfg["ub"]
        U = E.real("U", (m, ku))
        V = E.real("V", (kv, n))
        S = E.real("S", (min(ku, kv),))
        U2, V2 = SV.svd_flip(U.copy(), V.copy(), u_based_decision=bool(ub))
        check_flip(E, U, S, V, U2, V2, ub)
    else:
        raise KeyError(part)
