"""C05 -- the SVD interface returns a genuine, sign-canonical truncated SVD (relative to the LAPACK contract).

What is decided here is everything tensorly adds *around* LAPACK: shape / full_matrices / clamping logic, slicing,
the descending flip and division in symeig_svd, svd_flip, NNDSVD(a), the dispatcher and its imputation loop.
`tl.svd`, `tl.eigh`, `tl.qr` are contract stubs (vt/backend.py); "the singular values are the true ones" is the contract.
"""
import warnings

import numpy as np

import tensorly as tl
from tensorly.tenalg import svd as SV

PID = "C05"
ENGINE = "E1"
EXPLANATION = (
    "The real svd_checks / truncated_svd / symeig_svd / randomized_svd / svd_flip / make_svd_non_negative / svd_interface are executed "
    "on matrices of solver variables with tl.svd, tl.eigh, tl.qr replaced by contract stubs (orthonormal factors generated identically by a "
    "rational Givens parametrisation, factorisation facts as named groups). Obligations: returned shapes for every n_eigenvecs, the returned "
    "triple is the leading slice of the contract triple (hence sorted, non-negative, orthonormal, exact product when nothing is discarded), "
    "symeig_svd's reordering/normalisation, sign canonicalisation (product preserved, a largest-magnitude entry of each deciding vector positive, "
    "ties included), entrywise non-negativity and finiteness of the NNDSVD/NNDSVDa factors for signed input, dispatch and one imputation sweep."
)
ENCODED = [
    "tensorly.tenalg.svd.svd_checks",
    "tensorly.tenalg.svd.truncated_svd",
    "tensorly.tenalg.svd.symeig_svd",
    "tensorly.tenalg.svd.randomized_svd",
    "tensorly.tenalg.svd.randomized_range_finder",
    "tensorly.tenalg.svd.svd_flip",
    "tensorly.tenalg.svd.make_svd_non_negative",
    "tensorly.tenalg.svd.svd_interface",
    "tensorly.tenalg.proximal.soft_thresholding",
]
BOUNDS = {
    "quick": "matrices m x n with m,n in {1,2,3}, n_eigenvecs in {None,1..max(m,n)+1}: truncated_svd (all, Givens-orthonormal contract factors), svd_flip on arbitrary "
    "factors in every factor shape svd_interface produces (the 729-path cases only for 3x3), svd_interface+truncated_svd with sign resolution on U or V (dimension-3 "
    "cases with at most two deciding 3-vectors; dimension 3 uses fresh factors + orthonormality facts), symeig_svd against the eigh contract (all shapes; exact product for "
    "square <= 2x2), symeig_svd on generated inputs (shapes <= 2x2 and 1x3 / 3x1), NNDSVD / NNDSVDa on generated inputs <= 2x2, dispatcher, one imputation sweep "
    "(2x2, 2x3, 3x2), randomized_svd shape logic (all shapes, n_oversamples in {0,1,5})",
    "thorough": "same, with every svd_flip factor shape, every (shape, n_eigenvecs, side) through svd_interface, sign resolution after symeig_svd for every n_eigenvecs, 3x3 imputation, n_iter in {0,1} for randomized_svd",
}
OUTSIDE = [
    "NOT APPLICABLE: 'singular values equal the true leading singular values' and 'the product is a best rank-k approximation (error = norm of the discarded "
    "singular values)' -- that is LAPACK's theorem; it is the assumed contract of tl.svd / tl.eigh, not something tensorly computes. Claimed instead: the returned triple is the "
    "leading slice of the contract triple, and the product is exact when nothing is discarded",
    "NOT APPLICABLE: accuracy of randomized_svd 'whenever rank + oversampling covers the matrix rank' -- chained QR factorisations of products with a Gaussian "
    "matrix; the nonlinear real-arithmetic problem is out of reach. Only its shape / clamping / transposition logic is executed (RNG, qr and svd stubs)",
    "symeig_svd: derived factor / exact product for 2x3, 3x2, 3x3 (rational identities over a 3x3 Givens frame: unknown at 120 s per entry); NNDSVD for 2x3 / 3x2 and larger (same reason)",
    "'finite' (no 0/0 in NNDSVD) is stated for distinct positive singular values only; for repeated / zero singular values the contract leaves the vectors open and LAPACK's choice decides",
    "that an imputed result is independent of the values stored at masked positions: false by design (the first factorisation uses them); checked instead: what the second factorisation is applied to",
    "integer dtype inputs (no dtypes in the symbolic domain; observed outside the solver: svd_interface(int matrix, non_negative=True) raises ValueError from tl.eps/finfo(int64))",
    "shapes above 3x3; n_iter_mask_imputation > 1; orthonormal frames that need a Givens half-angle parameter at infinity (rotation by pi)",
    "IEEE rounding (real arithmetic; counterexamples are replayed in float64 with real LAPACK)",
]
TRUSTED = [
    "z3 (one-shot nlsat queries for rational identities, incremental queries on fork decisions)",
    "contract stubs of tl.svd / tl.eigh / tl.qr and the Givens generators (vt/backend.py, frame() here)",
    "input-from-output generation: M := U0 diag(s) V0^T covers every real matrix",
    "NumPy object-dtype structural operations",
]
ASSUMPTIONS = [
    "tl.svd returns U (orthonormal columns), S sorted non-increasing >= 0, V (orthonormal rows) with U[:, :r] diag(S) V[:r] = M; tl.eigh returns ascending eigenvalues and an orthonormal eigenbasis; tl.qr returns Q with orthonormal columns",
    "svd_flip: deciding vectors are non-zero (what happens otherwise is reported by the symeig 'any' / 'deficient' configurations)",
    "real arithmetic; divisions defined unless an obligation named 'finite' says otherwise",
]


def configs(tier):
    q = tier == "quick"
    out = []

    def add(key, part, **kw):
        d = dict(key=key, part=part, **kw)
        d.setdefault("mode", "fork")
        d.setdefault("branch_timeout_ms", 8000)  # a fork check that times out keeps an infeasible path alive: be generous (loaded machines)
        d.setdefault("timeout_s", 170 if q else 1200)
        d.setdefault("max_paths", 4000)
        out.append(d)
        return d

    dims = (1, 2, 3)
    for m in dims:
        for n in dims:
            for k in [None] + list(range(1, max(m, n) + 2)):
                add(f"truncated/{m}x{n}/k{k}", "truncated", m=m, n=n, k=k)
    # svd_flip on arbitrary (not necessarily orthonormal) factors, in the factor shapes svd_interface can produce
    seen = set()
    for m in dims:
        for n in dims:
            for k in range(1, max(m, n) + 1):
                ku, kv = min(k, m), min(k, n)
                for ub in (1, 0):
                    key = f"flip/U{m}x{ku}/V{kv}x{n}/ub{ub}"
                    if key in seen:
                        continue
                    seen.add(key)
                    ndec3 = (ku if m == 3 else 0) if ub else (kv if n == 3 else 0)  # deciding vectors of length 3: 9 paths each
                    if q and ndec3 == 3 and (m, n) != (3, 3):
                        continue  # 729 paths each: quick keeps the two 3x3 ones
                    add(key, "flip", m=m, n=n, ku=ku, kv=kv, ub=ub, cost=9**ndec3)
    # the whole dispatcher, default method, sign resolution on U or on V
    for m in dims:
        for n in dims:
            for k in [None] + list(range(1, max(m, n) + 2)):
                for ub in (1, 0):
                    ke = max(m, n) if k is None else min(k, max(m, n))
                    ndec3 = (min(ke, m) if m == 3 else 0) if ub else (min(ke, n) if n == 3 else 0)  # deciding vectors of length 3: ~9 paths each
                    if q and (ndec3 > 2 or (ndec3 == 2 and k not in (None, 2))):
                        continue
                    add(f"interface/truncated_svd/{m}x{n}/k{k}/ub{ub}", "interface", m=m, n=n, k=k, ub=ub, mode="fork", cost=9**ndec3 + 5)
    # symeig_svd through svd_interface against the eigh contract (stub: ascending eigenvalues, Givens-orthonormal eigenvectors);
    # free M; 'full' = precondition "no returned eigenvalue was clipped at eps", 'any' = no precondition
    for m in dims:
        for n in dims:
            for k in [None] + list(range(1, max(m, n) + 2)):
                for rank in ("full", "any"):
                    flips = ["none"] + (["u", "v"] if max(m, n) <= 2 and (not q or k in (None, 1)) else [])
                    for flip in flips:
                        add(f"symeig/direct/{m}x{n}/k{k}/{rank}/flip_{flip}", "symeig_direct", m=m, n=n, k=k, rank=rank, flip=flip)
                # input-from-output generation (derived factor, product, leading singular values); 2x3 / 3x2 / 3x3 left out:
                # the rational identities over a 3x3 Givens frame come back unknown
                if max(m, n) <= 2 or min(m, n) == 1:
                    for rank in ("full", "deficient"):
                        add(f"symeig/generated/{m}x{n}/k{k}/{rank}", "symeig_gen", m=m, n=n, k=k, rank=rank, cost=30 if min(m, n) > 1 else 1)
    # non_negative option through svd_interface (default method, sign resolution on): NNDSVDa (True / "nndsvda") and NNDSVD
    nn_shapes = [(1, 1), (1, 2), (2, 1), (2, 2)]  # 2x3 and 3x2 (3x3 Givens frame inside the fork conditions): undecided at 120 s per query
    for m, n in nn_shapes:
        for k in [None] + list(range(1, max(m, n) + 1)):
            for variant in ("True", "nndsvda", "nndsvd"):
                if variant == "nndsvda" and (m, n, k) != (2, 2, None):
                    continue  # same code path as True: one config shows the string is accepted
                for inp in ("signed", "mean_nonneg"):
                    add(f"nn/{variant}/{m}x{n}/k{k}/{inp}", "nn", m=m, n=n, k=k, variant=variant, inp=inp, mode="merge", vacuity=False, cost=50 if min(m, n) > 1 else 2)
    # dispatcher: method names, unknown name, callable method (+ kwargs forwarding), flip_sign=False
    add("dispatch/names", "dispatch_names")
    for m, n, ku, kv in [(2, 2, 2, 2), (2, 3, 2, 2), (3, 2, 2, 2), (2, 2, 1, 1), (1, 2, 1, 2), (2, 1, 2, 1)]:
        for ub in (1, 0):
            add(f"dispatch/callable/U{m}x{ku}/V{kv}x{n}/ub{ub}", "dispatch_callable", m=m, n=n, ku=ku, kv=kv, ub=ub, cost=40)
    # one imputation sweep (mask given, n_eigenvecs given): what the second factorisation is applied to
    for m, n in [(2, 2), (2, 3), (3, 2)] + ([] if q else [(3, 3)]):
        for k in [None] + list(range(1, max(m, n) + 1)):
            for it in (0, 1):
                for pat in ("one_missing", "none_missing", "row_missing"):
                    if q and pat != "one_missing" and (m, n) != (2, 2):
                        continue
                    add(f"mask/{m}x{n}/k{k}/it{it}/{pat}", "mask", m=m, n=n, k=k, it=it, pat=pat)
    # randomized_svd: shape / clamping / transposition logic only (RNG, qr and svd stubs)
    for m in dims:
        for n in dims:
            for k in [None] + list(range(1, max(m, n) + 2)):
                for os_ in (0, 1, 5):
                    for it in (0, 1) if not q else (1,):
                        if q and os_ == 1 and max(m, n) < 3:
                            continue
                        add(f"randomized/{m}x{n}/k{k}/os{os_}/it{it}", "randomized", m=m, n=n, k=k, os=os_, it=it)
    return out


EPS = 2.0**-52

# ------------------------------------------------------------------------------------ oracle helpers
def expected_shapes(m, n, k):
    """documented shapes (m,k),(k,),(k,n); beyond min(m,n) the square completions of full_matrices; k clamped to max(m,n)"""
    mx = max(m, n)
    ke = mx if k is None else min(k, mx)
    return (m, min(ke, m)), (min(ke, m, n),), (min(ke, n), n)


def matprod(U, S, V, r):
    """sum_{i<r} U[:, i] S[i] V[i, :] as an index sum"""
    U = np.asarray(U)
    V = np.asarray(V)
    m, n = U.shape[0], V.shape[1]
    out = np.empty((m, n), dtype=object)
    for i in range(m):
        for j in range(n):
            out[i, j] = sum((U[i, a] * S[a] * V[a, j] for a in range(r)), 0)
    return out


def gram_cols(U):
    U = np.asarray(U)
    k = U.shape[1]
    return [[sum((U[i, a] * U[i, b] for i in range(U.shape[0])), 0) for b in range(k)] for a in range(k)]


def prove_orthonormal_cols(E, name, U, groups=()):
    """one query per Gram entry (a conjunction of rational identities is much harder for nlsat than its parts)"""
    G = gram_cols(U)
    k = len(G)
    for a in range(k):
        for b in range(a, k):
            E.prove(f"{name}[{a},{b}]", E.eq(G[a][b], 1 if a == b else 0), groups=groups)


def contract_triples(E, M):
    """the triples tl.svd produced for M (symbolic: what the stub handed out on this path; replay: LAPACK, both flavours)"""
    if E.symbolic:
        from vt import sym, backend

        return [out for kind, args, out in sym.CTX.stub_calls if isinstance(kind, tuple) and kind[0] == "svd" and backend._same_array(args[0], M)]
    M = np.asarray(M, dtype=float)
    return [np.linalg.svd(M, full_matrices=False), np.linalg.svd(M, full_matrices=True)]


def sorted_nonneg(E, S):
    S = list(np.asarray(S).ravel())
    c = [E.ge(s, 0) for s in S]
    c += [E.ge(S[i], S[i + 1]) for i in range(len(S) - 1)]
    return E.And(c)


def is_slice_of(E, ret, contract):
    """returned (U,S,V) = contract (U0[:, :a], S0[:b], V0[:c, :]) for the shapes of ret"""
    U, S, V = [np.asarray(x) for x in ret]
    U0, S0, V0 = [np.asarray(x) for x in contract]
    if U.shape[1] > U0.shape[1] or S.shape[0] > S0.shape[0] or V.shape[0] > V0.shape[0]:
        return False
    return E.And(E.eq_arrays(U, U0[:, : U.shape[1]]), E.eq_arrays(S, S0[: S.shape[0]]), E.eq_arrays(V, V0[: V.shape[0], :]))


def frame(E, name, n):
    """n x n orthogonal matrix (det +1) from Givens half-angle parameters; same arithmetic symbolically and in replay"""
    nrot = n * (n - 1) // 2
    t = E.real(name, (nrot,)) if nrot else []
    Q = [[1 if i == j else 0 for j in range(n)] for i in range(n)]
    idx = 0
    for c in range(n - 1):
        for r in range(c + 1, n):
            tt = t[idx]
            idx += 1
            den = 1 + tt * tt
            cs, sn = (1 - tt * tt) / den, (2 * tt) / den
            rc = [cs * Q[c][j] - sn * Q[r][j] for j in range(n)]
            rr = [sn * Q[c][j] + cs * Q[r][j] for j in range(n)]
            Q[c], Q[r] = rc, rr
    out = np.empty((n, n), dtype=object if E.symbolic else float)
    for i in range(n):
        for j in range(n):
            out[i, j] = Q[j][i]
    return out


def generated_matrix(E, m, n):
    """input-from-output generation: M := U0[:, :r] diag(s) V0[:, :r]^T with U0 (m x m), V0 (n x n) orthogonal (Givens parameters
    and a sign for the last column: both determinants) and s sorted >= 0; in symbolic mode tl.svd(M) is made to answer with that
    triple (any other argument gets fresh, contract-shaped outputs).  Every real M arises this way; replay recomputes M in floats."""
    from vt import backend

    r = min(m, n)
    U0, V0 = frame(E, "tU", m), frame(E, "tV", n)
    sg = E.real("sg", (2,), lo=-1, hi=1)
    E.assume([E.eq(sg[0] * sg[0], 1), E.eq(sg[1] * sg[1], 1)])
    U0[:, m - 1] = U0[:, m - 1] * sg[0]
    V0[:, n - 1] = V0[:, n - 1] * sg[1]
    sv = E.real("s", (r,), nn=True)
    E.assume([E.ge(sv[i], sv[i + 1]) for i in range(r - 1)])
    M = np.empty((m, n), dtype=object if E.symbolic else float)
    for i in range(m):
        for j in range(n):
            M[i, j] = sum((U0[i, a] * sv[a] * V0[j, a] for a in range(r)), 0)
    if E.symbolic:
        from vt.sym import sarr

        M = sarr(M)
        Mgen, Ug, Sg, Vg = M, sarr(U0), sarr(sv), sarr(V0.T)

        def gen_svd(A, full_matrices):
            if backend._same_array(A, Mgen):
                return (Ug.copy(), Sg.copy(), Vg.copy()) if full_matrices else (Ug[:, :r].copy(), Sg.copy(), Vg[:r, :].copy())
            a, b = A.shape
            rr = min(a, b)
            return backend.fresh_array("svdU", (a, a if full_matrices else rr)), backend.sorted_nonneg("svdS", rr), backend.fresh_array("svdV", (b if full_matrices else rr, b))

        backend.configure(svd=gen_svd)
    return M, sv


def assume_or_abort(E, conds):
    """precondition stated on stub outputs after the code forked on them: paths that contradict it are outside the quantifier"""
    E.assume(conds)
    if E.symbolic:
        import z3
        from vt import sym

        r, _ = E._decide(z3.BoolVal(False), (), timeout_ms=5000)
        if r == "unsat":
            raise sym.Abort()


def contract_eigvals_desc(E, M):
    """eigenvalues (descending) of the Gram matrix handed to tl.eigh -- symbolic: the stub's output on this path;
    replay: LAPACK on M M^T.  Only the leading min(m, n) are compared (shared by both Gram matrices)."""
    if E.symbolic:
        from vt import sym

        calls = [out for kind, args, out in sym.CTX.stub_calls if kind == "eigh"]
        assert len(calls) == 1, len(calls)
        return list(np.asarray(calls[0][0]))[::-1]
    M = np.asarray(M, dtype=float)
    return list(np.linalg.eigvalsh(M @ M.T))[::-1]


def guarded(E, f, *a, **k):
    """tensorly raising where the documentation promises a result is a failed obligation (reproduced by the replay), not a path exception"""
    try:
        r = f(*a, **k)
    except Exception as e:  # noqa
        E.prove("no_exception", False, detail=f"{type(e).__name__}: {str(e)[:200]}")
        return None
    E.prove("no_exception", True)
    return r


def fork_signs(E):
    """the Givens stubs carry the determinant choice as a symbolic sign s (s*s = 1); identities over a 3x3 frame decide in
    milliseconds once s is fixed and take ~15 s with s symbolic: fork on every sign created so far"""
    if E.symbolic:
        from vt import sym

        for v in list(getattr(sym.CTX, "unit_atoms", {}).values()):
            sym.CTX.branch(v == 1)


def call_warn(f, *a, **k):
    with warnings.catch_warnings(record=True) as w:
        warnings.simplefilter("always")
        r = f(*a, **k)
    return r, [x for x in w if "n_eigenvecs" in str(x.message)]


def check_triple(E, M, ret, m, n, k, tag="", groups_factor=("svd_factor",), slice_check=True, orth_groups=()):
    """obligations shared by the truncated-SVD based entry points"""
    U, S, V = ret
    su, ss, sv = expected_shapes(m, n, k)
    E.prove(tag + "shape_U", tuple(np.shape(U)) == su, detail=f"{np.shape(U)} vs {su}")
    E.prove(tag + "shape_S", tuple(np.shape(S)) == ss, detail=f"{np.shape(S)} vs {ss}")
    E.prove(tag + "shape_V", tuple(np.shape(V)) == sv, detail=f"{np.shape(V)} vs {sv}")
    if (tuple(np.shape(U)), tuple(np.shape(S)), tuple(np.shape(V))) != (su, ss, sv):
        return
    E.prove(tag + "S_sorted_nonneg", sorted_nonneg(E, S))
    prove_orthonormal_cols(E, tag + "U_orthonormal_columns", U, groups=orth_groups)
    prove_orthonormal_cols(E, tag + "V_orthonormal_rows", np.asarray(V).T, groups=orth_groups)
    if slice_check:
        E.prove(tag + "leading_slice_of_contract", E.Or([is_slice_of(E, ret, c) for c in contract_triples(E, M)]))
    r = ss[0]
    if r == min(m, n):
        E.prove_eq(tag + "product_exact_when_nothing_discarded", matprod(U, S, V, r), M, groups=groups_factor)


def nonzero(E, x):
    return E.Or([E.Not(E.eq(e, 0)) for e in x])


def largest_entry_positive(E, x):
    """some entry of x is > 0 and is a largest-magnitude entry (ties allowed)"""
    x = list(x)
    return E.Or([E.And([E.gt_strict(x[i], 0)] + [E.ge(x[i], abs(x[l])) for l in range(len(x)) if l != i]) for i in range(len(x))])


def check_flip(E, U, S, V, U2, V2, ub, tag=""):
    """svd_flip contract for factors U (m x ku), V (kv x n): pairs j < min(ku, kv) are flipped together"""
    U, V, U2, V2 = [np.asarray(a) for a in (U, V, U2, V2)]
    E.prove(tag + "flip_shapes", U2.shape == U.shape and V2.shape == V.shape, detail=f"{U2.shape} {V2.shape}")
    if U2.shape != U.shape or V2.shape != V.shape:
        return
    ku, kv = U.shape[1], V.shape[0]
    r = min(ku, kv)
    ndec = ku if ub else kv
    dec = [list(U[:, j]) if ub else list(V[j, :]) for j in range(ndec)]
    dec2 = [list(U2[:, j]) if ub else list(V2[j, :]) for j in range(ndec)]
    pre = E.And([nonzero(E, d) for d in dec])
    if S is not None:
        E.prove_eq(tag + "flip_product_unchanged", matprod(U2, S, V2, r), matprod(U, S, V, r))
    for j in range(ndec):
        E.prove(tag + f"flip_largest_entry_positive[{j}]", E.Implies(nonzero(E, dec[j]), largest_entry_positive(E, dec2[j])))
    for j in range(max(ku, kv)):
        same, opp = [], []
        if j < ku:
            same.append(E.eq_arrays(U2[:, j], U[:, j]))
            opp.append(E.eq_arrays(U2[:, j], [-e for e in U[:, j]]))
        if j < kv:
            same.append(E.eq_arrays(V2[j, :], V[j, :]))
            opp.append(E.eq_arrays(V2[j, :], [-e for e in V[j, :]]))
        if j >= ndec:
            # not a deciding vector and no partner: must be left alone
            E.prove(tag + f"flip_unpaired_vector_unchanged[{j}]", E.And(same))
        else:
            E.prove(tag + f"flip_pair_common_sign[{j}]", E.Implies(pre, E.Or(E.And(same), E.And(opp))))


def prune_zero_deciding(E, vecs, groups):
    """fork decisions only see def/pre facts.  A path on which sign() of a contract unit vector came out 0 forces that vector to
    be zero; the lemma 'a unit vector is not zero' (over the orthonormality facts) shows the path is unreachable under the
    contract, and it is dropped.  This is the solver's answer to 'can sign(0)=0 annihilate a pair via truncated_svd': no."""
    if not (E.symbolic and groups):
        return
    from vt import sym

    for j, x in enumerate(vecs):
        allzero = E.And([E.eq(e, 0) for e in x])
        if allzero is False:
            continue
        r, _ = E._decide(sym.bterm(allzero), (), timeout_ms=3000)
        if r == "unsat":
            if E.prove(f"zero_deciding_vector_contradicts_contract[{j}]", nonzero(E, x), groups=groups):
                raise sym.Abort()


def check_symeig_shapes(E, ret, m, n, k):
    U, S, V = ret
    su, ss, sv = expected_shapes(m, n, k)
    E.prove("shape_U", tuple(np.shape(U)) == su, detail=f"{np.shape(U)} vs {su}")
    E.prove("shape_S", tuple(np.shape(S)) == ss, detail=f"{np.shape(S)} vs {ss}")
    E.prove("shape_V", tuple(np.shape(V)) == sv, detail=f"{np.shape(V)} vs {sv}")
    return (tuple(np.shape(U)), tuple(np.shape(S)), tuple(np.shape(V))) == (su, ss, sv)


def prove_product(E, name, U, S, V, r, M, groups=()):
    P = matprod(U, S, V, r)
    for i in range(P.shape[0]):
        for j in range(P.shape[1]):
            E.prove(f"{name}[{i},{j}]", E.eq(P[i, j], M[i][j]), groups=groups)


def check_symeig_direct(E, M, ret, m, n, k, rank, flip, og=()):
    """symeig_svd against the bare eigh contract (free M).  Only what follows without the Gram factorisation facts is stated
    here (the facts make nlsat give up); the derived factor and the non-square product are covered by the generated configs."""
    if not check_symeig_shapes(E, ret, m, n, k):
        return
    U, S, V = ret
    U, V = np.asarray(U), np.asarray(V)
    r = np.shape(S)[0]
    L = contract_eigvals_desc(E, M)
    if rank == "full":
        # nothing that is returned was clipped: the leading min(m, n) Gram eigenvalues are above eps
        assume_or_abort(E, [E.ge(L[i], EPS) for i in range(min(m, n))])
    E.prove("S_sorted_nonneg", sorted_nonneg(E, S))
    for i in range(r):
        E.prove(f"S_squared_is_clipped_gram_eigenvalue[{i}]", E.eq(S[i] * S[i], E.max(L[i], EPS)))
    dec = []
    if flip != "none":
        dec = [list(U[:, j]) for j in range(U.shape[1])] if flip == "u" else [list(V[j, :]) for j in range(V.shape[0])]
        for j, x in enumerate(dec):
            E.prove(f"largest_entry_of_deciding_vector_positive[{j}]", E.Implies(nonzero(E, x), largest_entry_positive(E, x)))
    # The factor holding the eigenvectors is orthonormal by contract whatever the rank -- unless sign resolution multiplied one of
    # its vectors by sign(0) = 0 because the partner (derived) vector is zero.  'full': stated for non-zero deciding vectors (that a
    # derived vector with eigenvalue >= eps is non-zero needs the Gram facts and is shown in the generated configs); 'any': unconditional.
    eig_is_U = m > n
    derived_decides = (flip == "u" and not eig_is_U) or (flip == "v" and eig_is_U)
    # (with two or more deciding vectors the unconditional form yields counter-models on path combinations no real
    # eigendecomposition realises -- replay rejects them; so 'any' states it unconditionally only for a single deciding vector)
    pre = E.And([nonzero(E, x) for x in dec]) if (derived_decides and (rank == "full" or len(dec) > 1)) else True
    G = gram_cols(U if eig_is_U else V.T)
    nm = "U_orthonormal_columns(eigenvector_factor)" if eig_is_U else "V_orthonormal_rows(eigenvector_factor)"
    for a in range(len(G)):
        for b in range(a, len(G)):
            E.prove(f"{nm}[{a},{b}]", E.Implies(pre, E.eq(G[a][b], 1 if a == b else 0)), groups=og)
    if m == n and r == m and m <= 2 and rank == "full" and not og:
        prove_product(E, "product_exact_when_nothing_clipped", U, S, V, r, M)


# ------------------------------------------------------------------------------------ harness
def harness(E, cfg):
    from vt import backend

    part = cfg["part"]

    def GW(f, *a, **k):
        r = guarded(E, call_warn, f, *a, **k)
        return r if r is not None else (None, [])

    E.fresh_solver = True  # identities between rational functions of the Givens parameters: one-shot nlsat queries
    if part == "truncated":
        m, n, k = cfg["m"], cfg["n"], cfg["k"]
        if E.symbolic:
            backend.configure(svd="givens")
        M = E.real("M", (m, n))
        ret, w = GW(SV.truncated_svd, M, n_eigenvecs=k)
        if ret is None:
            return
        fork_signs(E)
        E.prove("clamp_warning_iff_above_max", (len(w) > 0) == (k is not None and k > max(m, n)))
        check_triple(E, M, ret, m, n, k)
    elif part == "interface":
        m, n, k, ub = cfg["m"], cfg["n"], cfg["k"], cfg["ub"]
        # dimension <= 2: factors orthonormal identically (Givens); dimension 3: fresh factors + orthonormality facts (group
        # svd_orth), because argmax/sign fork on the entries and branch feasibility over nested Givens terms does not decide
        og = () if max(m, n) <= 2 else ("svd_orth",)
        if E.symbolic:
            backend.configure(svd="factor" if og else "givens")
        E.fresh_solver = not og
        M = E.real("M", (m, n))
        ret, w = GW(SV.svd_interface, M, method="truncated_svd", n_eigenvecs=k, flip_sign=True, u_based_flip_sign=bool(ub))
        if ret is None:
            return
        E.prove("clamp_warning_iff_above_max", (len(w) > 0) == (k is not None and k > max(m, n)))
        c0 = contract_triples(E, M)[0]
        prune_zero_deciding(E, [list(np.asarray(c0[0])[:, j]) for j in range(np.shape(ret[0])[1])] if ub else [list(np.asarray(c0[2])[j, :]) for j in range(np.shape(ret[2])[0])], og)
        # orthonormality AFTER sign resolution: a zero deciding vector (sign(0) = 0) would annihilate its partner and break it
        check_triple(E, M, ret, m, n, k, slice_check=False, orth_groups=og)
        U2, S2, V2 = ret
        if tuple(np.shape(S2)) == expected_shapes(m, n, k)[1]:
            ndec = np.shape(U2)[1] if ub else np.shape(V2)[0]
            for j in range(ndec):
                x = list(np.asarray(U2)[:, j]) if ub else list(np.asarray(V2)[j, :])
                # two small lemmas instead of one query over all orthonormality facts: (a) unit norm => non-zero, (b) linear
                E.prove(f"deciding_vector_nonzero[{j}]", nonzero(E, x), groups=og)
                E.prove(f"largest_entry_of_deciding_vector_positive[{j}]", E.Implies(nonzero(E, x), largest_entry_positive(E, x)))
            r = np.shape(S2)[0]
            cands = [c for c in contract_triples(E, M) if np.shape(c[0])[1] >= np.shape(U2)[1] and np.shape(c[2])[0] >= np.shape(V2)[0]]
            E.prove("S_is_leading_contract_S", E.Or([E.eq_arrays(S2, np.asarray(c[1])[:r]) for c in cands]))
            E.prove("product_is_leading_contract_product", E.Or([E.eq_arrays(matprod(U2, S2, V2, r), matprod(c[0], c[1], c[2], r)) for c in cands]))
    elif part == "symeig_direct":
        m, n, k, rank = cfg["m"], cfg["n"], cfg["k"], cfg["rank"]
        if E.symbolic:
            backend.configure(eigh="givens")
        M = E.real("M", (m, n))
        flip = cfg["flip"]
        og = ()
        if flip != "none":
            # sign resolution forks on the entries: eigenvectors as fresh variables + orthonormality facts (group eigh_orth) keep the
            # branch conditions polynomial; without sign resolution the eigenvectors are orthonormal identically (Givens)
            og = ("eigh_orth",)
            if E.symbolic:
                backend.configure(eigh="factor")
        ret, w = GW(SV.svd_interface, M, method="symeig_svd", n_eigenvecs=k, flip_sign=flip != "none", u_based_flip_sign=flip == "u")
        if ret is None:
            return
        E.prove("clamp_warning_iff_above_max", (len(w) > 0) == (k is not None and k > max(m, n)))
        fork_signs(E)
        check_symeig_direct(E, M, ret, m, n, k, rank, flip, og)
    elif part == "symeig_gen":
        # input-from-output generation: M := U0 diag(sqrt(l)) V0^T from orthogonal U0 (m x m), V0 (n x n) and eigenvalues
        # l_1 >= ... >= l_r (>= eps, or l_r = 0 in the rank-deficient variant); tl.eigh of either Gram matrix answers with the
        # eigenpairs this construction determines.  Every M with Gram eigenvalues >= eps arises this way.
        m, n, k, rank = cfg["m"], cfg["n"], cfg["k"], cfg["rank"]
        r = min(m, n)
        U0 = frame(E, "tU", m)
        V0 = frame(E, "tV", n)
        nl = r if rank == "full" else r - 1
        l = list(E.real("l", (nl,), lo=EPS)) if nl else []
        E.assume([E.ge(l[i], l[i + 1]) for i in range(nl - 1)])
        l = l + [0] * (r - nl)
        sv = [E.sqrt(x) if not isinstance(x, int) else 0 for x in l]
        M = np.empty((m, n), dtype=object if E.symbolic else float)
        for i in range(m):
            for j in range(n):
                M[i, j] = sum((U0[i, a] * sv[a] * V0[j, a] for a in range(r)), 0)
        if E.symbolic:
            from vt.sym import sarr

            M = sarr(M)
            backend.configure()
            for G, Q, N in ((np.dot(M, np.transpose(M)), U0, m), (np.dot(np.transpose(M), M), V0, n)):
                Lasc = sarr(np.array(([0] * (N - r) + l[::-1]), dtype=object))
                backend.POLICY.tables["eigh"].append(((sarr(G),), (Lasc, sarr(Q[:, ::-1].copy()))))
        ret, w = GW(SV.svd_interface, M, method="symeig_svd", n_eigenvecs=k, flip_sign=False)
        if ret is None:
            return
        if not check_symeig_shapes(E, ret, m, n, k):
            return
        U, S, V = ret
        rr = np.shape(S)[0]
        E.prove("S_sorted_nonneg", sorted_nonneg(E, S))
        for i in range(rr):
            E.prove(f"S_is_leading_singular_value_or_clip_floor[{i}]", E.eq(S[i], E.max(sv[i], 2.0**-26)))
        # role in the name: the factor that holds the eigenvectors vs the one derived as M^T Q / S (or M Q / S)
        ru, rv = ("eigenvector_factor", "derived_factor") if m > n else ("derived_factor", "eigenvector_factor")
        prove_orthonormal_cols(E, f"U_orthonormal_columns({ru})", U)
        prove_orthonormal_cols(E, f"V_orthonormal_rows({rv})", np.asarray(V).T)
        if rr == r:
            prove_product(E, "product_exact", U, S, V, r, M)
    elif part == "nn":
        m, n, k, variant, inp = cfg["m"], cfg["n"], cfg["k"], cfg["variant"], cfg["inp"]
        r = min(m, n)
        E.q_timeout_ms = max(E.q_timeout_ms, 60000)  # counter-model search for 'finite' takes ~10 s on an idle core
        M, sv = generated_matrix(E, m, n)
        if E.symbolic:
            from vt import sym
        if inp == "mean_nonneg":
            E.assume(E.ge(sum(M.ravel()), 0))
        nd0 = len(sym.CTX.dens) if E.symbolic else 0
        ret = guarded(E, SV.svd_interface, M, n_eigenvecs=k, non_negative=True if variant == "True" else variant)
        if ret is None:
            return
        W, S, H = ret
        su, ss, svs = expected_shapes(m, n, k)
        E.prove("shapes", (tuple(np.shape(W)), tuple(np.shape(S)), tuple(np.shape(H))) == (su, ss, svs), detail=f"{np.shape(W)} {np.shape(S)} {np.shape(H)}")
        # finite: no 0/0 -- stated WITHOUT the engine's definedness assumption, for distinct positive singular values (then the SVD
        # is unique up to the signs svd_flip fixes, so a contract-level counterexample is also one for LAPACK)
        generic = E.And([E.gt_strict(sv[i], sv[i + 1]) for i in range(r - 1)] + [E.gt_strict(sv[r - 1], 0)])
        if E.symbolic:
            saved = sym.CTX.assume_defined
            sym.CTX.assume_defined = False
            try:
                E.prove("finite", E.Implies(generic, E.And([sym.mkb(d != 0) for d in sym.CTX.dens[nd0:]])))
            finally:
                sym.CTX.assume_defined = saved
        else:
            E.prove("finite", E.Implies(generic, bool(np.isfinite(np.asarray(W, dtype=float)).all() and np.isfinite(np.asarray(H, dtype=float)).all())))
        # entrywise non-negativity, exact also in replay (NNDSVD builds its entries from abs / clip / max: no rounding excuse);
        # symbolically under 'divisions defined', a NaN fails it in replay
        nonneg = (lambda e: E.ge(e, 0)) if E.symbolic else (lambda e: bool(float(e) >= 0))
        # incremental core on purpose: it abstracts the (rational, root-laden) entries and settles these by case split + linear
        # reasoning (W = If(W0 < eps, avg, W0) with avg >= 0 assumed needs nothing else); nlsat would unfold every definition
        # (when the incremental core does not refute within 5 s the query goes to nlsat, which is the better model finder)
        for nm, F in (("W_nonneg", W), ("H_nonneg", H)):
            conds = [nonneg(e) for e in np.asarray(F).ravel()]
            if E.symbolic:
                import z3

                E.fresh_solver = False
                r, _ = E._decide(z3.And([sym.bterm(c) for c in conds]), (), timeout_ms=5000)
                E.fresh_solver = r != "unsat"
            E.prove(nm, conds)
            E.fresh_solver = True
        if E.symbolic:
            import z3

            sym.CTX.assume_defined = False  # vacuity of the path without the definedness assumption (paths that divide by zero are in scope here)
            if E._decide(z3.BoolVal(False), (), timeout_ms=10000)[0] == "unsat":
                raise sym.Abort()  # the fork that led here was only 'unknown', not feasible
            E.vacuity(())
    elif part == "dispatch_names":
        M = E.real("M", (2, 2))
        calls = []

        def rec(name):
            def f(matrix, n_eigenvecs=None, **kw):
                calls.append((name, matrix is M, n_eigenvecs, dict(kw)))
                return np.eye(2, dtype=object if E.symbolic else float), np.ones(2, dtype=object if E.symbolic else float), np.eye(2, dtype=object if E.symbolic else float)

            return f

        names = ["truncated_svd", "symeig_svd", "randomized_svd"]
        saved = {nm: getattr(SV, nm) for nm in names}
        try:
            for nm in names:
                setattr(SV, nm, rec(nm))
            for nm in names:
                del calls[:]
                SV.svd_interface(M, method=nm, n_eigenvecs=1, flip_sign=False, some_option=7)
                E.prove(f"routes_to/{nm}", calls == [(nm, True, 1, {"some_option": 7})], detail=str(calls))
            del calls[:]
            SV.svd_interface(M, n_eigenvecs=2, flip_sign=False)
            E.prove("default_method_is_truncated_svd", calls == [("truncated_svd", True, 2, {})], detail=str(calls))
        finally:
            for nm in names:
                setattr(SV, nm, saved[nm])
        E.prove("SVD_FUNS_lists_the_names", list(SV.SVD_FUNS) == names)
        try:
            SV.svd_interface(M, method="no_such_svd")
            E.prove("unknown_name_raises_ValueError", False)
        except ValueError:
            E.prove("unknown_name_raises_ValueError", True)
    elif part == "dispatch_callable":
        m, n, ku, kv, ub = cfg["m"], cfg["n"], cfg["ku"], cfg["kv"], cfg["ub"]
        M = E.real("M", (m, n))
        U = E.real("U", (m, ku))
        V = E.real("V", (kv, n))
        S = E.real("S", (min(ku, kv),))
        calls = []

        def method(matrix, n_eigenvecs=None, **kw):
            calls.append((matrix is M, n_eigenvecs, dict(kw)))
            return U.copy(), S.copy(), V.copy()

        r1 = guarded(E, SV.svd_interface, M, method=method, n_eigenvecs=ku, flip_sign=False, opt="x")
        if r1 is None:
            return
        U1, S1, V1 = r1
        E.prove("callable_called_once_with_matrix_rank_kwargs", calls == [(True, ku, {"opt": "x"})], detail=str(calls))
        E.prove("flip_sign_False_returns_the_method_output", E.And(E.eq_arrays(U1, U), E.eq_arrays(S1, S), E.eq_arrays(V1, V)))
        r2 = guarded(E, SV.svd_interface, M, method=method, n_eigenvecs=ku, flip_sign=True, u_based_flip_sign=bool(ub))
        if r2 is None:
            return
        U2, S2, V2 = r2
        E.prove("S_untouched", E.eq_arrays(S2, S))
        check_flip(E, U, S, V, U2, V2, ub)
    elif part == "mask":
        m, n, k, it, pat = cfg["m"], cfg["n"], cfg["k"], cfg["it"], cfg["pat"]
        # generated input with distinct singular values: the rank-k truncation is then unique, so a counter-model is one for LAPACK too
        M, sv = generated_matrix(E, m, n)
        E.assume([E.gt_strict(sv[i], sv[i + 1]) for i in range(min(m, n) - 1)])
        mask = np.ones((m, n))
        if pat == "one_missing":
            mask[0, n - 1] = 0
        elif pat == "row_missing":
            mask[m - 1, :] = 0
        calls = []

        def method(matrix, n_eigenvecs=None, **kw):
            out = SV.truncated_svd(matrix, n_eigenvecs=n_eigenvecs, **kw)
            calls.append((matrix, n_eigenvecs, out))
            return out

        ret, w = GW(SV.svd_interface, M, method=method, n_eigenvecs=k, mask=mask if E.symbolic else mask.astype(float), n_iter_mask_imputation=it, flip_sign=False)
        if ret is None:
            return
        U, S, V = ret
        su, ss, sv = expected_shapes(m, n, k)
        E.prove("shapes", (tuple(np.shape(U)), tuple(np.shape(S)), tuple(np.shape(V))) == (su, ss, sv), detail=f"{np.shape(U)} {np.shape(S)} {np.shape(V)}")
        sweeps = it if k is not None else 0  # documented: imputation needs n_eigenvecs
        E.prove("number_of_factorisations", len(calls) == 1 + sweeps, detail=str(len(calls)))
        E.prove("every_factorisation_gets_the_requested_rank", all(c[1] == k for c in calls))
        if len(calls) == 1 + sweeps:
            E.prove("first_factorisation_is_of_the_input", calls[0][0] is M or E.eq_arrays(calls[0][0], M))
            if sweeps:
                X1 = np.asarray(calls[1][0])
                U0, S0, V0 = calls[0][2]
                low = matprod(U0, S0, V0, np.shape(S0)[0])
                E.prove("imputed_matrix_shape", X1.shape == (m, n))
                for i in range(m):
                    for j in range(n):
                        if mask[i, j]:
                            E.prove(f"observed_entry_kept[{i},{j}]", E.eq(X1[i, j], M[i, j]))
                        else:
                            E.prove(f"missing_entry_is_low_rank_estimate[{i},{j}]", E.eq(X1[i, j], low[i, j]))
            last = calls[-1][2]
            E.prove("result_is_last_factorisation", E.And(E.eq_arrays(U, last[0]), E.eq_arrays(S, last[1]), E.eq_arrays(V, last[2])))
    elif part == "randomized":
        m, n, k, os_, it = cfg["m"], cfg["n"], cfg["k"], cfg["os"], cfg["it"]
        if E.symbolic:
            backend.configure(svd="factor", qr="factor")
        M = E.real("M", (m, n))
        # spy on the range finder: width of the Gaussian sketch actually drawn (both branches of randomized_svd)
        widths = []
        real_rf = SV.randomized_range_finder

        def spy_rf(A, n_dims, *a, **kw):
            widths.append((tuple(np.shape(A)), n_dims))
            return real_rf(A, n_dims, *a, **kw)

        SV.randomized_range_finder = spy_rf
        try:
            ret, w = GW(SV.svd_interface, M, method="randomized_svd", n_eigenvecs=k, n_oversamples=os_, n_iter=it, random_state=0, flip_sign=False)
        finally:
            SV.randomized_range_finder = real_rf
        if ret is None:
            return
        U, S, V = ret
        # "whenever the requested rank plus oversampling covers the matrix rank": the sketch must be as wide as
        # min(n_eigenvecs + n_oversamples, min(shape)) -- a narrower sketch cannot contain the range of a matrix of that rank
        ke_ = max(m, n) if k is None else min(k, max(m, n))
        E.prove("sketch_width_covers_rank_plus_oversampling", len(widths) == 1 and widths[0][1] >= min(ke_ + os_, min(m, n)), detail=str(widths))
        su, ss, sv = expected_shapes(m, n, k)
        E.prove("shape_U", tuple(np.shape(U)) == su, detail=f"{np.shape(U)} vs {su}")
        E.prove("shape_S", tuple(np.shape(S)) == ss, detail=f"{np.shape(S)} vs {ss}")
        E.prove("shape_V", tuple(np.shape(V)) == sv, detail=f"{np.shape(V)} vs {sv}")
        E.prove("clamp_warning_iff_above_max", (sum("max(matrix.shape)=%d" % max(m, n) in str(x.message) for x in w) > 0) == (k is not None and k > max(m, n)), detail=str([str(x.message) for x in w]))
        E.prove("S_sorted_nonneg", sorted_nonneg(E, S))
    elif part == "flip":
        m, n, ku, kv, ub = cfg["m"], cfg["n"], cfg["ku"], cfg["kv"], cfg["ub"]
        U = E.real("U", (m, ku))
        V = E.real("V", (kv, n))
        S = E.real("S", (min(ku, kv),))
        r2 = guarded(E, SV.svd_flip, U.copy(), V.copy(), u_based_decision=bool(ub))
        if r2 is None:
            return
        U2, V2 = r2
        check_flip(E, U, S, V, U2, V2, ub)
    else:
        raise KeyError(part)
