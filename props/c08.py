"""C08 -- decomposition outputs honour requested structure and canonical form.

(a) shapes / ranks / boundary conditions of every returned factor (concrete per configuration; entries symbolic so that value-dependent
    exits are all explored);  (b) with Givens-generated (identically orthonormal) SVD outputs: HOOI factors orthonormal and core == X x^T U,
    all but the last TT-SVD core left-orthogonal, PARAFAC2 projections orthonormal with one shared cross-product;  (c) the normalisation
    contract on BOTH exits of the CP loops: the tolerance is a symbolic value, so the convergence `break` and the iteration-cap exit are
    both feasible paths of the same run."""
import itertools

import numpy as np

import tensorly as tl

from props.c06 import dense_cp, dense_tucker, sq, stub_orthonormal_svd, stub_svd_interface

PID = "C08"
ENGINE = "E1"
EXPLANATION = (
    "The real decomposition entry points are executed symbolically (data, initial factors and the tolerance are solver variables; LAPACK kernels are "
    "havoc'd, or Givens-generated where orthonormality is the subject) and, on every feasible path -- in particular on both the convergence-break and "
    "the iteration-cap exit -- the returned object is checked: factor shapes/ranks/boundary ranks against the mode sizes and the clipped requested ranks, "
    "unit-norm columns with the scale in the weights when normalisation is requested (weights == 1 otherwise), orthonormal HOOI factors with core == X x^T U, "
    "left-orthogonal TT-SVD cores, orthonormal PARAFAC2 projections and a shared cross-product."
)
ENCODED = [
    "tensorly.decomposition._cp.parafac",
    "tensorly.decomposition._nn_cp.non_negative_parafac",
    "tensorly.decomposition._nn_cp.non_negative_parafac_hals",
    "tensorly.decomposition._tucker.tucker",
    "tensorly.decomposition._tucker.partial_tucker",
    "tensorly.decomposition._tt.tensor_train",
    "tensorly.decomposition._tt.tensor_train_matrix",
    "tensorly.decomposition._tr_svd.tensor_ring",
    "tensorly.decomposition._parafac2.parafac2",
    "tensorly.decomposition._parafac2._compute_projections",
    "tensorly.decomposition._tucker.non_negative_tucker",
    "tensorly.decomposition._tucker.non_negative_tucker_hals",
    "tensorly.tucker_tensor.tucker_normalize",
    "tensorly.decomposition._tr_als.tensor_ring_als",
    "tensorly.decomposition._constrained_cp.constrained_parafac",
    "tensorly.decomposition._cp.randomised_parafac",
    "tensorly.decomposition._cmtf_als.coupled_matrix_tensor_3d_factorization",
    "tensorly.cp_tensor.cp_normalize",
    "tensorly.cp_tensor.validate_cp_rank",
    "tensorly.tucker_tensor.validate_tucker_rank",
    "tensorly.tt_tensor.validate_tt_rank",
    "tensorly.tr_tensor.validate_tr_rank",
]
BOUNDS = {
    "quick": "orders 2-4, mode sizes 2-3, ranks given as int or list (1..3), n_iter_max in {1,2,3} (0 for SVD/random init), symbolic tolerance, both CP convergence criteria; non-negative Tucker (both variants) 2x2 rank 2, 3 sweeps, both exits; TR-ALS / constrained / randomised CP / CMTF one or two sweeps on 2x2(x2)",
    "thorough": "same with n_iter_max up to 4 and rank 2 normalised CP on order 3",
}
OUTSIDE = [
    "rank specifications 'same' / fractions (np.round, np.sqrt, brentq in float arithmetic: compiled, not encoded)",
    "columns whose norm is exactly zero at a normalisation step (covered by C04's cp_normalize obligations)",
    "that the SVD kernel returns the true singular vectors (contract: arbitrary orthonormal frames)",
    "multiplicative non-negative CP with normalisation on order-3 tensors after 2 sweeps: unit-norm obligation left `unknown` after 10 min (order 2, and order 3 at zero sweeps, are decided)",
]
TRUSTED = ["z3", "havoc / Givens kernel stubs", "denominator clearing (vt/ratnorm.py) under non-zero denominators"]
ASSUMPTIONS = ["real arithmetic", "column norms met by cp_normalize are non-zero (asserted as a precondition on the interned root atoms)"]


def configs(tier):
    q = tier == "quick"
    out = []

    def add(fam, **kw):
        key = fam + "".join(f"/{k}={v}" for k, v in kw.items())
        d = dict(key=key, fam=fam, **kw)
        d.setdefault("mode", "fork")
        d["timeout_s"] = 170 if q else 1200
        out.append(d)

    for alg in ("parafac", "nn_parafac", "nn_parafac_hals"):
        for shp, R in [((2, 2), 1), ((2, 2, 2), 1), ((2, 2), 2)] + ([] if q else [((2, 2, 2), 2), ((3, 2, 2), 1)]):
            if alg == "nn_parafac" and R > 1:
                continue  # merged clip terms nested over 3 sweeps at rank 2 do not decide within the budget
            for norm in (0, 1):
                for crit in ("abs_rec_error", "rec_error"):
                    if crit == "rec_error" and (R == 2 or len(shp) == 3):
                        continue
                    if alg == "nn_parafac" and norm and len(shp) == 3:
                        continue  # measured: 10 min and still `unknown` (merged clip terms under the column norms): outside the claim
                    add("cp_exits", alg=alg, shape=shp, R=R, norm=norm, crit=crit, K=2 if (alg == "nn_parafac" or q) else 3, init="user", mode="merge" if alg == "nn_parafac" else "fork")  # quick: 2 sweeps already reach both exits
        md = "merge" if alg == "nn_parafac" else "fork"
        add("cp_exits", alg=alg, shape=(2, 2, 2), R=1, norm=1, crit="abs_rec_error", K=0, init="svd", mode=md)
        add("cp_exits", alg=alg, shape=(2, 2, 2), R=2, norm=1, crit="abs_rec_error", K=1, init="random", mode=md)
        add("cp_exits", alg=alg, shape=(2, 2, 2), R=2, norm=0, crit="abs_rec_error", K=1, init="svd", mode=md)
    for shp, rank in [((2, 2), 1), ((2, 2), [2, 1]), ((2, 2, 2), 1), ((2, 2, 2), [2, 1, 1]), ((2, 2, 2), [2, 2, 1]), ((3, 2, 2), [1, 2, 1]), ((2, 3, 2), [2, 1, 2])] + ([] if q else [((2, 2, 2), 2)]):
        for K in (1, 2):
            add("tucker", shape=shp, rank=rank, K=K)
    add("tucker_partial", shape=(2, 2, 2), rank=[2, 1], modes=(0, 2), K=1)
    add("tucker_partial", shape=(2, 3, 2), rank=[1, 2], modes=(2, 1), K=2)
    for shp, rank in [((2, 2), 1), ((2, 2), 2), ((2, 2, 2), 1), ((2, 2, 2), 2), ((2, 2, 2), [1, 2, 1, 1]), ((2, 3, 2), [1, 2, 2, 1]), ((3, 2, 2), 3), ((2, 2, 2, 2), 2), ((2, 2, 2), 5)] + [((2, 2, 1), 2), ((2, 1), 1), ((2, 2, 1, 1), 2), ((1, 2, 2), 2)]:  # singleton modes: leading, trailing, repeated
        add("tt", shape=shp, rank=rank)
    for shp, rank in [((2, 2, 2, 2), 2), ((2, 2, 2, 2), [1, 3, 1]), ((2, 2), 1)]:
        add("tt_matrix", shape=shp, rank=rank)
    # non-negative Tucker variants: shapes, and unit-norm factor columns on BOTH exits when normalisation is requested
    for alg in ("nn_tucker", "nn_tucker_hals"):
        for shp, R in [((2, 2), 2)] + ([] if q else [((2, 2), 1), ((2, 2, 2), 1)]):  # (rank 1 on a matrix keeps unit norms by coincidence)
            for norm in (0, 1):
                for tolk in (("huge",) if (q and alg == "nn_tucker") else ("sym", "huge")) if norm else ("sym",):  # (nn_tucker with a symbolic tol: 70-290 s, thorough only)
                    # tol "huge" (1e6): the convergence exit is taken at the first opportunity on every input, so a violation found on
                    # that exit replays on any concrete data (with a symbolic tol the replay rarely follows the stubbed run's exit)
                    add("tucker_nn", alg=alg, shape=shp, R=R, norm=norm, tol=tolk, K=3, mode="fork" if alg == "nn_tucker_hals" else "merge")
    # further decompositions: shapes / boundary ranks / weights, and normalisation of both CMTF outputs
    add("more", alg="tr_als", shape=(2, 2, 2), rank=[2, 1, 2, 2], mode="merge")
    add("more", alg="tr_als", shape=(2, 3, 2), rank=[1, 2, 1, 1], mode="merge")
    add("more", alg="constrained", shape=(2, 2, 2), rank=2, mode="merge")
    add("more", alg="randomised", shape=(2, 2), rank=2, mode="fork")
    add("more", alg="cmtf", shape=(2, 2, 2), rank=1 if q else 2, norm=1, mode="fork")
    if not q:
        add("more", alg="cmtf", shape=(2, 2, 2), rank=1, norm=0, mode="fork")
    for shp, rank, mode in [((2, 2, 2), 1, 0), ((2, 2, 2), [1, 2, 1, 1], 0), ((4, 2, 2), [2, 2, 1, 2], 0), ((2, 4, 2), [1, 2, 2, 1], 1), ((2, 2, 4), [2, 1, 2, 2], 2), ((2, 2, 2), 2, 0)]:
        add("tr", shape=shp, rank=rank, mode_=mode)
    for rows, J, R in [((2, 2), 2, 1), ((2, 3), 2, 1), ((2, 2), 2, 2)] + ([] if q else [((3, 2), 3, 2)]):
        for norm in (0, 1):
            add("parafac2", rows=rows, J=J, R=R, norm=norm, K=2)
        if R == 1 or max(rows) == 2:
            add("parafac2", rows=rows, J=J, R=R, norm=0, K=1, init="user_w")
    return out


def harness(E, cfg):
    globals()["h_" + cfg["fam"]](E, cfg)


# ------------------------------------------------------------------------------------------ CP exits
def wrap_nonzero(real):
    """the real cp_normalize, run under the precondition that every column norm it meets is non-zero (zero columns: C04)"""
    from vt import sym

    def wrapped(cp_tensor):
        w, fs = cp_tensor
        for i, f in enumerate(fs):
            if i == 0 and w is not None:
                f = f * w  # cp_normalize absorbs the weights into the first factor before measuring it
            nrm = tl.norm(f, 2, axis=0)
            for v in np.asarray(nrm, dtype=object).ravel():
                if isinstance(v, sym.SR) and v.c is None:
                    sym.CTX.assume_nonzero(v.t)
        return real(cp_tensor)

    return wrapped


def stub_hals(UtM, UtU, V=None, *a, **k):
    """contract of hals_nnls established by C13/C10: some entrywise non-negative array of the right shape (functional)"""
    from vt import backend

    shape = np.shape(UtM)
    hit = backend._lookup("hals", (UtM, UtU) + ((V,) if V is not None else ()))
    if hit is None:
        hit = backend._record("hals", (UtM, UtU) + ((V,) if V is not None else ()), backend.fresh_array("hals", shape, nn=True))
    return hit.copy()


def h_cp_exits(E, cfg):
    from vt import backend, sym
    import tensorly.decomposition._cp as _cp
    import tensorly.decomposition._nn_cp as _nn
    from tensorly.decomposition import parafac, non_negative_parafac, non_negative_parafac_hals

    alg, shp, R, norm, crit, K, init = cfg["alg"], cfg["shape"], cfg["R"], cfg["norm"], cfg["crit"], cfg["K"], cfg["init"]
    fn = {"parafac": parafac, "nn_parafac": non_negative_parafac, "nn_parafac_hals": non_negative_parafac_hals}[alg]
    if E.symbolic:
        backend.configure(solve="havoc", svd="havoc", qr="havoc")
        real = _cp.cp_normalize
        wrapped = wrap_nonzero(real)
        backend.patch(_cp, "cp_normalize", wrapped)
        backend.patch(_nn, "cp_normalize", wrapped)
        backend.patch(_cp, "svd_interface", stub_svd_interface)
        backend.patch(_nn, "hals_nnls", stub_hals)
    nonneg = alg != "parafac"
    X = E.real("X", shp, nn=nonneg)
    E.assume(E.Or([E.nonzero(x) for x in np.asarray(X, dtype=object).ravel()]))
    kw = dict(n_iter_max=K, normalize_factors=bool(norm), cvg_criterion=crit)
    if K > 0:
        kw["tol"] = E.real("tol", pos=True)
    if init == "user":
        F0 = [E.real(f"F{k}", (n, R), pos=nonneg) for k, n in enumerate(shp)]
        kw["init"] = (None, [np.array(f) for f in F0])
    elif init == "svd":
        kw["init"] = "svd"
    else:
        kw["init"] = "random"
        kw["random_state"] = 11
    res = fn(np.array(X), R, **kw)
    w, fs = res
    ok_shape = len(fs) == len(shp) and all(np.shape(f) == (n, R) for f, n in zip(fs, shp)) and (w is None or np.shape(w) == (R,))
    E.prove("shapes", ok_shape)
    if norm:
        conds = []
        for k, f in enumerate(fs):
            f = np.asarray(f, dtype=object)
            for r in range(R):
                conds.append(E.eq(sum(f[i, r] * f[i, r] for i in range(f.shape[0])), 1))
        E.prove("unit_norm_columns", conds)
    else:
        E.prove("weights_are_ones", True if w is None else [E.eq(w[r], 1) for r in range(R)])


# ------------------------------------------------------------------------------------------ Tucker
def _orth_cols(E, U):
    U = np.asarray(U, dtype=object)
    G = np.dot(U.T, U)
    return E.eq_arrays(G, np.eye(U.shape[1], dtype=object if E.symbolic else float))


def h_tucker(E, cfg):
    from vt import backend
    import tensorly.decomposition._tucker as _tk
    from tensorly.decomposition import tucker

    shp, rank, K = cfg["shape"], cfg["rank"], cfg["K"]
    if E.symbolic:
        backend.patch(_tk, "svd_interface", stub_orthonormal_svd)
    X = E.real("X", shp)
    core, factors = tucker(np.array(X), rank=rank, n_iter_max=K, tol=0)
    rk = [rank] * len(shp) if isinstance(rank, int) else list(rank)
    rk = [min(r, n) if False else r for r, n in zip(rk, shp)]
    E.prove("shapes", tuple(np.shape(core)) == tuple(rk) and all(np.shape(f) == (n, r) for f, n, r in zip(factors, shp, rk)))
    E.prove("factors_orthonormal", [_orth_cols(E, f) for f in factors])
    # core is the projection of the data on the factors: core = X x_k U_k^T
    spec = dense_tucker(np.asarray(X, dtype=object), [np.asarray(f, dtype=object).T for f in factors])
    E.prove_eq("core_is_projection", core, spec)


def h_tucker_partial(E, cfg):
    from vt import backend
    import tensorly.decomposition._tucker as _tk
    from tensorly.decomposition import partial_tucker

    shp, rank, modes, K = cfg["shape"], cfg["rank"], cfg["modes"], cfg["K"]
    if E.symbolic:
        backend.patch(_tk, "svd_interface", stub_orthonormal_svd)
    X = E.real("X", shp)
    (core, factors), errs = partial_tucker(np.array(X), rank=list(rank), modes=list(modes), n_iter_max=K, tol=0)
    exp_core = list(shp)
    for m, r in zip(modes, rank):
        exp_core[m] = r
    E.prove("shapes", tuple(np.shape(core)) == tuple(exp_core) and all(np.shape(f) == (shp[m], r) for f, m, r in zip(factors, modes, rank)) and len(errs) == K)
    E.prove("factors_orthonormal", [_orth_cols(E, f) for f in factors])
    spec = dense_tucker(np.asarray(X, dtype=object), [np.asarray(f, dtype=object).T for f in factors], modes)
    E.prove_eq("core_is_projection", core, spec)


def h_tucker_nn(E, cfg):
    """non_negative_tucker / non_negative_tucker_hals: shapes; with normalize_factors=True every factor column has unit norm whichever
    way the loop was left (the tolerance is symbolic: the convergence exit from the third sweep on and the iteration cap are both explored)"""
    from vt import backend, sym
    import tensorly.decomposition._tucker as _tk
    import tensorly.tucker_tensor as _tt
    from tensorly.decomposition import non_negative_tucker, non_negative_tucker_hals
    from props.c06 import _fresh_stub

    alg, shp, R, norm, K = cfg["alg"], cfg["shape"], cfg["R"], cfg["norm"], cfg["K"]
    rank = [R] * len(shp)
    if E.symbolic:
        backend.configure(solve="havoc", svd="havoc")
        backend.patch(_tk, "hals_nnls", _fresh_stub("hals"))
        backend.patch(_tk, "fista", lambda UtM, UtU, x=None, **k: _fresh_stub("fista", shape_from=0)(UtM, *([x] if x is not None else [])))
        real_norm = _tt.tucker_normalize

        def norm_nonzero(tucker_tensor):
            # precondition: the column norms met by tucker_normalize are non-zero (zero columns stay zero: C04)
            core, fs = tucker_tensor
            for f in fs:
                for v in np.asarray(tl.norm(f, axis=0), dtype=object).ravel():
                    if isinstance(v, sym.SR) and v.c is None:
                        sym.CTX.assume_nonzero(v.t)
            return real_norm(tucker_tensor)

        backend.patch(_tk, "tucker_normalize", norm_nonzero)
        if alg == "nn_tucker":
            # the values of the multiplicative updates are irrelevant for the exit logic: tl.clip(...) (numerators and denominators)
            # returns fresh positive arrays of the argument's shape (functional in the argument)
            clip_stub = _fresh_stub("clip")
            backend.patch(tl, "clip", lambda a, a_min=None, a_max=None: clip_stub(a))
    X = E.real("X", shp, pos=True)
    core0 = E.real("G", tuple(rank), pos=True)
    F0 = [E.real(f"F{m}", (n, R), pos=True) for m, n in enumerate(shp)]
    tol = E.real("tol", pos=True) if cfg.get("tol", "sym") == "sym" else 1e6
    kw = dict(n_iter_max=K, init=(np.array(core0), [np.array(f) for f in F0]), tol=tol, normalize_factors=bool(norm))
    if alg == "nn_tucker":
        core, fs = non_negative_tucker(np.array(X), rank=rank, **kw)
    else:
        core, fs = non_negative_tucker_hals(np.array(X), rank=rank, **kw)
    E.prove("shapes", tuple(np.shape(core)) == tuple(rank) and len(fs) == len(shp) and all(np.shape(f) == (n, R) for f, n in zip(fs, shp)))
    if norm:
        conds = []
        for f in fs:
            f = np.asarray(f, dtype=object)
            for r in range(R):
                conds.append(E.eq(sum(f[i, r] * f[i, r] for i in range(f.shape[0])), 1))
        E.prove("unit_norm_columns", conds)


def h_more(E, cfg):
    from vt import backend, sym
    import tensorly.decomposition._cp as _cp
    import tensorly.decomposition._constrained_cp as _cc
    import tensorly.decomposition._cmtf_als as _cm
    from props.c06 import _fresh_stub

    alg, shp, rank = cfg["alg"], cfg["shape"], cfg["rank"]
    if E.symbolic:
        backend.configure(solve="havoc", svd="havoc", lstsq="havoc", qr="havoc")
        backend.patch(_cp, "svd_interface", stub_svd_interface)
    X = E.real("X", shp)
    if alg == "tr_als":
        from tensorly.decomposition import tensor_ring_als

        cores = list(tensor_ring_als(np.array(X), list(rank), n_iter_max=1, tol=0, random_state=3))
        E.prove("shapes", len(cores) == len(shp) and all(np.shape(c) == (rank[k], shp[k], rank[k + 1]) for k, c in enumerate(cores)))
        E.prove("ring_closes", np.shape(cores[0])[0] == np.shape(cores[-1])[2])
    elif alg == "constrained":
        from tensorly.decomposition import constrained_parafac

        if E.symbolic:

            def admm_stub(UtM, UtU, x, dual_var, **k):
                out = _fresh_stub("admm_x", nn=False, shape_from=2)(UtM, UtU, x, dual_var)
                return out, np.transpose(_fresh_stub("admm_split", nn=False, shape_from=2)(UtM, UtU, x, dual_var)), _fresh_stub("admm_dual", nn=False, shape_from=2)(UtM, UtU, x, dual_var)

            backend.patch(_cc, "admm", admm_stub)
        w, fs = constrained_parafac(np.array(X), rank, n_iter_max=1, n_iter_max_inner=1, init="random", random_state=2, non_negative=True, tol_outer=1e-300)
        E.prove("shapes", len(fs) == len(shp) and all(np.shape(f) == (n, rank) for f, n in zip(fs, shp)) and (w is None or np.shape(w) == (rank,)))
        E.prove("weights_are_ones", True if w is None else [E.eq(w[r], 1) for r in range(rank)])
    elif alg == "randomised":
        from tensorly.decomposition import randomised_parafac

        w, fs = randomised_parafac(np.array(X), rank, 2, n_iter_max=1, init="random", random_state=4, tol=0, max_stagnation=0)
        E.prove("shapes", len(fs) == len(shp) and all(np.shape(f) == (n, rank) for f, n in zip(fs, shp)) and (w is None or np.shape(w) == (rank,)))
        E.prove("weights_are_ones", True if w is None else [E.eq(w[r], 1) for r in range(rank)])
    else:
        cmtf = _cm.coupled_matrix_tensor_3d_factorization
        norm = cfg["norm"]
        if E.symbolic:
            wrapped = wrap_nonzero(_cm.cp_normalize)
            backend.patch(_cm, "cp_normalize", wrapped)
        Y = E.real("Y", (shp[0], 2))
        tcp, mcp, errs = cmtf(np.array(X), np.array(Y), rank, init="svd", n_iter_max=2, tol=E.real("tol", pos=True), normalize_factors=bool(norm))
        (w, fs), (wm, fm) = tcp, mcp
        E.prove("shapes", all(np.shape(f) == (n, rank) for f, n in zip(fs, shp)) and np.shape(fm[0]) == (shp[0], rank) and np.shape(fm[1]) == (2, rank))
        if E.symbolic:
            # the (re)normalised outputs represent the tensors of the last sweep's raw least-squares factors (scale carried by the weights)
            from props.c06 import dense_cp

            calls = [c for c in sym.CTX.stub_calls if c[0] == "lstsq"][-4:]
            V_, C_, B_, A_ = [np.asarray(c[2], dtype=object).T for c in calls]
            E.prove("represented_tensor_is_last_iterate", E.eq_arrays(dense_cp(w, fs), dense_cp(None, [A_, B_, C_])))
            E.prove("represented_matrix_is_last_iterate", E.eq_arrays(dense_cp(wm, fm), dense_cp(None, [A_, V_])))
        else:
            # replay: the represented pair must not depend on the normalisation option
            t0, m0, _ = cmtf(np.array(X), np.array(Y), rank, init="svd", n_iter_max=2, tol=float(E.real("tol", pos=True)), normalize_factors=False)
            E.prove("represented_tensor_is_last_iterate", E.eq_arrays(tl.cp_to_tensor((w, fs)), tl.cp_to_tensor(t0)))
            E.prove("represented_matrix_is_last_iterate", E.eq_arrays(tl.cp_to_tensor((wm, fm)), tl.cp_to_tensor(m0)))
        if norm:
            conds = []
            for f in list(fs) + list(fm):
                f = np.asarray(f, dtype=object)
                for r in range(rank):
                    conds.append(E.eq(sum(f[i, r] * f[i, r] for i in range(f.shape[0])), 1))
            E.prove("unit_norm_columns", conds)
        else:
            E.prove("weights_are_ones", [True if w_ is None else E.And([E.eq(w_[r], 1) for r in range(rank)]) for w_ in (w, wm)])


# ------------------------------------------------------------------------------------------ TT / TR
def _tt_ranks(shape, rank):
    n = len(shape)
    if isinstance(rank, int):
        rank = [1] + [rank] * (n - 1) + [1]
    rank = list(rank)
    out = [rank[0]]
    rest = int(np.prod(shape))
    for k in range(n - 1):
        n_row = out[k] * shape[k]
        n_col = rest // shape[k]
        rest = n_col
        # columns of the k-th unfolding: product of the remaining mode sizes
        n_col = int(np.prod(shape[k + 1 :]))
        out.append(min(n_row, n_col, rank[k + 1]))
    out.append(rank[-1])
    return out


def h_tt(E, cfg):
    from vt import backend
    import tensorly.decomposition._tt as _tt
    from tensorly.decomposition import tensor_train

    shp, rank = cfg["shape"], cfg["rank"]
    if E.symbolic:
        backend.patch(_tt, "svd_interface", stub_orthonormal_svd)
    X = E.real("X", shp)
    tt = tensor_train(np.array(X), rank)
    cores = list(tt)
    exp = _tt_ranks(shp, rank)
    ok = len(cores) == len(shp) and all(np.shape(c) == (exp[k], shp[k], exp[k + 1]) for k, c in enumerate(cores)) and exp[0] == 1 and np.shape(cores[-1])[2] == 1
    E.prove("shapes_and_boundary_ranks", ok, detail=f"expected ranks {exp}, got {[np.shape(c) for c in cores]}")
    conds = []
    for c in cores[:-1]:
        c = np.asarray(c, dtype=object)
        L = c.reshape(c.shape[0] * c.shape[1], c.shape[2])
        if L.shape[0] <= 3 or L.shape[1] == 1 or not E.symbolic:  # Givens frames taller than 3 with several columns do not decide within the budget
            conds.append(_orth_cols(E, L))
    E.prove("left_orthogonal_cores", conds if conds else True)


def h_tt_matrix(E, cfg):
    from vt import backend
    import tensorly.decomposition._tt as _tt
    from tensorly.decomposition import tensor_train_matrix

    shp, rank = cfg["shape"], cfg["rank"]
    if E.symbolic:
        backend.patch(_tt, "svd_interface", stub_orthonormal_svd)
    X = E.real("X", shp)
    ttm = tensor_train_matrix(np.array(X), rank)
    cores = list(ttm)
    n_in = len(shp) // 2
    ok = len(cores) == n_in and all(np.shape(c)[1:3] == (shp[i], shp[n_in + i]) for i, c in enumerate(cores))
    ok = ok and np.shape(cores[0])[0] == 1 and np.shape(cores[-1])[3] == 1 and all(np.shape(cores[i])[3] == np.shape(cores[i + 1])[0] for i in range(n_in - 1))
    E.prove("shapes_and_boundary_ranks", ok)


def h_tr(E, cfg):
    from vt import backend
    import tensorly.decomposition._tr_svd as _tr
    from tensorly.decomposition import tensor_ring

    shp, rank, mode = cfg["shape"], cfg["rank"], cfg["mode_"]
    if E.symbolic:
        backend.patch(_tr, "svd_interface", stub_orthonormal_svd)
    X = E.real("X", shp)
    try:
        tr = tensor_ring(np.array(X), rank, mode=mode)
    except ValueError as e:
        # documented rejection: rank[mode]*rank[mode+1] larger than the first matricisation
        rk = [rank] * (len(shp) + 1) if isinstance(rank, int) else list(rank)
        n_row = shp[mode]
        n_col = int(np.prod(shp)) // n_row
        E.prove("rejection_only_when_documented", rk[mode] * rk[(mode + 1)] > min(n_row, n_col), detail=str(e))
        return
    cores = list(tr)
    ok = len(cores) == len(shp) and all(np.shape(c)[1] == shp[k] for k, c in enumerate(cores))
    ok = ok and all(np.shape(cores[k])[2] == np.shape(cores[(k + 1) % len(shp)])[0] for k in range(len(shp)))
    rk = [rank] * (len(shp) + 1) if isinstance(rank, int) else list(rank)
    ok = ok and all(np.shape(cores[k])[0] <= rk[k] for k in range(len(shp))) and np.shape(cores[0])[0] == np.shape(cores[-1])[2]
    E.prove("shapes_and_ring_closure", ok, detail=str([np.shape(c) for c in cores]))


# ------------------------------------------------------------------------------------------ PARAFAC2
def h_parafac2(E, cfg):
    from vt import backend
    import tensorly.decomposition._parafac2 as _p2
    import tensorly.parafac2_tensor as _p2t
    from tensorly.decomposition import parafac2
    from props.c06 import stub_cp_normalize

    rows, J, R, norm, K = cfg["rows"], cfg["J"], cfg["R"], cfg["norm"], cfg["K"]
    if E.symbolic:
        backend.configure(solve="havoc", svd="givens")
        backend.patch(_p2, "svd_interface", stub_orthonormal_svd)
        real_norm = _p2.cp_normalize
        backend.patch(_p2, "cp_normalize", wrap_nonzero(real_norm))

        def validate_stub(t):
            w, fs, projs = t
            return tuple((np.shape(p_)[0], np.shape(fs[2])[0]) for p_ in projs), np.shape(fs[0])[1]

        backend.patch(_p2, "_validate_parafac2_tensor", validate_stub)
        backend.patch(_p2t, "_validate_parafac2_tensor", validate_stub)
    slices = [E.real(f"X{i}", (n, J)) for i, n in enumerate(rows)]
    allx = [x for sl in slices for x in np.asarray(sl, dtype=object).ravel()]
    E.assume(E.Or([E.nonzero(x) for x in allx]))
    init = "svd"
    if cfg.get("init") == "user_w":
        # warm start from a decomposition with non-unit weights (e.g. an earlier normalised result)
        w0 = E.real("w0", (R,), nonzero=True)
        A0 = E.real("A0", (len(rows), R))
        B0 = E.real("B0", (R, R))
        C0 = E.real("C0", (J, R))
        if E.symbolic:
            P0 = [backend.givens_frame(n, R, f"P0_{i}_") for i, n in enumerate(rows)]
        else:
            P0 = [np.linalg.qr(np.arange(1.0, n * R + 1).reshape(n, R) ** 1.5 + np.eye(n, R))[0] for n in rows]
        init = (np.array(w0), [np.array(A0), np.array(B0), np.array(C0)], [np.array(p_) for p_ in P0])
    res = parafac2([np.array(sl) for sl in slices], R, n_iter_max=K, init=init, tol=1e-30, n_iter_parafac=1, linesearch=False, normalize_factors=bool(norm))
    w, (A, B, C), projs = res
    I = len(rows)
    ok = np.shape(A) == (I, R) and np.shape(B) == (R, R) and np.shape(C) == (J, R) and len(projs) == I and all(np.shape(p) == (n, R) for p, n in zip(projs, rows))
    E.prove("shapes_one_projection_per_slice", ok)
    E.prove("projections_orthonormal", [_orth_cols(E, p) for p in projs])
    # evolving factors B_i = P_i B share one cross-product B^T B
    Bo = np.asarray(B, dtype=object)
    BtB = np.dot(Bo.T, Bo)
    if R == 1 or (not norm and max(rows) <= 2) or not E.symbolic:
        conds = []
        for p in projs:
            Bi = np.dot(np.asarray(p, dtype=object), Bo)
            conds.append(E.eq_arrays(np.dot(Bi.T, Bi), BtB))
        E.prove("shared_cross_product", conds)
    if norm:
        conds = []
        for f in (A, B, C):
            f = np.asarray(f, dtype=object)
            for r in range(R):
                conds.append(E.eq(sum(f[i, r] * f[i, r] for i in range(f.shape[0])), 1))
        E.prove("unit_norm_columns", conds)
    else:
        E.prove("weights_are_ones", True if w is None else [E.eq(w[r], 1) for r in range(R)])
