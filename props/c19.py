"""C19 -- tensor regressors predict with exactly the weights they expose; CP-PLSR scores/loadings/invariances.

CPRegressor / TuckerRegressor: fit() runs symbolically (training data, targets, regularisation strength are solver
variables, the initial weights come from the seeded RNG stub, every `solve` is havoc'd: the identities below hold for
arbitrary iterates); the exposed attributes are compared with index-sum oracles and predict() on fresh symbolic samples is
compared with the contraction of each sample with weight_tensor_.
CP_PLSR: fit/transform/predict run symbolically with functional SVD and least-squares models; invariances are two-run
obligations inside one harness."""
import itertools

import numpy as np

import tensorly as tl
from tensorly.regression.cp_regression import CPRegressor
from tensorly.regression.tucker_regression import TuckerRegressor
from tensorly.regression.cp_plsr import CP_PLSR

PID = "C19"
ENGINE = "E1"
EXPLANATION = (
    "CPRegressor/TuckerRegressor: fit() is executed on solver variables (training samples, targets, regularisation strength >= 0; initial weights from the seeded "
    "RNG stub; every linear solve returns unconstrained fresh values, because the checked identities hold for arbitrary iterates); weight_tensor_ is compared entrywise "
    "with an index-sum reconstruction of cp_weight_/tucker_weight_, vec_W_ with its row-major vectorisation, and predict() on fresh symbolic samples with the contraction "
    "of every sample with weight_tensor_ (polynomial identities decided by z3). CP_PLSR: fit/transform/predict run with an SVD model that is arbitrary but functional "
    "(equal arguments give equal outputs; first entry of each left vector dominant so that svd_flip does not fork) and an exact minimum-norm least-squares model; "
    "transform(training data) is compared with the fitted scores, unit norm of every loading column is proved structurally (loading = g / sqrt(arg), arg identical to sum g_i^2, "
    "plus a generic solver lemma), and the invariances are two-run obligations inside one path: the second fit runs on X + C / Y + c / permuted samples; centred entries of both runs are "
    "proved equal (linear identities) and every compared result is shown to be the same term up to that replacement (congruence), root atoms being shared through the same argument."
)
ENCODED = [
    "tensorly.regression.cp_regression.CPRegressor.fit",
    "tensorly.regression.cp_regression.CPRegressor.predict",
    "tensorly.regression.tucker_regression.TuckerRegressor.fit",
    "tensorly.regression.tucker_regression.TuckerRegressor.predict",
    "tensorly.regression.cp_plsr.CP_PLSR.fit",
    "tensorly.regression.cp_plsr.CP_PLSR.predict",
    "tensorly.regression.cp_plsr.CP_PLSR.transform",
    "tensorly.base.partial_tensor_to_vec",
    "tensorly.base.partial_unfold",
    "tensorly.cp_tensor.cp_to_tensor",
    "tensorly.cp_tensor.cp_to_vec",
    "tensorly.tucker_tensor.tucker_to_tensor",
    "tensorly.tucker_tensor.tucker_to_vec",
    "tensorly.decomposition._cp.initialize_cp",
]
BOUNDS = {
    "quick": "CP/Tucker regressors: 2-3 training samples, sample shapes (2), (2,2), (3,2), targets scalar and (CP) vector-valued of length 2, ranks 1-2 / Tucker ranks up to (2,2), "
    "1-2 ALS sweeps, symbolic reg_W >= 0, seed fixed (the seeded stream is an uninterpreted function of the seed), 1-2 fresh samples for predict; "
    "CP_PLSR: 3 samples of shape (2,2) or (2), Y with 2 / 1 columns or a vector, 1 component with 1-2 inner iterations and 2 components with 1 iteration (fit/transform/unit norm), "
    "invariance runs (constant tensor added to X, constant added to Y, cyclic sample permutation) for 1 component",
    "thorough": "as quick plus sample shapes (2,2,2), (2,3), targets (2,2)/(3), 3 sweeps (symbolic convergence test forks), all invariance kinds incl. X and Y shifted together for 2 components and 2 inner iterations, "
    "CP_PLSR sample shapes (2,2,2) and (3,2)",
}
OUTSIDE = [
    "more than 3 samples, mode sizes > 3, sample order > 3, more than 2 components",
    "numerical quality of the solves / SVD (the identities are independent of it)",
    "CP_PLSR with an SVD initial guess whose dominant entry is not the first one (symmetric case; fixed to avoid forks in svd_flip)",
    "IEEE rounding",
]
TRUSTED = [
    "z3",
    "engine root-atom interning and rational-function identity test (vt.sym / vt.ratnorm)",
    "lstsq model: minimum-norm least-squares solution = normal-equation solution on the linearly independent non-zero columns",
    "SVD model: functional (same argument, same outputs)",
]
ASSUMPTIONS = ["real arithmetic", "divisions defined (non-zero norms)", "reg_W >= 0", "score columns linearly independent (lstsq model)"]


def configs(tier):
    q = tier == "quick"
    out = []

    def add(op, **kw):
        extra = {k: kw.pop(k) for k in ("mode", "timeout_s", "max_paths", "cost", "vacuity", "branch_timeout_ms") if k in kw}
        key = op + "/" + "/".join(f"{k}{''.join(map(str, v)) if isinstance(v, (tuple, list)) else v}" for k, v in kw.items())
        d = dict(key=key, op=op, **kw)
        d.setdefault("mode", "merge")
        d.update(extra)
        d.setdefault("timeout_s", 170 if q else 1500)
        d.setdefault("max_paths", 2000)
        out.append(d)
        return d

    # CPRegressor: sample shapes (order 2-4 inputs incl. the sample mode), scalar and tensor-valued targets
    xs = [(2,), (2, 2), (3, 2)] + ([] if q else [(2, 2, 2), (2, 3)])
    ys = [(), (2,)] + ([] if q else [(2, 2), (3,)])
    for ns in (2, 3):
        for x in xs:
            for y in ys:
                for R in (1, 2):
                    for it in (1, 2) if q else (1, 2, 3):
                        if q and (ns == 3 and (it == 2 or R == 2) and len(x) > 1):
                            continue
                        if x == (2,) and y == () and (R, it) != (1, 1):
                            continue  # order-2 X with scalar targets: fit raises (see report); one witness per sample count
                        add("cp", ns=ns, x=x, y=y, R=R, it=it, npred=2)
    # TuckerRegressor: scalar targets
    for ns in (2, 3):
        for x, ranks in [((2,), (1,)), ((2,), (2,)), ((2, 2), (1, 1)), ((2, 2), (2, 1)), ((2, 2), (2, 2)), ((3, 2), (2, 2))] + ([] if q else [((2, 2, 2), (2, 1, 2)), ((2, 3), (2, 2))]):
            for it in (1, 2) if q else (1, 2, 3):
                if q and ns == 3 and it == 2 and len(x) > 1:
                    continue
                if x == (2,) and (ranks, it) != ((1,), 1):
                    continue  # order-2 X: fit raises (see report)
                add("tucker", ns=ns, x=x, ranks=ranks, it=it, npred=2)
    # the same estimator object fitted a second time on other data (after its weights and predictions were used)
    add("tucker", ns=2, x=(2, 2), ranks=(1, 1), it=1, npred=2, refit=1)
    add("tucker", ns=2, x=(2, 2), ranks=(2, 1), it=1, npred=2, refit=1)
    # symbolic tolerance, three sweeps: the convergence exit (tested from the third sweep on) and the iteration cap are both explored
    add("tucker", ns=2, x=(2, 2), ranks=(1, 1), it=3, npred=2, tol="sym", mode="fork")
    add("cp", ns=2, x=(2, 2), y=(), R=1, it=3, npred=2, tol="sym", mode="fork")
    add("cp", ns=2, x=(2, 2), y=(), R=1, it=1, npred=2, refit=1)
    add("cp", ns=2, x=(2,), y=(2,), R=2, it=1, npred=2, refit=1)
    # CP_PLSR (3 samples; ny == 0: vector-valued Y).  Two components with permuted samples is left out: the second
    # component's deflated terms are not brought to a common syntactic form by the congruence argument (undecided)
    def plsr(x, ny, nc, it, inv):
        kw = dict(perm=(2, 0, 1)) if inv == "perm" else {}
        add("plsr", ns=3, x=x, ny=ny, nc=nc, it=it, inv=inv, npred=2, vacuity=False, mode="fork", cost=(10 if nc == 2 or it == 2 else 1) * (2 if len(x) > 1 else 1), **kw)

    invs = ("none", "shiftX", "shiftY", "perm")
    for x in [(2, 2), (2,)]:
        for ny in (2, 1, 0):
            for inv in invs:
                plsr(x, ny, 1, 1, inv)
    for ny in (2, 1):
        for inv in invs:
            plsr((2,), ny, 1, 2, inv)
    for inv in ("shiftX", "shiftY", "perm"):
        plsr((2, 2), 2, 1, 2, inv)
    plsr((2,), 1, 2, 1, "none")
    plsr((2,), 0, 2, 1, "none")
    plsr((2,), 2, 2, 1, "shiftX")
    if not q:
        for x in [(2, 2, 2), (3, 2)]:
            for ny in (2, 1):
                for inv in invs + ("shiftXY",):
                    plsr(x, ny, 1, 1, inv)
        for x in [(2, 2), (2,)]:
            for ny in (2, 1, 0):
                plsr(x, ny, 1, 1, "shiftXY")
                for inv in ("none", "shiftX", "shiftY", "shiftXY"):
                    if not (x == (2,) and (ny, inv) in ((1, "none"), (0, "none"), (2, "shiftX"))):
                        plsr(x, ny, 2, 1, inv)
                for inv in invs:
                    if not ((x == (2,) and ny in (2, 1)) or (x == (2, 2) and ny == 2 and inv != "none")):
                        plsr(x, ny, 1, 2, inv)
    return out


# ------------------------------------------------------------------------------------ oracles
def obj(shape):
    return np.empty(shape, dtype=object)


def o_cp_dense(factors, shape, R):
    out = obj(shape)
    for idx in np.ndindex(*shape):
        tot = 0
        for r in range(R):
            p = 1
            for m, i in enumerate(idx):
                p = p * factors[m][i, r]
            tot = tot + p
        out[idx] = tot
    return out


def o_tucker_dense(core, factors, shape):
    out = obj(shape)
    cshape = np.shape(core)
    for idx in np.ndindex(*shape):
        tot = 0
        for j in np.ndindex(*cshape):
            p = core[j]
            for m, (i, jj) in enumerate(zip(idx, j)):
                p = p * factors[m][i, jj]
            tot = tot + p
        out[idx] = tot
    return out


def o_predict(Xn, W, xshape, yshape):
    """out[s, o] = sum_i Xn[s, i] * W[i, o]"""
    ns = np.shape(Xn)[0]
    out = obj((ns,) + tuple(yshape))
    for s in range(ns):
        for o in np.ndindex(*yshape):
            tot = 0
            for i in np.ndindex(*xshape):
                tot = tot + Xn[(s,) + i] * W[i + o]
            out[(s,) + o] = tot
    return out


class Congruence:
    """cheap identity proofs between two runs of the same code on inputs that differ only before centring.

    pairs (e1, e2): corresponding centred entries of run 1 / run 2, built in the harness with the same backend operations
    as the code (so they are the very z3 terms that occur inside the code's results).  Each pair is first proved equal
    (linear identity).  Then  a == b  is established by replacing e1 and e2 by one fresh variable k in both terms and
    comparing the results syntactically: a = f(e1), b = g(e2), f and g syntactically equal, e1 == e2  =>  a == b."""

    def __init__(self, E):
        self.E = E
        self.subs = []
        self.ok = True
        self.n = 0

    def add_pairs(self, A1, A2):
        if not self.E.symbolic:
            return
        import z3
        from vt import sym

        a1 = np.asarray(A1, dtype=object).ravel()
        a2 = np.asarray(A2, dtype=object).ravel()
        assert a1.shape == a2.shape
        for x, y in zip(a1, a2):
            tx, ty = sym.term(x), sym.term(y)
            if not sym.CTX.identical(tx, ty):
                self.ok = False
                continue
            k = z3.Real(f"cen!{self.n}")
            self.n += 1
            # the raw terms and their z3-simplified forms (the engine stores simplified root arguments)
            seen = []
            for t in (tx, ty, z3.simplify(tx), z3.simplify(ty)):
                if not z3.is_rational_value(t) and not any(t.eq(u) for u in seen):
                    seen.append(t)
                    self.subs.append((t, k))

    def canon(self, t):
        import z3

        return z3.simplify(z3.substitute(t, *self.subs) if self.subs else t, sort_sums=True)

    def install_root_interning(self):
        """while the second run executes: a root whose argument equals, after the congruence substitution and z3's AC
        normalisation, the argument of an existing atom of the same degree IS that atom (equal arguments, equal roots).
        Only an accelerator for the engine's own interning (which tests polynomial identity by full expansion)."""
        from vt import sym

        c = sym.CTX
        orig = c.root
        cache = {}
        cong = self

        def root(arg, degree=2, nn=False, sos=None):
            try:
                key = cong.canon(arg)
                for at in c.atoms:
                    v, a, dg = at[0], at[1], at[2]
                    if dg != degree:
                        continue
                    ka = cache.get(v.get_id())
                    if ka is None:
                        ka = cache[v.get_id()] = cong.canon(a)
                    if ka.eq(key):
                        return sym.SR(v, nn=True, sq=(a, dg))
            except Exception:
                pass
            return orig(arg, degree=degree, nn=nn, sos=sos)

        c.root = root
        # same accelerator for the stub-argument lookup (functional SVD model): congruent arguments are the same argument
        from vt import backend

        orig_same_array = backend._same_array

        def same_array(a, b):
            a = np.asarray(a, dtype=object)
            b = np.asarray(b, dtype=object)
            if a.shape != b.shape:
                return False
            for x, y in zip(a.ravel(), b.ravel()):
                if cong.same(x, y):
                    continue
                if not c.identical(sym.term(x), sym.term(y)):
                    return False
            return True

        backend._same_array = same_array
        self._restore = (orig, orig_same_array)
        return orig

    def uninstall(self):
        from vt import backend, sym

        orig, orig_same_array = self._restore
        sym.CTX.root = orig
        backend._same_array = orig_same_array

    def same(self, x, y):
        import z3
        from vt import sym

        tx, ty = sym.term(x), sym.term(y)
        if tx.eq(ty):
            return True
        if not self.subs:
            return False
        sx, sy = z3.substitute(tx, *self.subs), z3.substitute(ty, *self.subs)
        if sx.eq(sy):
            return True
        return z3.simplify(sx, sort_sums=True).eq(z3.simplify(sy, sort_sums=True))


def prove_same(E, name, A, B, cong=None):
    """array equality; symbolic mode tries (1) the congruence argument above, (2) the engine's context-free identity test
    (rational-function normal form / context-free z3 query, the procedure that interns root atoms) on every entry: an
    identity that holds without any hypothesis holds on every path.  Falls back to the ordinary validity query."""
    if E.symbolic:
        from vt import sym

        a = np.asarray(A, dtype=object)
        b = np.asarray(B, dtype=object)
        if a.shape == b.shape:
            ok = True
            for x, y in zip(a.ravel(), b.ravel()):
                if cong is not None and cong.same(x, y):
                    continue
                if sym.CTX.identical(sym.term(x), sym.term(y)):
                    continue
                ok = False
                break
            if ok:
                return E.prove(name, True)
            if cong is not None:
                return _undecided_identity(E, name)
    return E.prove_eq(name, A, B)


def _undecided_identity(E, name, tries=2):
    """CP_PLSR terms: the validity query over the full path context does not return within any time limit (z3 ignores
    its timeout inside preprocessing there, which would also block the driver's alarm), so it is not asked.  An identity
    that neither the congruence argument nor the normal-form test establishes is probed on random concrete inputs through
    the ordinary replay mechanism (fresh interpreter, float64, real LAPACK): a reproduced failure is a violation with a
    concrete witness; otherwise the obligation is reported as inconclusive."""
    import os
    import random

    from vt import harness as H, sym

    E.reached.append(name)
    rec = {"name": name, "path": list(sym.CTX.decisions), "verdict": "inconclusive", "seconds": 0.0, "note": "identity not established syntactically; solver fallback disabled"}
    if name in E.confirmed:
        rec.update(verdict="violated", replay=E.confirmed[name], duplicate_of_confirmed=True)
        E.results.append(rec)
        return False
    rnd = random.Random(hash(name) & 0xFFFF)
    for _ in range(tries):
        vals = {}
        for nm, a in E.decl.items():
            shp = np.shape(a)
            vals[nm] = (np.array([rnd.randint(-8, 8) / 4 or 0.25 for _ in range(int(np.prod(shp)) if shp else 1)]).reshape(shp)).tolist()
        path = H.write_replay(E.pid, E.cfg_key, name, vals)
        ok, out = H.run_replay(E.pid, path)
        if ok:
            rec.update(verdict="violated", replay=path, inputs=vals)
            E.confirmed[name] = path
            break
        try:
            os.remove(path)
        except OSError:
            pass
    E.results.append(rec)
    return False


def prove_unit_norm(E, name, L):
    """sum_i L_i^2 == 1.  Symbolic mode first tries the structural route: every L_i is syntactically g_i / w with one common
    root atom w = sqrt(arg); (a) g_i := L_i * w (the engine cancels w), (b) arg is polynomially identical to sum_i g_i^2
    (context-free identity test), (c) the generic consequence  W*W == sum G_i^2, W != 0  |-  sum (G_i/W)^2 == 1  is a small
    validity query over fresh variables.  Otherwise (and in concrete mode) the plain statement is checked."""
    L = list(L)
    if E.symbolic:
        import z3
        from vt import sym

        Ls = [sym.SR.lift(x) for x in L]
        if all(isinstance(x, sym.SR) and x.c is None for x in Ls):
            roots = [[f for f in x._pf()[1] if f[4] is not None and f[1] == -1] for x in Ls]
            if all(len(r) == 1 for r in roots) and len({r[0][0] for r in roots}) == 1:
                fac = roots[0][0]
                w = sym.SR(fac[2], nn=True, sq=fac[4])
                g = [x * w for x in Ls]
                if fac[4][1] == 2 and sym.CTX.identical(sym.term(sum(gi * gi for gi in g)), fac[4][0]):
                    G = [z3.Real(f"G!{i}") for i in range(len(g))]
                    W = z3.Real("W!")
                    lemma = z3.Implies(z3.And(W * W == sum(x * x for x in G), W != 0), sum((x / W) * (x / W) for x in G) == 1)
                    E.drop_path = "all"  # generic lemma over fresh variables: no hypothesis of the path is needed
                    try:
                        return E.prove(name, sym.SB(lemma))
                    finally:
                        E.drop_path = False
    if E.symbolic:
        return _undecided_identity(E, name)
    return E.prove(name, E.eq(sum(x * x for x in L), 1))


def harness(E, cfg):
    E.fresh_solver = True
    E.div_elim = True
    return globals()["h_" + cfg["op"]](E, cfg)


def _weights_obligations(E, reg, Xn, W_oracle, xshape, yshape):
    wt = reg.weight_tensor_
    full = tuple(xshape) + tuple(yshape)
    E.prove("weight_tensor/shape", tuple(np.shape(wt)) == full)
    E.prove_eq("weight_tensor/equals_reconstruction_of_exposed_factors", wt, W_oracle)
    vec = reg.vec_W_
    E.prove("vec_W/shape", tuple(np.shape(vec)) == (int(np.prod(full)),))
    wt_a = np.asarray(wt, dtype=object if E.symbolic else float)
    E.prove_eq("vec_W/equals_row_major_vectorisation_of_weight_tensor", vec, np.array([wt_a[i] for i in np.ndindex(*full)], dtype=wt_a.dtype))
    try:
        pred = reg.predict(Xn)
    except Exception as e:
        E.prove("predict/no_exception", False, detail=f"{type(e).__name__}: {e}")
        return
    spec = o_predict(Xn, wt_a, xshape, yshape)
    E.prove("predict/shape", tuple(np.shape(pred)) == spec.shape)
    E.prove_eq("predict/equals_contraction_of_sample_with_weight_tensor", pred, spec)


def h_cp(E, cfg):
    from vt import backend

    ns, x, y, R, it = cfg["ns"], tuple(cfg["x"]), tuple(cfg["y"]), cfg["R"], cfg["it"]
    X = E.real("X", (ns,) + x)
    Y = E.real("Y", (ns,) + y)
    reg_W = E.real("reg_W", nn=True)
    Xn = E.real("Xn", (cfg["npred"],) + x)
    if E.symbolic:
        backend.configure(solve="havoc")
    est = CPRegressor(weight_rank=R, tol=E.real("tol", pos=True) if cfg.get("tol") == "sym" else 0, reg_W=reg_W, n_iter_max=it, random_state=7, verbose=0)
    try:
        if cfg.get("refit"):
            X0 = E.real("X0", (ns,) + x)
            Y0 = E.real("Y0", (ns,) + y)
            est.fit(X0, Y0)
            _ = est.vec_W_, est.weight_tensor_
            est.predict(Xn)
        est.fit(X, Y)
    except Exception as e:
        E.prove("fit/no_exception", False, detail=f"{type(e).__name__}: {e}")
        return
    weights, factors = est.cp_weight_
    E.prove("cp_weight/number_of_factors", len(factors) == len(x) + len(y))
    shapes_ok = all(tuple(np.shape(f)) == (d, R) for f, d in zip(factors, x + y))
    E.prove("cp_weight/factor_shapes", shapes_ok)
    if not shapes_ok or len(factors) != len(x) + len(y):
        return
    wv = np.asarray(weights, dtype=object if E.symbolic else float)
    scaled = [np.asarray(f, dtype=object if E.symbolic else float) for f in factors]
    scaled[0] = scaled[0] * wv.reshape(1, -1)
    _weights_obligations(E, est, Xn, o_cp_dense(scaled, x + y, R), x, y)


def h_tucker(E, cfg):
    from vt import backend

    ns, x, ranks, it = cfg["ns"], tuple(cfg["x"]), tuple(cfg["ranks"]), cfg["it"]
    X = E.real("X", (ns,) + x)
    Y = E.real("Y", (ns,))
    reg_W = E.real("reg_W", nn=True)
    Xn = E.real("Xn", (cfg["npred"],) + x)
    if E.symbolic:
        backend.configure(solve="havoc")
    est = TuckerRegressor(weight_ranks=list(ranks), tol=E.real("tol", pos=True) if cfg.get("tol") == "sym" else 0, reg_W=reg_W, n_iter_max=it, random_state=7, verbose=0)
    try:
        if cfg.get("refit"):
            X0 = E.real("X0", (ns,) + x)
            Y0 = E.real("Y0", (ns,))
            est.fit(X0, Y0)
            _ = est.vec_W_, est.weight_tensor_
            est.predict(Xn)
        est.fit(X, Y)
    except Exception as e:
        E.prove("fit/no_exception", False, detail=f"{type(e).__name__}: {e}")
        return
    core, factors = est.tucker_weight_
    E.prove("tucker_weight/core_shape", tuple(np.shape(core)) == ranks)
    shapes_ok = len(factors) == len(x) and all(tuple(np.shape(f)) == (d, r) for f, d, r in zip(factors, x, ranks))
    E.prove("tucker_weight/factor_shapes", shapes_ok)
    if not shapes_ok or tuple(np.shape(core)) != ranks:
        return
    dt = object if E.symbolic else float
    _weights_obligations(E, est, Xn, o_tucker_dense(np.asarray(core, dtype=dt), [np.asarray(f, dtype=dt) for f in factors], x), x, ())


# ------------------------------------------------------------------------------------ CP_PLSR
def _lstsq_min_norm(A, B):
    """exact model of lstsq for the matrices CP_PLSR.fit builds (score columns of the components fitted so far, zero
    columns for the rest): minimum-norm least-squares solution = normal-equation solution on the non-zero columns
    (assumed linearly independent: Cramer's rule records det != 0 as a precondition), zero on the zero columns.
    A deterministic function of its arguments, so equal arguments give equal results."""
    from vt import backend, sym

    A = np.asarray(A, dtype=object)
    B = np.asarray(B, dtype=object)
    n, k = A.shape
    nz = [j for j in range(k) if not all(isinstance(sym.SR.lift(A[i, j]), sym.SR) and sym.SR.lift(A[i, j]).c == 0 for i in range(n))]
    X = np.empty((k,) + B.shape[1:], dtype=object)
    X[...] = sym.const(0)
    if nz:
        An = A[:, nz]
        G = np.dot(An.T, An)
        rhs = np.dot(An.T, B)
        sol = backend._cramer(sym.sarr(G), sym.sarr(rhs))
        for t, j in enumerate(nz):
            X[j] = sol[t]
    return X


def _svd_dominant_first(M, full_matrices):
    """SVD model for CP_PLSR's initial guess: arbitrary (unconstrained) factors, except that in every column of U the
    first entry is positive and of maximal magnitude, so that svd_flip's argmax/sign decisions do not fork (the result
    of svd_flip always has a positive maximal-magnitude entry; which row carries it is fixed here).  The stub is functional:
    vt.backend records (argument, outputs) and returns the recorded outputs for a polynomially identical argument."""
    from vt import backend, sym

    m, n = np.shape(M)
    r = min(m, n)
    ku, kv = (m, n) if full_matrices else (r, r)
    U = backend.fresh_array("svdU", (m, ku))
    S = backend.sorted_nonneg("svdS", r)
    V = backend.fresh_array("svdV", (kv, n))
    for c in range(ku):
        sym.CTX.add_fact("def", sym.term(U[0, c]) > 0)
        for i in range(1, m):
            sym.CTX.add_fact("def", sym.term(U[0, c]) >= sym.term(U[i, c]))
            sym.CTX.add_fact("def", sym.term(U[0, c]) >= -sym.term(U[i, c]))
    return U, S, V


def _eager_atom_lemmas():
    """assert the consequences of v = sqrt(sum p_i^2) (v == 0 <=> all p_i == 0, v >= |p_i|), which the engine keeps as
    on-demand refinement lemmas, as soon as the atom is created: the code branches on `norm == 0` right after the root"""
    from vt import sym

    c = sym.CTX
    if not hasattr(c, "atom_lemmas") or getattr(c, "_c19_eager", False):
        return
    c._c19_eager = True
    orig = c.root

    def root(*a, **k):
        r = orig(*a, **k)
        done = getattr(c, "_c19_flushed", None)
        if done is None or done[0] is not c.atom_lemmas:
            done = c._c19_flushed = [c.atom_lemmas, 0]
        for f in c.atom_lemmas[done[1]:]:
            c.add_fact("def", f)
        done[1] = len(c.atom_lemmas)
        return r

    c.root = root


class _DirectLstsq:
    """installs the exact least-squares model directly as the symbolic backend's `lstsq` (instance attribute) for the
    duration of one harness call: the model is a deterministic function of its arguments, so the engine's argument lookup
    (polynomial identity tests against every earlier call: minutes on these rational functions) is not needed"""

    def __init__(self, E):
        self.E = E

    def __enter__(self):
        if self.E.symbolic:
            from vt import backend, sym

            def lstsq(A, B, rcond=None):
                return sym.sarr(_lstsq_min_norm(A, B)), None, None, None

            backend._SYM.lstsq = lstsq
        return self

    def __exit__(self, *a):
        if self.E.symbolic:
            from vt import backend

            backend._SYM.__dict__.pop("lstsq", None)
        return False


_VAC_DONE = set()


def _vacuity_once(E, cfg):
    """one satisfiability check of the assumptions per configuration (the preconditions do not depend on the path; the
    per-path query costs ~10 s here because of the root definitions)"""
    if E.symbolic and cfg["key"] not in _VAC_DONE:
        _VAC_DONE.add(cfg["key"])
        E.vacuity()


def _plsr_fit(X, Y, ncomp, it):
    est = CP_PLSR(n_components=ncomp, tol=1e-9, n_iter_max=it, random_state=3, verbose=False)
    est.fit(X, Y)
    return est


def _arr(E, a):
    return np.asarray(a, dtype=object if E.symbolic else float)


def h_plsr(E, cfg):
    with _DirectLstsq(E):
        return _h_plsr(E, cfg)


def _h_plsr(E, cfg):
    from vt import backend

    ns, x, ny, nc, it, inv = cfg["ns"], tuple(cfg["x"]), cfg["ny"], cfg["nc"], cfg["it"], cfg["inv"]
    yshape = (ns,) if ny == 0 else (ns, ny)  # ny == 0: vector-valued Y (reshaped to one column by fit)
    nyc = max(ny, 1)
    X = E.real("X", (ns,) + x)
    Y = E.real("Y", yshape)
    Xn = E.real("Xn", (cfg["npred"],) + x)
    if E.symbolic:
        # SVD (only used for the initial guess of the mode loadings): arbitrary outputs, functional by argument lookup;
        # lstsq: exact minimum-norm model (see _lstsq_min_norm)
        backend.configure(svd=_svd_dominant_first)
        _eager_atom_lemmas()
    _vacuity_once(E, cfg)  # before the code runs: the assumptions are the declared input domains only
    try:
        est = _plsr_fit(X, Y, nc, it)
    except Exception as e:
        E.prove("fit/no_exception", False, detail=f"{type(e).__name__}: {e}")
        return
    XF = [_arr(E, f) for f in est.X_factors]
    YF = [_arr(E, f) for f in est.Y_factors]
    if inv == "none":
        E.prove("factors/shapes", [tuple(f.shape) == (d, nc) for f, d in zip(XF, (ns,) + x)] + [tuple(YF[0].shape) == (ns, nc), tuple(YF[1].shape) == (nyc, nc)])
        for c in range(nc):
            for m in range(1, len(XF)):
                prove_unit_norm(E, f"loadings/X_mode{m}_component{c}_unit_norm", [XF[m][i, c] for i in range(XF[m].shape[0])])
            prove_unit_norm(E, f"loadings/Y_component{c}_unit_norm", [YF[1][i, c] for i in range(nyc)])
        try:
            sc = est.transform(X)
            E.prove("transform/shape", tuple(np.shape(sc)) == (ns, nc))
            prove_same(E, "transform/training_X_gives_fitted_scores", sc, XF[0], Congruence(E))
            sc2, ysc = est.transform(X, Y)
            prove_same(E, "transform/with_Y/training_X_gives_fitted_scores", sc2, XF[0], Congruence(E))
            E.prove("transform/with_Y/Y_scores_shape", tuple(np.shape(ysc)) == (ns, nc))
            prove_same(E, "transform/with_Y/training_Y_gives_fitted_Y_scores", ysc, YF[0], Congruence(E))
        except Exception as e:
            E.prove("transform/no_exception", False, detail=f"{type(e).__name__}: {e}")
        return
    # ---- two-run obligations
    dt = object if E.symbolic else float
    if inv in ("shiftX", "shiftXY"):
        C = E.real("C", x)
    else:
        C = np.zeros(x, dtype=dt)
    if inv in ("shiftY", "shiftXY"):
        cY = E.real("cY", (nyc,))
    else:
        cY = np.zeros((nyc,), dtype=dt)
    perm = tuple(cfg.get("perm") or range(ns))
    X2 = np.empty((ns,) + x, dtype=dt)
    Y2 = np.empty(yshape, dtype=dt)
    for s_ in range(ns):
        X2[s_] = np.asarray(X, dtype=dt)[perm[s_]] + np.asarray(C, dtype=dt)
        if ny == 0:
            Y2[s_] = Y[perm[s_]] + cY[0]
        else:
            Y2[s_] = np.asarray(Y, dtype=dt)[perm[s_]] + np.asarray(cY, dtype=dt)
    Xn2 = np.asarray(Xn, dtype=dt) + np.asarray(C, dtype=dt).reshape((1,) + x)
    cong = Congruence(E)
    if E.symbolic:
        def centred(A, ref):
            A = tl.copy(tl.tensor(A))
            R_ = tl.copy(tl.tensor(ref))
            if tl.ndim(A) == 1:
                A, R_ = tl.reshape(A, (-1, 1)), tl.reshape(R_, (-1, 1))
            A -= tl.mean(R_, axis=0)
            return A

        inv_perm = [perm.index(s_) for s_ in range(ns)]
        cong.add_pairs(centred(X, X), np.asarray(centred(X2, X2), dtype=object)[inv_perm])
        cong.add_pairs(centred(Y, Y), np.asarray(centred(Y2, Y2), dtype=object)[inv_perm])
        cong.add_pairs(centred(Xn, X), centred(Xn2, X2))
    saved_root = cong.install_root_interning() if E.symbolic else None
    try:
        est2 = _plsr_fit(tl.tensor(X2), tl.tensor(Y2), nc, it)
    except Exception as e:
        E.prove("second_fit/no_exception", False, detail=f"{type(e).__name__}: {e}")
        return
    finally:
        if E.symbolic:
            cong.uninstall()
    XF2 = [_arr(E, f) for f in est2.X_factors]
    YF2 = [_arr(E, f) for f in est2.Y_factors]
    for m in range(1, len(XF)):
        prove_same(E, f"invariance/X_mode{m}_loadings_unchanged", XF2[m], XF[m], cong)
    prove_same(E, "invariance/Y_loadings_unchanged", YF2[1], YF[1], cong)
    prove_same(E, "invariance/scores_follow_the_samples", XF2[0], XF[0][list(perm)], cong)
    prove_same(E, "invariance/Y_scores_follow_the_samples", YF2[0], YF[0][list(perm)], cong)
    try:
        p1 = _arr(E, est.predict(Xn)) - _arr(E, est.Y_mean_).reshape(1, -1)
        p2 = _arr(E, est2.predict(tl.tensor(Xn2))) - _arr(E, est2.Y_mean_).reshape(1, -1)
    except Exception as e:
        E.prove("predict/no_exception", False, detail=f"{type(e).__name__}: {e}")
        return
    E.prove("predict/shape", tuple(p1.shape) == (cfg["npred"], nyc) and tuple(p2.shape) == p1.shape)
    prove_same(E, "invariance/predictions_minus_offset_unchanged", p2, p1, cong)
    prove_same(E, "invariance/offset_shifts_with_Y", _arr(E, est2.Y_mean_).reshape(-1), _arr(E, est.Y_mean_).reshape(-1) + np.asarray(cY, dtype=dt), cong)
