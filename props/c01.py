"""C01 -- unfold / partial_unfold / tensor_to_vec / partial_tensor_to_vec / matricize only re-arrange entries
according to the documented layout, and the matching fold / refold returns the original tensor.

Engine E2 `symshape` (vt/shape.py): the real tensorly/base.py functions run on index-map tensors whose mode
sizes d_k are z3 Ints in [1,B] (all of them symbolic at once) and whose multi-index is symbolic too.  The
oracle is the documented layout written as "groups of source modes" (each output axis is the row-major
ravel of a list of source modes); it never calls tensorly.

Families of configurations (one configuration = one (function, order, option tuple)):
  <f>            forward map   unfold / partial_unfold / tensor_to_vec / partial_tensor_to_vec / matricize
  <g>            inverse map   fold / partial_fold / vec_to_tensor / partial_vec_to_tensor on a source of the unfolded shape
  <g>(<f>)       refold o unfold = identity on tensors          <f>(<g>)   unfold o refold = identity on unfoldings
  matricize_validation   finite enumeration of (row_modes, column_modes) argument pairs (not a solver claim)
  elem           entries of an uninterpreted sort (no arithmetic exists on it) on concrete shapes, real NumPy backend
  dtype          finite NumPy dtype table, real NumPy backend (not a solver claim)
"""
import itertools
import os
import random
import sys
import time
import traceback

import numpy as np
import z3

PID = "C01"
ENGINE = "E2"
EXPLANATION = (
    "Symbolic-shape execution of the real tensorly/base.py re-arrangement functions on an index-map backend "
    "(tensor = (shape of z3 Ints, index -> offset in the source buffer); reshape = row-major witness indices; "
    "transpose/moveaxis = index permutation). For every configuration (function, order, mode / skip_begin / skip_end / "
    "ravel_tensors / ordered row-column split) z3 decides, for ALL mode sizes d_k in [1,B] simultaneously and ALL multi-indices: "
    "(i) result shape = documented shape, (ii) out[documented position of i] is source entry ravel(i,d), "
    "(iii) refold(unfold(T)) and unfold(refold(M)) are the identity index map with the original shape, "
    "(iv) every reshape executed by the code is size-compatible (decided without assuming it), "
    "(v) matricize's argument validation raises exactly for non-permutations (finite enumeration, labelled 'enumeration'). "
    "Separately labelled non-symbolic-shape parts: 'elem' configurations run the real NumPy backend on concrete shapes {1,2,3}^order with entries of an "
    "uninterpreted z3 sort (only movement of entries can produce the output); 'dtype' configurations are a finite concrete table over NumPy dtypes "
    "(dtype preserved, bytes preserved); conformance() validates the index-map model of reshape/transpose/moveaxis against real NumPy offset tables "
    "on all shapes {1,2,3}^(<=4)."
)
ENCODED = [
    "tensorly.base.unfold",
    "tensorly.base.fold",
    "tensorly.base.partial_unfold",
    "tensorly.base.partial_fold",
    "tensorly.base.tensor_to_vec",
    "tensorly.base.vec_to_tensor",
    "tensorly.base.partial_tensor_to_vec",
    "tensorly.base.partial_vec_to_tensor",
    "tensorly.base.matricize",
]
BOUNDS = {
    "quick": "tensor orders 1-3, every mode size d_k in [1,4] (all symbolic simultaneously), every in-range multi-index; every mode, every (skip_begin, skip_end, ravel_tensors) with "
    "skip_begin+skip_end < order and mode < order-skip_begin-skip_end, documented defaults, every ordered (row_modes, column_modes) split incl. column_modes=None and int arguments; "
    "per obligation 20 s (first 8 s with every size symbolic, then case split over the sizes; none needed at these orders); "
    "matricize validation: all argument pairs over modes {-1..order} with len(row)+len(col) <= order+1; elem/dtype tables: shapes {1,2,3}^order / listed shapes, order <= 3",
    "thorough": "orders 1-4 with d_k in [1,4], order 5 with d_k in [1,2]; same option spaces; per obligation 120 s: 30 s with every mode size symbolic (QF_NIA), and if z3 answers unknown "
    "the same claim is decided by case split over (d_1..d_n) in [1,B]^n with index and reshape witnesses symbolic (QF_LIA per case) -- needed only at order 4 (36 of 2175 configurations on an idle machine: "
    "matricize with all four modes in one group in permuted order, partial_unfold ravel_tensors=True mode 1/2); the method is recorded per obligation; "
    "matricize validation total length <= order+1 (order <= 4), <= order (order 5); elem/dtype tables: order <= 4",
}
OUTSIDE = [
    "orders > 5, mode sizes > B, size-0 modes",
    "negative mode arguments of unfold/fold (documented range is range(0, ndim))",
    "backends other than NumPy (the index-map backend models NumPy's row-major reshape/transpose/moveaxis)",
    "non-contiguous / Fortran-ordered input buffers are covered only through the model (offsets are logical row-major offsets)",
]
TRUSTED = [
    "z3 (QF_NIA)",
    "vt/shape.py index-map model of numpy.reshape/transpose/moveaxis (validated by conformance() against NumPy offset tables on all shapes {1,2,3}^(<=4))",
    "the layout oracle (groups of source modes, row-major) as the reading of the docstrings",
]
ASSUMPTIONS = [
    "mode sizes are >= 1; the layout claim is about logical entries (offsets in a row-major source buffer), dtype/bit preservation is checked on a finite concrete table only",
]

FWD = ("unfold", "partial_unfold", "tensor_to_vec", "partial_tensor_to_vec", "matricize")
INV_NAME = {"unfold": "fold", "partial_unfold": "partial_fold", "tensor_to_vec": "vec_to_tensor", "partial_tensor_to_vec": "partial_vec_to_tensor"}


# ----------------------------------------------------------------------------- oracle (documented layout)
def _aslist(m):
    if m is None:
        return None
    if isinstance(m, (list, tuple)):
        return [int(x) for x in m]
    return [int(m)]


def groups_of(cfg):
    """documented layout: output axis g is the row-major ravel of the source modes listed in groups[g]"""
    n = cfg["order"]
    f = cfg["fam"]
    if f == "unfold":
        m = cfg["mode"]
        return [[m], [k for k in range(n) if k != m]]
    if f == "partial_unfold":
        sb, se, mode, rv = cfg["sb"], cfg["se"], cfg["mode"], cfg["ravel"]
        inner = list(range(sb, n - se))
        mm = sb + mode
        others = [k for k in inner if k != mm]
        mid = [[mm] + others] if rv else [[mm], others]
        return [[k] for k in range(sb)] + mid + [[k] for k in range(n - se, n)]
    if f == "tensor_to_vec":
        return [list(range(n))]
    if f == "partial_tensor_to_vec":
        sb, se = cfg["sb"], cfg["se"]
        return [[k] for k in range(sb)] + [list(range(sb, n - se))] + [[k] for k in range(n - se, n)]
    if f == "matricize":
        row = _aslist(cfg["row"])
        col = _aslist(cfg["col"])
        if col is None:
            col = [k for k in range(n) if k not in row]
        return [row, col]
    raise KeyError(f)


def _prod(xs):
    r = 1
    for x in xs:
        r = r * x
    return r


def _ravel(idx, shape):
    r = 0
    for i, d in zip(idx, shape):
        r = r * d + i
    return r


def spec(cfg, dims):
    """(documented output shape, position map idx -> output multi-index); works on ints and z3 terms"""
    groups = groups_of(cfg)
    oshape = [_prod([dims[k] for k in g]) for g in groups]

    def pos(idx):
        return [_ravel([idx[k] for k in g], [dims[k] for k in g]) for g in groups]

    return oshape, pos


# ----------------------------------------------------------------------------- calls into the real code
def _marg(m):
    """matricize argument as the user would pass it: int stays int, list -> tuple"""
    if m is None or isinstance(m, int):
        return m
    return tuple(m)


def call_fwd(cfg, T):
    from tensorly import base

    f = cfg["fam"]
    if f == "unfold":
        return base.unfold(T, cfg["mode"])
    if f == "partial_unfold":
        if cfg.get("dflt"):
            return base.partial_unfold(T)
        return base.partial_unfold(T, mode=cfg["mode"], skip_begin=cfg["sb"], skip_end=cfg["se"], ravel_tensors=cfg["ravel"])
    if f == "tensor_to_vec":
        return base.tensor_to_vec(T)
    if f == "partial_tensor_to_vec":
        if cfg.get("dflt"):
            return base.partial_tensor_to_vec(T)
        return base.partial_tensor_to_vec(T, skip_begin=cfg["sb"], skip_end=cfg["se"])
    if f == "matricize":
        if cfg["col"] is None and cfg.get("dflt"):
            return base.matricize(T, _marg(cfg["row"]))
        return base.matricize(T, _marg(cfg["row"]), _marg(cfg["col"]))
    raise KeyError(f)


def call_inv(cfg, M, dims):
    from tensorly import base

    f = cfg["fam"]
    # the target shape is handed over as ONE list object used for two consecutive calls (callers keep such a list around); the
    # result of the second call is what the obligations look at, and the list itself must come back unchanged
    shape = list(dims)

    def once():
        if f == "unfold":
            return base.fold(M, cfg["mode"], shape)
        if f == "partial_unfold":
            if cfg.get("dflt"):
                return base.partial_fold(M, cfg["mode"], shape)
            return base.partial_fold(M, cfg["mode"], shape, skip_begin=cfg["sb"], skip_end=cfg["se"])
        if f == "tensor_to_vec":
            return base.vec_to_tensor(M, shape)
        if f == "partial_tensor_to_vec":
            if cfg.get("dflt"):
                return base.partial_vec_to_tensor(M, shape)
            return base.partial_vec_to_tensor(M, shape, skip_begin=cfg["sb"], skip_end=cfg["se"])
        raise KeyError(f)

    once()
    out = once()
    if len(shape) != len(dims) or any(a is not b for a, b in zip(shape, dims)):
        raise AssertionError("the refold operation modified the caller's shape list")
    return out


def apply_dir(cfg, X, dims):
    d = cfg["dir"]
    if d == "fwd":
        return call_fwd(cfg, X)
    if d == "inv":
        return call_inv(cfg, X, dims)
    if d == "rt":
        return call_inv(cfg, call_fwd(cfg, X), dims)
    if d == "rt2":
        return call_fwd(cfg, call_inv(cfg, X, dims))
    raise KeyError(d)


# ----------------------------------------------------------------------------- configurations
def _option_sets(n):
    """(family, options) for order n"""
    out = []
    for m in range(n):
        out.append(("unfold", dict(mode=m), f"m{m}"))
    for sb in range(n):
        for se in range(n - sb):
            inner = n - sb - se
            if inner < 1:
                continue
            for mode in range(inner):
                for rv in (False, True):
                    out.append(("partial_unfold", dict(mode=mode, sb=sb, se=se, ravel=rv), f"m{mode}/b{sb}/e{se}/r{int(rv)}"))
            out.append(("partial_tensor_to_vec", dict(sb=sb, se=se), f"b{sb}/e{se}"))
    if n >= 2:
        out.append(("partial_unfold", dict(mode=0, sb=1, se=0, ravel=False, dflt=True), "defaults"))
        out.append(("partial_tensor_to_vec", dict(sb=1, se=0, dflt=True), "defaults"))
    out.append(("tensor_to_vec", dict(), "-"))
    return out


def _matricize_sets(n):
    out = []
    modes = list(range(n))
    for k in range(n + 1):
        for row in itertools.permutations(modes, k):
            comp = [m for m in modes if m not in row]
            for col in itertools.permutations(comp):
                out.append((list(row), list(col)))
            out.append((list(row), None))
    # int arguments (the TypeError branches of the code)
    for m in modes:
        comp = [x for x in modes if x != m]
        out.append((m, None))
        out.append((m, comp))
        if n == 2:
            out.append((comp, m))
            out.append((m, comp[0]))
        else:
            out.append((comp, m))
    seen = set()
    res = []
    for r, c in out:
        key = (repr(r), repr(c))
        if key not in seen:
            seen.add(key)
            res.append((r, c))
    return res


def _tag(x):
    if x is None:
        return "None"
    if isinstance(x, int):
        return f"i{x}"
    return "(" + "".join(str(v) for v in x) + ")"


def configs(tier):
    quick = tier == "quick"
    orders = (1, 2, 3) if quick else (1, 2, 3, 4, 5)
    out = []
    for n in orders:
        B = 4 if n <= 4 else 2
        cost = {1: 1, 2: 2, 3: 5, 4: 60, 5: 8}[n]
        for fam, opts, tag in _option_sets(n):
            inv = INV_NAME[fam]
            for d, name in (("fwd", fam), ("inv", inv), ("rt", f"{inv}({fam})"), ("rt2", f"{fam}({inv})")):
                out.append(dict(key=f"{name}/o{n}/{tag}/B{B}", kind="sym", fam=fam, dir=d, order=n, B=B, cost=cost, **opts))
        for row, col in _matricize_sets(n):
            out.append(dict(key=f"matricize/o{n}/r{_tag(row)}/c{_tag(col)}/B{B}", kind="sym", fam="matricize", dir="fwd", order=n, B=B, row=row, col=col, dflt=(col is None), cost=cost))
        L = n + 1 if n <= 4 else n
        out.append(dict(key=f"matricize_validation/o{n}/L{L}", kind="validation", order=n, maxlen=L, cost=30 if n >= 4 else 3))
    eo = (1, 2, 3) if quick else (1, 2, 3, 4)
    for n in eo:
        for fam in FWD:
            out.append(dict(key=f"elem/{fam}/o{n}", kind="elem", fam=fam, order=n, cost=20 if n == 4 else 3))
    for fam in FWD:
        out.append(dict(key=f"dtype/{fam}", kind="dtype", fam=fam, orders=list(eo), cost=20))
    return out


def _jsonable(cfg):
    return {k: v for k, v in cfg.items() if k != "cost"}


# ----------------------------------------------------------------------------- concrete evaluation (replay + tables)
def concrete_obligations(cfg, shape):
    """run the REAL function on the REAL NumPy backend on np.arange(prod).reshape(shape) and evaluate every obligation"""
    import tensorly as tl

    assert tl.get_backend() == "numpy"
    dims = [int(d) for d in shape]
    oshape, pos = spec(cfg, dims)
    oshape = tuple(int(d) for d in oshape)
    total = int(np.prod(dims)) if dims else 1
    d = cfg["dir"]
    res = {}
    try:
        if d in ("fwd", "rt"):
            X = np.arange(total).reshape(dims)
        else:
            X = np.arange(total).reshape(oshape)
        R = apply_dir(cfg, X, dims)
    except Exception as e:  # noqa
        return {"__exception__": f"{type(e).__name__}: {e}"}
    want = {"fwd": oshape, "inv": tuple(dims), "rt": tuple(dims), "rt2": oshape}[d]
    res["shape"] = tuple(R.shape) == tuple(want)
    if not res["shape"]:
        res["__detail__"] = f"result shape {tuple(R.shape)} documented {tuple(want)}"
        return res
    bad = None
    if d == "fwd":
        for idx in np.ndindex(*dims):
            if R[tuple(pos(idx))] != X[idx]:
                bad = (idx, int(R[tuple(pos(idx))]), int(X[idx]))
                break
        res["layout"] = bad is None
        res["oracle_pos_in_range"] = all(all(0 <= p < s for p, s in zip(pos(idx), oshape)) for idx in np.ndindex(*dims))
    elif d == "inv":
        for idx in np.ndindex(*dims):
            if R[idx] != X[tuple(pos(idx))]:
                bad = (idx, int(R[idx]), int(X[tuple(pos(idx))]))
                break
        res["layout"] = bad is None
    else:
        ok = np.array_equal(R, X)
        res["identity"] = bool(ok)
        if not ok:
            w = np.argwhere(R != X)[0]
            bad = (tuple(int(v) for v in w), int(R[tuple(w)]), int(X[tuple(w)]))
    if bad is not None:
        res["__detail__"] = f"at index {bad[0]}: got source entry {bad[1]}, documented {bad[2]}"
    return res


def replay(body):
    inp = body["inputs"]
    cfg = inp["cfg"]
    ob = {"elem_layout": "layout", "elem_identity": "identity"}.get(body["obligation"], body["obligation"])
    kind = cfg.get("kind", "sym")
    if kind == "validation":
        return _replay_validation(inp)
    if kind == "dtype":
        return _replay_dtype(inp, ob)
    shape = inp["shape"]
    res = concrete_obligations(cfg, shape)
    if "__exception__" in res:
        return True, f"shape={tuple(shape)} real function raised {res['__exception__']}"
    if ob.startswith("reshape_size") or ob == "no_exception":
        return False, f"shape={tuple(shape)} real function did not raise"
    key = ob
    if key not in res:
        if not res.get("shape", True):
            return True, f"shape={tuple(shape)} {res.get('__detail__')}"
        return False, f"obligation {ob} not evaluated concretely ({sorted(res)})"
    if res[key] is False:
        return True, f"shape={tuple(shape)} {res.get('__detail__', '')}"
    return False, f"shape={tuple(shape)} obligation holds concretely"


# ----------------------------------------------------------------------------- symbolic run
class _Run:
    def __init__(self, cfg, tier):
        from vt import shape as S

        self.S = S
        self.cfg = cfg
        self.tier = tier
        self.stats = S.Stats()
        self.records = []
        self.timeout_ms = 20000 if tier == "quick" else 120000  # per obligation
        self.first_ms = 8000 if tier == "quick" else 30000  # first attempt: every mode size symbolic

    def rec(self, name, verdict, seconds=0.0, **kw):
        r = {"name": name, "verdict": verdict, "seconds": round(seconds, 3), "path": []}
        r.update(kw)
        self.records.append(r)
        return r

    def confirm(self, name, shape, index=None, extra=None):
        """replay a candidate counterexample on the real build"""
        from vt import harness

        inputs = {"cfg": _jsonable(self.cfg), "shape": [int(s) for s in shape], "index": None if index is None else [int(i) for i in index]}
        if extra:
            inputs.update(extra)
        path = harness.write_replay(PID, self.cfg["key"], name, inputs)
        ok, out = harness.run_replay(PID, path)
        # line-anchored on the replay's own verdict ("NOT-REPRODUCED property=" contains "REPRODUCED property=" as a substring)
        ok = ok and any(line.startswith("REPRODUCED property=") for line in out.splitlines())
        if ok:
            return "violated", {"replay": path, "inputs": inputs}
        try:
            os.remove(path)
        except OSError:
            pass
        return "inconclusive", {"note": "solver model did not reproduce on the real build: " + out.strip()[-200:]}

    def prove(self, name, assumptions, goal, dims, idx=None):
        S = self.S
        r, m, dt = S.decide(assumptions, goal, min(self.first_ms, self.timeout_ms), self.stats)
        method = "all mode sizes symbolic"
        shape = None
        if r == "unknown" and dims and "B" in self.cfg:
            r, m, dt2, ncases, shape = S.decide_split(assumptions, goal, dims, self.cfg["B"], max(self.timeout_ms - dt * 1000, self.timeout_ms / 2), self.stats)
            dt += dt2
            method = f"undecided in {self.first_ms // 1000}s with all sizes symbolic; decided by case split over the mode sizes ({ncases} cases, index and witnesses symbolic)"
        if r == "unsat":
            if dims and "B" in self.cfg:
                # the assumptions of a discharged obligation (index range + witness facts) must be satisfiable at full size
                rv, _, _ = S.decide(list(assumptions) + [dk == self.cfg["B"] for dk in dims], z3.BoolVal(False), 10000, None)
                if rv != "sat":
                    self.records.append({"name": "__vacuity__", "verdict": "vacuous" if rv == "unsat" else "vacuity-unknown", "seconds": 0.0, "path": [name]})
            return self.rec(name, "proved", dt, method=method)
        if r == "unknown":
            return self.rec(name, "inconclusive", dt, note=f"z3 unknown within {self.timeout_ms // 1000}s ({method})")
        if shape is None:
            shape = S.model_ints(m, dims)
        index = S.model_ints(m, idx) if idx else None
        verdict, info = self.confirm(name, shape, index)
        return self.rec(name, verdict, dt, method=method, **info)


def run_symbolic(cfg, tier):
    from vt import shape as S

    run = _Run(cfg, tier)
    n, B, d = cfg["order"], cfg["B"], cfg["dir"]
    ctx = S.new_ctx()
    dims = [z3.Int(f"d{k}") for k in range(n)]
    pre = [z3.And(dk >= 1, dk <= B) for dk in dims]
    oshape, pos = spec(cfg, dims)
    S.install()
    try:
        try:
            if d in ("fwd", "rt"):
                X = S.source(dims)
            else:
                X = S.source(oshape)
            R = apply_dir(cfg, X, dims)
            exc = None
        except Exception as e:  # noqa
            exc = e
            if os.environ.get("VT_DEBUG_EXC"):
                traceback.print_exc()
    finally:
        S.uninstall()
    # (iv) every reshape executed so far must be size compatible (decided under the facts that preceded it)
    for name, f, nf, desc in ctx.oblig:
        run.prove(name, pre + ctx.struct[:nf], f, dims)
    if exc is not None:
        # control flow of base.py does not depend on the sizes: the exception is shape independent
        detail = f"{type(exc).__name__}: {exc}"
        verdict, info = "inconclusive", {"note": "index-map run raised " + detail}
        for shp in ([2] * n, list(range(1, n + 1))):
            verdict, info = run.confirm("no_exception", shp)
            if verdict == "violated":
                break
        info["detail"] = detail
        run.rec("no_exception", verdict, 0.0, **info)
        return run
    run.rec("no_exception", "proved", 0.0, detail="index-map run completed; see reshape_size[*] for definedness")
    want = {"fwd": oshape, "inv": dims, "rt": dims, "rt2": oshape}[d]
    # (i) shape
    if len(R.shape) != len(want):
        verdict, info = run.confirm("shape", [2] * n)
        run.rec("shape", verdict, 0.0, detail=f"result has {len(R.shape)} axes, documented {len(want)}", **info)
        return run
    shape_ok = run.prove("shape", pre + ctx.struct, S.zand([S.eq(a, b) for a, b in zip(R.shape, want)]), dims)
    # (ii)/(iii) index map
    if d in ("fwd", "inv", "rt"):
        x = [z3.Int(f"x{k}") for k in range(n)]
        inr = S.in_range(x, dims)
        if d == "fwd":
            run.prove("oracle_pos_in_range", pre + [inr], S.in_range(pos(x), oshape), dims, x)
            wit = ctx.capture()
            o = R.off(pos(x))
            run.prove("layout", pre + ctx.struct + wit + [inr], S.eq(o, S.ravel(x, dims)), dims, x)
        elif d == "inv":
            wit = ctx.capture()
            o = R.off(x)
            run.prove("layout", pre + ctx.struct + wit + [inr], S.eq(o, S.ravel(pos(x), oshape)), dims, x)
        else:
            wit = ctx.capture()
            o = R.off(x)
            run.prove("identity", pre + ctx.struct + wit + [inr], S.eq(o, S.ravel(x, dims)), dims, x)
    else:
        y = [z3.Int(f"y{k}") for k in range(len(oshape))]
        inr = S.in_range(y, oshape)
        wit = ctx.capture()
        o = R.off(y)
        run.prove("identity", pre + ctx.struct + wit + [inr], S.eq(o, S.ravel(y, oshape)), dims, None)
    # vacuity: the facts used above must be satisfiable at both ends of the size range
    for tag, pin in (("min", 1), ("max", B)):
        r, _, _ = S.decide(pre + ctx.struct + [dk == pin for dk in dims], z3.BoolVal(False), 10000, None)
        if r != "sat":
            run.records.append({"name": "__vacuity__", "verdict": "vacuous" if r == "unsat" else "vacuity-unknown", "seconds": 0.0, "path": [tag]})
    run.records.append({"name": "__vacuity__", "verdict": "proved", "seconds": 0.0, "path": []})
    return run


# ----------------------------------------------------------------------------- (v) matricize validation: finite enumeration
def _validation_cases(n, maxlen):
    syms = list(range(-1, n + 1))
    for L in range(0, maxlen + 1):
        for seq in itertools.product(syms, repeat=L):
            for cut in range(L + 1):
                yield list(seq[:cut]), list(seq[cut:])


def _raised_by_base(e):
    tb = traceback.extract_tb(e.__traceback__)
    return bool(tb) and tb[-1].filename.replace("\\", "/").endswith("tensorly/base.py")


def _validation_outcome(T, n, row, col):
    """returns None if the documented behaviour is observed, else a description"""
    from tensorly import base

    valid = sorted(row + col) == list(range(n))
    try:
        base.matricize(T, tuple(row), tuple(col))
    except ValueError as e:
        if valid:
            return f"valid split rejected: {e}"
        if not _raised_by_base(e):
            return f"invalid split not rejected by matricize's own validation (downstream {type(e).__name__}: {e})"
        return None
    except Exception as e:  # noqa
        if valid:
            return f"valid split raised {type(e).__name__}: {e}"
        return f"invalid split not rejected by the validation (downstream {type(e).__name__}: {e})"
    if not valid:
        return "invalid split accepted silently"
    return None


def _none_outcome(T, n, row):
    from tensorly import base

    valid = len(set(row)) == len(row) and all(0 <= r < n for r in row)
    try:
        base.matricize(T, tuple(row))
    except Exception as e:  # noqa
        if valid:
            return f"valid row_modes raised {type(e).__name__}: {e}"
        return None
    if not valid:
        return "invalid row_modes accepted silently"
    return None


def run_validation(cfg, tier):
    from vt import shape as S

    run = _Run(cfg, tier)
    n, L = cfg["order"], cfg["maxlen"]
    dims = [z3.Int(f"d{k}") for k in range(n)]
    t0 = time.time()
    S.install()
    bad = None
    bad_none = None
    cnt = cnt_none = 0
    try:
        for row, col in _validation_cases(n, L):
            S.new_ctx()
            cnt += 1
            why = _validation_outcome(S.source(dims), n, row, col)
            if why is not None and bad is None:
                bad = (row, col, why)
            if not col:
                cnt_none += 1
                why = _none_outcome(S.source(dims), n, row)
                if why is not None and bad_none is None:
                    bad_none = (row, why)
    finally:
        S.uninstall()
    dt = time.time() - t0
    for name, b, c in (("validation_raises_iff_not_permutation", bad, cnt), ("none_column_never_silently_wrong", bad_none, cnt_none)):
        if b is None:
            run.rec(name, "proved", dt, kind="enumeration", detail=f"{c} argument tuples enumerated on the index-map backend")
        else:
            extra = {"row": b[0], "col": b[1] if len(b) == 3 else None, "which": name}
            verdict, info = run.confirm(name, [2] * n, None, extra)
            run.rec(name, verdict, dt, kind="enumeration", detail=b[-1], **info)
    return run


def _replay_validation(inp):
    n = inp["cfg"]["order"]
    T = np.arange(int(np.prod(inp["shape"]))).reshape(inp["shape"])
    if inp["which"] == "validation_raises_iff_not_permutation":
        why = _validation_outcome(T, n, list(inp["row"]), list(inp["col"]))
    else:
        why = _none_outcome(T, n, list(inp["row"]))
    return (why is not None), f"row_modes={inp['row']} column_modes={inp['col']}: {why}"


# ----------------------------------------------------------------------------- element movement (uninterpreted sort)
def _fwd_cfgs(fam, n):
    if fam == "matricize":
        return [dict(fam=fam, order=n, row=r, col=c, dflt=False) for r, c in _matricize_sets(n)]
    return [dict(fam=fam, order=n, **opts) for f, opts, tag in _option_sets(n) if f == fam]


def run_elem(cfg, tier):
    """entries are constants of an uninterpreted sort: no arithmetic exists, the output can only be built by moving entries"""
    from vt import shape as S

    run = _Run(cfg, tier)
    fam, n = cfg["fam"], cfg["order"]
    Elem = z3.DeclareSort("Elem")
    t0 = time.time()
    nq = 0
    failures = {}
    for shape in itertools.product((1, 2, 3), repeat=n):
        total = int(np.prod(shape))
        es = [z3.Const(f"e{i}", Elem) for i in range(total)]
        distinct = [z3.Distinct(es)] if total > 1 else []
        T = np.empty(total, dtype=object)
        for i, e in enumerate(es):
            T[i] = e
        T = T.reshape(shape)
        for c in _fwd_cfgs(fam, n):
            for d in ("fwd", "rt") if fam != "matricize" else ("fwd",):
                c2 = dict(c, dir=d, kind="sym")
                oshape, pos = spec(c2, list(shape))
                name = "elem_layout" if d == "fwd" else "elem_identity"
                if name in failures:
                    continue
                try:
                    R = apply_dir(c2, T, list(shape))
                    want = tuple(oshape) if d == "fwd" else tuple(shape)
                    if tuple(R.shape) != want or R.dtype != object:
                        goal = z3.BoolVal(False)
                    elif d == "fwd":
                        goal = z3.And([R[tuple(pos(idx))] == T[idx] for idx in np.ndindex(*shape)])
                    else:
                        goal = z3.And([R[idx] == T[idx] for idx in np.ndindex(*shape)])
                except Exception:  # noqa
                    goal = z3.BoolVal(False)
                r, m, dt = S.decide(distinct, goal, run.timeout_ms, run.stats)
                nq += 1
                if r != "unsat":
                    failures[name] = (r, c2, list(shape))
    dt = time.time() - t0
    for name in ("elem_layout",) + (("elem_identity",) if fam != "matricize" else ()):
        if name not in failures:
            run.rec(name, "proved", dt, kind="uninterpreted-sort, concrete shapes {1,2,3}^order, real NumPy backend", detail=f"{nq} queries")
            continue
        r, c2, shape = failures[name]
        if r == "unknown":
            run.rec(name, "inconclusive", dt, note="z3 unknown")
            continue
        # replay the same (function, options, shape) with integer entries
        saved = run.cfg
        run.cfg = dict(c2, key=cfg["key"])
        verdict, info = run.confirm(name, shape)
        run.cfg = saved
        run.rec(name, verdict, dt, **info)
    return run


# ----------------------------------------------------------------------------- dtype table (finite, concrete)
DTYPES = ["bool", "int8", "int16", "int32", "int64", "uint8", "uint16", "uint32", "uint64", "float16", "float32", "float64", "complex64", "complex128"]
DT_SHAPES = {1: [(3,), (1,)], 2: [(2, 3), (3, 1)], 3: [(2, 3, 2), (1, 2, 3)], 4: [(2, 1, 3, 2)]}


def _dtype_data(dtype, shape, seed):
    rng = np.random.RandomState(seed)
    total = int(np.prod(shape))
    dt = np.dtype(dtype)
    if dt == np.bool_:
        return rng.randint(0, 2, size=total).astype(bool).reshape(shape)
    raw = rng.bytes(total * dt.itemsize)  # arbitrary bit patterns: NaN payloads, -0.0, denormals, extremes
    return np.frombuffer(raw, dtype=dt).reshape(shape).copy()


def _bits(a):
    return np.ascontiguousarray(a).tobytes()


def _dtype_case(c2, shape, dtype, seed):
    """None if dtype and bytes are preserved, else description"""
    X = _dtype_data(dtype, shape, seed)
    dims = list(shape)
    oshape, pos = spec(c2, dims)
    try:
        R = apply_dir(c2, X, dims)
    except Exception as e:  # noqa
        return f"raised {type(e).__name__}: {e}"
    if R.dtype != X.dtype:
        return f"dtype {X.dtype} became {R.dtype}"
    if c2["dir"] == "fwd":
        if tuple(R.shape) != tuple(oshape):
            return f"shape {R.shape} documented {tuple(oshape)}"
        for idx in np.ndindex(*shape):
            if _bits(R[tuple(pos(idx))]) != _bits(X[idx]):
                return f"entry {idx} changed bits"
        return None
    if tuple(R.shape) != tuple(shape) or _bits(R) != _bits(X):
        return "refold(unfold(T)) is not bit-identical to T"
    return None


def run_dtype(cfg, tier):
    run = _Run(cfg, tier)
    fam = cfg["fam"]
    t0 = time.time()
    cnt = 0
    bad = {}
    for n in cfg["orders"]:
        for c in _fwd_cfgs(fam, n):
            for d in ("fwd", "rt") if fam != "matricize" else ("fwd",):
                c2 = dict(c, dir=d, kind="dtype")
                name = "concrete:dtype_and_bits_preserved" if d == "fwd" else "concrete:refold_bit_identical"
                for shape in DT_SHAPES[n]:
                    for dtype in DTYPES:
                        cnt += 1
                        why = _dtype_case(c2, shape, dtype, 1 + cnt % 7)
                        if why is not None and name not in bad:
                            bad[name] = (c2, shape, dtype, 1 + cnt % 7, why)
    dt = time.time() - t0
    for name in ("concrete:dtype_and_bits_preserved",) + (("concrete:refold_bit_identical",) if fam != "matricize" else ()):
        if name not in bad:
            run.rec(name, "proved", dt, kind="finite concrete table over NumPy dtypes (not a solver claim)", detail=f"{cnt} (function, options, shape, dtype) cases")
            continue
        c2, shape, dtype, seed, why = bad[name]
        saved = run.cfg
        run.cfg = dict(c2, key=cfg["key"])
        verdict, info = run.confirm(name, shape, None, {"dtype": dtype, "seed": seed})
        run.cfg = saved
        run.rec(name, verdict, dt, detail=why, **info)
    return run


def _replay_dtype(inp, ob):
    why = _dtype_case(inp["cfg"], tuple(inp["shape"]), inp["dtype"], inp["seed"])
    return (why is not None), f"shape={tuple(inp['shape'])} dtype={inp['dtype']}: {why}"


# ----------------------------------------------------------------------------- driver entry points
def run_config(cfg, tier):
    kind = cfg.get("kind", "sym")
    run = {"sym": run_symbolic, "validation": run_validation, "elem": run_elem, "dtype": run_dtype}[kind](cfg, tier)
    return {"records": run.records, "paths": 1, "complete": True, "stats": run.stats.as_dict()}


# ----------------------------------------------------------------------------- stub validation
def conformance(seed):
    """index-map backend (concrete twin + pinned symbolic encoding) against real NumPy offset tables; raises on mismatch"""
    import tensorly as tl
    from vt import shape as S

    rng = random.Random(seed)
    be = S.IdxBackend()
    Backend = S.Backend
    Backend._available_backends["numpy"] = S.NumpyBackend
    shapes = [s for n in range(1, 5) for s in itertools.product((1, 2, 3), repeat=n)]
    n_prim = n_fun = n_pin = n_err = 0
    t0 = time.time()

    def same(it, arr, what):
        if tuple(it.shape) != tuple(arr.shape):
            raise AssertionError(f"index-map model disagrees with NumPy on shape: {what}: {it.shape} vs {arr.shape}")
        tab = S.offset_table(it)
        if not np.array_equal(tab, arr):
            raise AssertionError(f"index-map model disagrees with NumPy on offsets: {what}")

    def newshapes(total):
        out = set()
        divs = [d for d in range(1, total + 1) if total % d == 0]
        for k in (1, 2, 3):
            for t in itertools.product(divs, repeat=k):
                if int(np.prod(t)) == total:
                    out.add(t)
                    for p in range(k):
                        out.add(t[:p] + (-1,) + t[p + 1 :])
        return sorted(out)

    # 1. primitives, exhaustively: transpose, moveaxis (negative axes too), reshape of contiguous and permuted sources
    for shp in shapes:
        S.new_ctx()
        n = len(shp)
        total = int(np.prod(shp))
        A = np.arange(total).reshape(shp)
        T = S.source(shp)
        same(be.transpose(T), np.transpose(A), f"transpose {shp}")
        perms = list(itertools.permutations(range(n)))
        for p in perms:
            same(be.transpose(T, p), np.transpose(A, p), f"transpose {shp} {p}")
            n_prim += 1
        for s in range(-n, n):
            for d in range(-n, n):
                same(be.moveaxis(T, s, d), np.moveaxis(A, s, d), f"moveaxis {shp} {s}->{d}")
                n_prim += 1
        nss = newshapes(total)
        for p in [perms[0], perms[-1]] + rng.sample(perms, min(2, len(perms))):
            for ns in nss:
                same(be.reshape(be.transpose(T, p), ns), np.reshape(np.transpose(A, p), ns), f"reshape {shp} {p} -> {ns}")
                n_prim += 1
        same(be.reshape(T, total), np.reshape(A, total), f"reshape {shp} -> int")
        same(be.reshape(T, -1), np.reshape(A, -1), f"reshape {shp} -> -1")
        # error behaviour agrees
        for f_model, f_np in (
            (lambda: be.reshape(T, (total + 1,)), lambda: np.reshape(A, (total + 1,))),
            (lambda: be.reshape(T, (total + 1, -1)), lambda: np.reshape(A, (total + 1, -1))),
            (lambda: be.reshape(T, (-1, -1)), lambda: np.reshape(A, (-1, -1))),
            (lambda: be.transpose(T, list(range(n)) + [0]), lambda: np.transpose(A, list(range(n)) + [0])),
            (lambda: be.transpose(T, [0] * n) if n > 1 else be.transpose(T, [1]), lambda: np.transpose(A, [0] * n) if n > 1 else np.transpose(A, [1])),
            (lambda: be.moveaxis(T, n, 0), lambda: np.moveaxis(A, n, 0)),
            (lambda: be.moveaxis(T, 0, -n - 1), lambda: np.moveaxis(A, 0, -n - 1)),
        ):
            e1 = e2 = None
            try:
                f_model()
            except Exception as e:  # noqa
                e1 = e
            try:
                f_np()
            except Exception as e:  # noqa
                e2 = e
            if (e1 is None) != (e2 is None) or (e1 is not None and not isinstance(e1, ValueError)) or (e2 is not None and not isinstance(e2, ValueError)):
                raise AssertionError(f"index-map model and NumPy disagree on rejecting an invalid call on shape {shp}: {e1!r} vs {e2!r}")
            n_err += 1

    # 2. the base.py functions through both backends (all option sets for order <= 3, seeded sample for order 4)
    def fun_cfgs(n):
        out = []
        for fam in FWD:
            for c in _fwd_cfgs(fam, n):
                for d in ("fwd", "inv", "rt", "rt2") if fam != "matricize" else ("fwd",):
                    out.append(dict(c, dir=d))
        return out

    def both(c, shp, src_model):
        """run the real function on NumPy and on the index-map backend; ('ok', want, got, ctx) | ('raised', ...) | ('unsupported', ...)"""
        oshape_c, _ = spec(c, list(shp))
        src = list(shp) if c["dir"] in ("fwd", "rt") else [int(v) for v in oshape_c]
        A = np.arange(int(np.prod(src))).reshape(src)
        e_np = e_md = want = got = None
        try:
            want = apply_dir(c, A, list(shp))
        except Exception as e:  # noqa
            e_np = e
        ctx = S.new_ctx()
        S.install()
        try:
            got = apply_dir(c, S.source(src_model(c, shp)), src_model.dims(c, shp))
        except Exception as e:  # noqa
            e_md = e
        finally:
            S.uninstall()
        if e_np is None and e_md is None:
            return "ok", want, got, ctx
        if e_md is not None and isinstance(e_md, (NotImplementedError, AttributeError, TypeError)) and not isinstance(e_np, type(e_md)):
            return "unsupported", None, None, None  # code under test uses an operation outside the model: reported by run_config, not a stub defect
        if e_np is not None and e_md is not None:
            return "raised", None, None, None  # both reject (a defect of the code under test is reported by run_config)
        if src_model is sym_src and e_np is not None:
            return "raised", None, None, None  # symbolic sizes: size errors surface as reshape_size obligations instead
        raise AssertionError(f"index-map model and NumPy disagree on raising: {c} on {shp}: numpy={e_np!r} model={e_md!r}")

    def conc_src(c, shp):
        oshape_c, _ = spec(c, list(shp))
        return list(shp) if c["dir"] in ("fwd", "rt") else [int(v) for v in oshape_c]

    conc_src.dims = lambda c, shp: list(shp)

    def sym_dims(c, shp):
        return [z3.Int(f"d{k}") for k in range(len(shp))]

    def sym_src(c, shp):
        dims = sym_dims(c, shp)
        oshape, _ = spec(c, dims)
        return dims if c["dir"] in ("fwd", "rt") else list(oshape)

    sym_src.dims = sym_dims

    pinned = []
    n_raised = n_unsup = 0
    for shp in shapes:
        n = len(shp)
        cs = fun_cfgs(n)
        if n == 4:
            cs = rng.sample(cs, 40)
        for c in cs:
            st, want, got, _ = both(c, shp, conc_src)
            if st == "ok":
                same(got, want, f"{c} on {shp}")
                n_fun += 1
            elif st == "raised":
                n_raised += 1
            else:
                n_unsup += 1
        pinned.append((shp, rng.choice(cs)))

    # 3. the symbolic encoding (witness facts) pinned to concrete sizes and indices must force NumPy's offset;
    #    both the block-decomposed encoding and the plain one (one witness vector per reshape) are validated
    sample = rng.sample(pinned, 24)
    for decompose in (True, False):
        S.DECOMPOSE = decompose
        try:
            for shp, c in sample:
                st, want, got, ctx = both(c, shp, sym_src)
                if st != "ok":
                    continue
                dims = sym_dims(c, shp)
                pin = [dk == v for dk, v in zip(dims, shp)]
                for name, f, nf, desc in ctx.oblig:
                    r, _, _ = S.decide(pin + ctx.struct[:nf], f, 10000)
                    if r != "unsat":
                        raise AssertionError(f"pinned reshape obligation not proved ({r}): {c} on {shp}")
                idxs = list(np.ndindex(*want.shape))
                for idx in rng.sample(idxs, min(3, len(idxs))):
                    wit = ctx.capture()
                    o = got.off([z3.IntVal(int(i)) for i in idx])
                    assum = pin + ctx.struct + wit
                    r1, _, _ = S.decide(assum, z3.BoolVal(False), 10000)
                    r2, _, _ = S.decide(assum, S.eq(o, int(want[idx])), 10000)
                    if r1 != "sat" or r2 != "unsat":
                        raise AssertionError(f"symbolic reshape encoding (decompose={decompose}) does not force NumPy's offset ({r1},{r2}): {c} on {shp} at {idx}")
                    n_pin += 1
        finally:
            S.DECOMPOSE = True

    # 4. the oracle's position map is a bijection onto the documented shape (concrete sanity of the spec itself)
    n_or = 0
    for shp in shapes:
        if len(shp) > 3:
            continue
        for fam in FWD:
            for c in _fwd_cfgs(fam, len(shp)):
                oshape, pos = spec(c, list(shp))
                seen = {tuple(pos(idx)) for idx in np.ndindex(*shp)}
                if len(seen) != int(np.prod(shp)) or int(np.prod(oshape)) != int(np.prod(shp)) or any(not all(0 <= p < s for p, s in zip(q, oshape)) for q in seen):
                    raise AssertionError(f"layout oracle is not a bijection: {c} on {shp}")
                n_or += 1
    assert tl.get_backend() == "numpy"
    assert Backend._available_backends["numpy"] is S.NumpyBackend
    return {
        "what": "stub validation (not a property claim): index-map backend vs real NumPy on all shapes {1,2,3}^(<=4)",
        "primitive_offset_tables": n_prim,
        "invalid_call_agreement": n_err,
        "base_function_offset_tables": n_fun,
        "base_function_cases_rejected_by_both": n_raised,
        "base_function_cases_outside_model": n_unsup,
        "pinned_symbolic_offsets": n_pin,
        "oracle_bijection_checks": n_or,
        "seconds": round(time.time() - t0, 2),
    }
