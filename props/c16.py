"""C16 -- seeded calls are reproducible and independent of the global NumPy random state.

Non-interference encoding.  Inside ONE harness path the same entry point is executed several times:

  run 1, run 2 : random_state = the same Python int            (obligations int_seed/...)
  run 3, run 4 : random_state = two separately built generators seeded identically (generator/...)

Symbolic mode: the REAL `Backend.check_random_state` is executed (the engine's own stub is switched off through
`backend.POLICY.rng`), with `np.random.RandomState` rebound to the stream model `SymRandomState` and
`np.random.mtrand._rand` (what `check_random_state(None)` returns) rebound to the *global stream*.  A draw from a
seeded stream is the uninterpreted term rnd_<kind>(seed, k, pos); a draw from the global stream is a FRESH
unconstrained variable each time, i.e. the global state is arbitrary in every run and arbitrarily changed in
between.  Module-level `np.random.*` functions are rebound to recorders that draw from the global stream, so code
that bypasses `check_random_state` is seen as well.  LAPACK-level kernels are functional stubs (same argument
terms => same outputs, nothing else known).  `out_1 == out_2` is then a validity query over all global draws: it
is sat exactly when an output entry depends on a global draw (or on the draw order of a shared generator).

Concrete mode (replay): the same harness performs the float experiment on the real NumPy backend -- two calls
with the same seed, the real global generator re-seeded and advanced in between, outputs compared bit-for-bit and
`np.random.get_state()` compared before/after each integer-seeded call.
"""
import sys

import numpy as np

import tensorly as tl

if hasattr(sys, "set_int_max_str_digits"):
    sys.set_int_max_str_digits(0)  # exact rationals built from float constants (1e-12 ...) can exceed the default str() limit

PID = "C16"
ENGINE = "E1"
EXPLANATION = (
    "Two (integer seed) plus two (identically seeded generators) symbolic executions of every seed-accepting entry point in one "
    "harness path; the real check_random_state runs against a stream model in which seeded draws are uninterpreted terms "
    "rnd(seed, draw index, position) and every draw from the global NumPy generator (np.random.mtrand._rand or a module-level "
    "np.random.* call) is a fresh unconstrained variable; kernels (solve/svd/qr/lstsq/eigh, inner NNLS solvers) are functional "
    "stubs. Obligations: outputs of the two runs are entrywise equal for all values of all global draws; an integer-seeded call "
    "consumes no global draw and never re-seeds/sets the global generator; functions without random choices return identical terms on repetition."
)
ENCODED = [
    "tensorly.backend.core.Backend.check_random_state",
    "tensorly.backend.core.Backend.randn",
    "tensorly.backend.core.Backend.gamma",
    "tensorly.random.base.random_tensor",
    "tensorly.random.base.random_cp",
    "tensorly.random.base.random_tucker",
    "tensorly.random.base.random_tt",
    "tensorly.random.base.random_tt_matrix",
    "tensorly.random.base.random_tr",
    "tensorly.random.base.random_parafac2",
    "tensorly.decomposition._cp.initialize_cp",
    "tensorly.decomposition._cp.parafac",
    "tensorly.decomposition._cp.sample_khatri_rao",
    "tensorly.decomposition._cp.randomised_parafac",
    "tensorly.decomposition._nn_cp.non_negative_parafac",
    "tensorly.decomposition._nn_cp.non_negative_parafac_hals",
    "tensorly.decomposition._constrained_cp.initialize_constrained_parafac",
    "tensorly.decomposition._constrained_cp.constrained_parafac",
    "tensorly.decomposition._tucker.initialize_tucker",
    "tensorly.decomposition._tucker.partial_tucker",
    "tensorly.decomposition._tucker.tucker",
    "tensorly.decomposition._tucker.non_negative_tucker",
    "tensorly.decomposition._tucker.non_negative_tucker_hals",
    "tensorly.decomposition._parafac2.initialize_decomposition",
    "tensorly.decomposition._parafac2.parafac2",
    "tensorly.decomposition._tr_als.tensor_ring_als",
    "tensorly.decomposition._tr_als.tensor_ring_als_sampled",
    "tensorly.decomposition._tt.tensor_train",
    "tensorly.contrib.decomposition._tt_cross.tensor_train_cross (initialisation)",
    "tensorly.tenalg.svd.randomized_range_finder",
    "tensorly.tenalg.svd.randomized_svd",
    "tensorly.tenalg.svd.svd_interface",
    "tensorly.regression.cp_regression.CPRegressor.fit",
    "tensorly.regression.tucker_regression.TuckerRegressor.fit",
]
BOUNDS = {
    "quick": "mode sizes 2, order 3 data tensors (order 2 for matrices, 2x2x1 for randomised_parafac), ranks <= 2 (one rank-3 SVD-padding case; PARAFAC2 R=1), one outer sweep, tol=0, "
    "seeds {0, 2**31-1} (the stream model is parametric in the seed), 2+2 runs per path",
    "thorough": "additionally seed 1, two outer sweeps for the CP / TR-ALS / regression entry points, a 3x2x2 data tensor; PARAFAC2 at R=1 only",
}
OUTSIDE = [
    "tensor_train_cross beyond its initialisation (tensorly/contrib/decomposition/_tt_cross.py): argmax pivoting over maxvol iterations on LAPACK outputs with data-dependent loop lengths -- not encodable within reach; the seeded index/core initialisation (n_iter_max=0) is covered for at most 8 integer draws per stream (two redraws after collisions)",
    "symmetric_parafac_power_iteration / parafac_power_iteration: draw from np.random directly but accept no random_state (not in the quantifier)",
    "non-NumPy backends; bit-level behaviour of the Mersenne Twister itself (modelled as an uninterpreted function of seed, draw index and position)",
    "sizes > 3, more than two sweeps",
    "tensor_ring_als_sampled(uniform_sampling=False): leverage_score_dist concretises an index from a comparison of SVD stub outputs (int(None) on a path); the uniform variant is covered",
    "parafac2 at R=2 (the orthonormality validation of projections built from SVD stub outputs is not decided within the branch budget): R=1 only",
    "tucker / randomised_parafac with two sweeps (> 4000 paths from svd_flip / integer draws); CP_PLSR (accepts random_state, never uses it; its code compares against inf)",
]
TRUSTED = [
    "z3",
    "stream model SymRandomState: RandomState(seed) is a deterministic function of (seed, sequence of draws); guarded by the obligation stub_guard/draw_sequences_match",
    "functional kernel stubs: LAPACK solve/svd/qr/lstsq/eigh and the inner solvers hals_nnls/fista are deterministic functions of their array arguments",
]
ASSUMPTIONS = [
    "determinism of LAPACK kernels and of the pure inner NNLS solvers (hals_nnls, fista) given identical arguments (they are replaced by functional stubs and take no random_state)",
    "reals instead of IEEE floats for the data-dependent control flow; every reported violation is re-run bit-for-bit in float64",
    "integer seeds in [0, 2**32): NumPy rejects others",
]

SEEDS_QUICK = (0, 2**31 - 1)
SEEDS_THOROUGH = (0, 1, 2**31 - 1)

_ORIG_RAND = np.random.mtrand._rand
_ORIG_RS = np.random.RandomState
_MODULE_FUNCS = sorted(
    {n for n in dir(np.random) if getattr(getattr(np.random, n), "__self__", None) is _ORIG_RAND}
    | {"seed", "get_state", "set_state", "rand", "randn", "random_sample", "random", "ranf", "sample", "normal", "uniform", "randint", "choice", "standard_normal", "gamma", "permutation", "shuffle"}
)


# ------------------------------------------------------------------------------------ dual-mode view of "the global RNG"
class GlobalRNG:
    def __init__(self, E):
        self.E = E
        self.modcalls = []
        self.streams = []  # symbolic: every seeded stream created, in creation order
        self.nperturb = 0
        if E.symbolic:
            self._install()

    def _install(self):
        from vt import backend

        from vt import sym

        me = self

        class Stream(backend.SymRandomState):
            def __init__(self, seed=None, label="seeded"):
                if seed is not None and not isinstance(seed, (int, np.integer)):
                    raise TypeError("only None/int seeds are modelled")
                backend.SymRandomState.__init__(self, seed, label)
                if seed is not None:
                    me.streams.append(self)

        self.Stream = Stream
        # the global stream is an instance of the class np.random.RandomState is rebound to (isinstance checks in tensorly)
        g = sym.CTX.grng = Stream(None, label="global")
        backend.patch(np.random.mtrand, "_rand", g)
        backend.patch(np.random, "RandomState", Stream)
        for name in _MODULE_FUNCS:
            if hasattr(np.random, name):
                backend.patch(np.random, name, self._recorder(name))

    def _recorder(self, name):
        from vt import backend

        def f(*a, **k):
            self.modcalls.append(name)
            g = backend.global_stream()
            if name in ("seed", "set_state"):
                g._vt_log.append((name, None))
                return None
            if name == "get_state":
                return g.get_state()
            if name in ("ranf", "sample"):
                return g.random_sample(*a, **k)
            if name in backend.SymRandomState.__dict__:
                return getattr(g, name)(*a, **k)
            raise NotImplementedError(f"np.random.{name} is not modelled")

        f.__name__ = name
        return f

    # -- observations
    def snapshot(self):
        if self.E.symbolic:
            from vt import backend

            g = backend.global_stream()
            return (g._vt_k, len(g._vt_log), len(self.modcalls))
        return np.random.get_state()

    def unchanged(self, a, b):
        if self.E.symbolic:
            return a == b
        return a[0] == b[0] and np.array_equal(a[1], b[1]) and tuple(a[2:]) == tuple(b[2:])

    def describe(self, a, b):
        if self.E.symbolic:
            return f"global draws {b[0] - a[0]}, log entries {b[1] - a[1]}, module-level np.random calls {self.modcalls[a[2]:b[2]]}"
        return ""

    def perturb(self):
        """arbitrary change of the global state between two calls"""
        self.nperturb += 1
        if self.E.symbolic:
            from vt import backend

            backend.global_stream().random_sample(2)  # fresh variables anyway; only advances the counter
        else:
            np.random.seed(977 * self.nperturb + 13)
            np.random.rand(3 + self.nperturb)
            np.random.randn(2)

    def generator(self, seed):
        if self.E.symbolic:
            return self.Stream(seed)
        return np.random.RandomState(seed)

    def mark(self):
        return len(self.streams)

    def draw_logs(self, a, b):
        return [(s._vt_seed, tuple(s._vt_log)) for s in self.streams[a:b]]


# ------------------------------------------------------------------------------------ output flattening / comparison
def flat(obj):
    """list of arrays (or scalars) making up a result"""
    from tensorly.cp_tensor import CPTensor
    from tensorly.tucker_tensor import TuckerTensor
    from tensorly.parafac2_tensor import Parafac2Tensor

    if obj is None:
        return []
    if isinstance(obj, Parafac2Tensor):
        return flat(obj.weights) + flat(list(obj.factors)) + flat(list(obj.projections))
    if isinstance(obj, CPTensor):
        return flat(obj.weights) + flat(list(obj.factors))
    if isinstance(obj, TuckerTensor):
        return flat(obj.core) + flat(list(obj.factors))
    if hasattr(obj, "factors") and not isinstance(obj, np.ndarray):
        return flat(list(obj.factors))
    if isinstance(obj, (list, tuple)):
        out = []
        for e in obj:
            out.extend(flat(e))
        return out
    return [obj]


def same(E, A, B):
    """entrywise equality of two flattened results: exact terms in symbolic mode, bit-for-bit in concrete mode"""
    if len(A) != len(B):
        return False
    conds = []
    for a, b in zip(A, B):
        if E.symbolic:
            a = np.asarray(a, dtype=object)
            b = np.asarray(b, dtype=object)
            if a.shape != b.shape:
                return False
            for x, y in zip(a.ravel(), b.ravel()):
                conds.append(E.eq(x, y))
        else:
            a = np.ascontiguousarray(np.asarray(a))
            b = np.ascontiguousarray(np.asarray(b))
            if a.shape != b.shape or a.dtype != b.dtype or a.tobytes() != b.tobytes():
                return False
    return E.And(conds) if E.symbolic else True


def functional_stub(kind, nn=False, out_like=2):
    """contract stub of a pure inner solver: fresh (non-negative) output memoised on the identity of its array arguments"""
    from vt import backend
    from vt.sym import sarr

    def stub(*args, **kw):
        arrs = [sarr(a) for a in args if isinstance(a, np.ndarray)]
        for k in sorted(kw):
            if isinstance(kw[k], np.ndarray):
                arrs.append(sarr(kw[k]))
            elif isinstance(kw[k], (list, tuple)) and kw[k] and isinstance(kw[k][0], np.ndarray):
                arrs.extend(sarr(a) for a in kw[k])
        for a in args:
            if isinstance(a, (list, tuple)) and a and isinstance(a[0], np.ndarray):
                arrs.extend(sarr(x) for x in a)
        arrs = tuple(arrs)
        hit = backend._lookup(kind, arrs)
        if hit is not None:
            return hit.copy()
        like = out_like(args, kw) if callable(out_like) else args[out_like]
        out = backend.fresh_array(kind, np.shape(like), nn=nn)
        backend._record(kind, arrs, out)
        return out.copy()

    return stub


def qr_orthonormal(A):
    """QR model for code that *validates* orthonormality of Q (PARAFAC2 projections): fresh Q with Q^T Q = I as always-on
    facts, fresh upper-triangular R, nothing else (no factorisation facts); functional through the engine's memo table."""
    from vt import backend, sym

    m, n = A.shape
    k = min(m, n)
    Q = backend.fresh_array("qrQ", (m, k))
    for f in backend.eq_facts(np.dot(Q.T, Q), np.eye(k, dtype=object)):
        sym.CTX.add_fact("def", f)
    R = np.zeros((k, n), dtype=object)
    for i in range(k):
        for j in range(i, n):
            R[i, j] = sym.SR(sym.CTX.fresh("qrR"))
    return Q, R.view(sym.SArr)


def svd_orthonormal(M, full_matrices):
    """SVD model with orthonormality of U and V as always-on facts (PARAFAC2 validates the projections U V^T it builds)."""
    from vt import backend, sym

    m, n = M.shape
    r = min(m, n)
    ku = m if full_matrices else r
    kv = n if full_matrices else r
    S = backend.sorted_nonneg("svdS", r)
    U = backend.fresh_array("svdU", (m, ku))
    V = backend.fresh_array("svdV", (kv, n))
    for f in backend.eq_facts(np.dot(U.T, U), np.eye(ku, dtype=object)) + backend.eq_facts(np.dot(V, V.T), np.eye(kv, dtype=object)):
        sym.CTX.add_fact("def", f)
    return U, S, V


def stub_inner_solvers():
    from vt import backend
    import tensorly.decomposition._nn_cp as m_nn
    import tensorly.decomposition._tucker as m_tk

    h = functional_stub("hals_nnls", nn=True, out_like=2)
    backend.patch(m_nn, "hals_nnls", h)
    backend.patch(m_tk, "hals_nnls", h)
    backend.patch(m_tk, "fista", functional_stub("fista", nn=True, out_like=lambda a, k: k["x"]))


# ------------------------------------------------------------------------------------ entry points
# every builder returns call(random_state) -> result; data are declared once (shared by all runs)
def _T(E, cfg, name="T"):
    return E.real(name, cfg.get("shape", (2, 2, 2)))


def ep_random_tensor(E, cfg):
    from tensorly.random import random_tensor

    return lambda rs: random_tensor((2, 3), random_state=rs)


def ep_random_cp(E, cfg):
    from tensorly.random import random_cp

    kw = dict(cfg.get("kw", {}))
    return lambda rs: random_cp((2, 2, 2), 2, random_state=rs, **kw)


def ep_random_tucker(E, cfg):
    from tensorly.random import random_tucker

    kw = dict(cfg.get("kw", {}))
    return lambda rs: random_tucker((2, 2, 2), (2, 1, 2), random_state=rs, **kw)


def ep_random_tt(E, cfg):
    from tensorly.random import random_tt

    kw = dict(cfg.get("kw", {}))
    return lambda rs: random_tt((2, 2, 2), (1, 2, 2, 1), random_state=rs, **kw)


def ep_random_tt_matrix(E, cfg):
    from tensorly.random import random_tt_matrix

    return lambda rs: random_tt_matrix((2, 2, 2, 2), (1, 2, 1), random_state=rs)


def ep_random_tr(E, cfg):
    from tensorly.random import random_tr

    kw = dict(cfg.get("kw", {}))
    return lambda rs: random_tr((2, 2, 2), (2, 1, 2, 2), random_state=rs, **kw)


def ep_random_parafac2(E, cfg):
    from tensorly.random import random_parafac2

    kw = dict(cfg.get("kw", {}))
    return lambda rs: random_parafac2([(2, 2), (3, 2)], 2, random_state=rs, **kw)


def ep_backend_randn(E, cfg):
    return lambda rs: tl.randn((2, 2), seed=rs)


def ep_backend_gamma(E, cfg):
    return lambda rs: tl.gamma(2.0, scale=1.5, size=(2, 2), seed=rs)


def ep_parafac(E, cfg):
    from tensorly.decomposition import parafac

    T = _T(E, cfg)
    kw = dict(init="random", n_iter_max=cfg.get("sweeps", 1), tol=0)
    kw.update(cfg.get("kw", {}))
    rank = cfg.get("rank", 2)
    return lambda rs: parafac(T, rank, random_state=rs, **kw)


def ep_non_negative_parafac(E, cfg):
    from tensorly.decomposition import non_negative_parafac

    T = _T(E, cfg)
    kw = dict(init="random", n_iter_max=cfg.get("sweeps", 1), tol=0)
    kw.update(cfg.get("kw", {}))
    return lambda rs: non_negative_parafac(T, 2, random_state=rs, **kw)


def ep_non_negative_parafac_hals(E, cfg):
    from tensorly.decomposition import non_negative_parafac_hals

    T = _T(E, cfg)
    if E.symbolic:
        stub_inner_solvers()
    kw = dict(init="random", n_iter_max=cfg.get("sweeps", 1), tol=0)
    kw.update(cfg.get("kw", {}))
    return lambda rs: non_negative_parafac_hals(T, 2, random_state=rs, **kw)


def ep_constrained_parafac(E, cfg):
    from tensorly.decomposition import constrained_parafac

    T = _T(E, cfg)
    kw = dict(init="random", n_iter_max=cfg.get("sweeps", 1), n_iter_max_inner=1, tol_outer=0, tol_inner=0, non_negative=True)
    kw.update(cfg.get("kw", {}))
    rank = cfg.get("rank", 2)
    return lambda rs: constrained_parafac(T, rank, random_state=rs, **kw)


def ep_tucker(E, cfg):
    from tensorly.decomposition import tucker

    T = _T(E, cfg)
    kw = dict(init="random", n_iter_max=cfg.get("sweeps", 1), tol=0)
    kw.update(cfg.get("kw", {}))
    return lambda rs: tucker(T, cfg.get("rank", [2, 1, 2]), random_state=rs, **kw)


def ep_partial_tucker(E, cfg):
    from tensorly.decomposition import partial_tucker

    T = _T(E, cfg)
    kw = dict(init="random", n_iter_max=cfg.get("sweeps", 1), tol=0)
    kw.update(cfg.get("kw", {}))
    return lambda rs: partial_tucker(T, [2, 1], modes=[0, 2], random_state=rs, **kw)


def ep_non_negative_tucker(E, cfg):
    from tensorly.decomposition import non_negative_tucker

    T = _T(E, cfg)
    kw = dict(init="random", n_iter_max=cfg.get("sweeps", 1), tol=0)
    kw.update(cfg.get("kw", {}))
    return lambda rs: non_negative_tucker(T, [2, 1, 2], random_state=rs, **kw)


def ep_non_negative_tucker_hals(E, cfg):
    from tensorly.decomposition import non_negative_tucker_hals

    T = _T(E, cfg)
    if E.symbolic:
        stub_inner_solvers()
    kw = dict(init="random", n_iter_max=cfg.get("sweeps", 1), tol=0)
    kw.update(cfg.get("kw", {}))
    return lambda rs: non_negative_tucker_hals(T, [2, 1, 2], random_state=rs, **kw)


def ep_parafac2(E, cfg):
    from tensorly.decomposition import parafac2

    T = _T(E, cfg)
    kw = dict(init="random", n_iter_max=cfg.get("sweeps", 1), tol=0, n_iter_parafac=1)
    kw.update(cfg.get("kw", {}))
    return lambda rs: parafac2(T, cfg.get("rank", 2), random_state=rs, **kw)


def ep_tensor_ring_als(E, cfg):
    from tensorly.decomposition import tensor_ring_als

    T = _T(E, cfg)
    kw = dict(n_iter_max=cfg.get("sweeps", 1), tol=0)
    kw.update(cfg.get("kw", {}))
    return lambda rs: tensor_ring_als(T, [2, 1, 2, 2], random_state=rs, **kw)


def ep_tensor_ring_als_sampled(E, cfg):
    from tensorly.decomposition import tensor_ring_als_sampled

    T = _T(E, cfg)
    kw = dict(n_iter_max=cfg.get("sweeps", 1), tol=0, uniform_sampling=True)
    kw.update(cfg.get("kw", {}))
    return lambda rs: tensor_ring_als_sampled(T, [1, 2, 1, 1], cfg.get("n_samples", 1), random_state=rs, **kw)


def ep_randomised_parafac(E, cfg):
    from tensorly.decomposition import randomised_parafac

    T = _T(E, cfg)
    kw = dict(init="random", n_iter_max=cfg.get("sweeps", 1), tol=0, max_stagnation=0)
    kw.update(cfg.get("kw", {}))
    return lambda rs: randomised_parafac(T, 2, cfg.get("n_samples", 1), random_state=rs, **kw)


def ep_sample_khatri_rao(E, cfg):
    from tensorly.decomposition._cp import sample_khatri_rao

    A = E.real("A", (2, 2))
    B = E.real("B", (3, 2))
    C = E.real("C", (2, 2))
    kw = dict(cfg.get("kw", {}))
    return lambda rs: sample_khatri_rao([A, B, C], 2, random_state=rs, **kw)


def ep_tt_cross_init(E, cfg):
    """index/core initialisation of tensor_train_cross (n_iter_max=0: the maxvol sweeps are outside the claim).  The start
    indices are redrawn on collision: explored up to cfg['int_draw_limit'] integer draws per stream"""
    from tensorly.contrib.decomposition import tensor_train_cross

    X = E.real("X", (2, 2, 2))
    import io, contextlib

    def call(rs):
        # with a zero budget the function draws its start indices and cores and then raises "Maximum number of iterations
        # reached": nothing is returned, the observable is the use of the random streams (global state untouched)
        try:
            with contextlib.redirect_stdout(io.StringIO()):
                return list(tensor_train_cross(X, [1, 2, 2, 1], tol=0, n_iter_max=0, random_state=rs))
        except ValueError as e:
            if "Maximum number of iterations" not in str(e):
                raise
            return []

    return call


def ep_randomized_range_finder(E, cfg):
    from tensorly.tenalg.svd import randomized_range_finder

    M = E.real("M", (2, 3))
    return lambda rs: randomized_range_finder(M, 2, n_iter=1, random_state=rs)


def ep_randomized_svd(E, cfg):
    from tensorly.tenalg.svd import randomized_svd

    M = E.real("M", cfg.get("mshape", (2, 3)))
    return lambda rs: randomized_svd(M, n_eigenvecs=cfg.get("k", 2), n_oversamples=1, n_iter=1, random_state=rs)


def ep_svd_interface_randomized(E, cfg):
    from tensorly.tenalg.svd import svd_interface

    M = E.real("M", (2, 2))
    return lambda rs: svd_interface(M, method="randomized_svd", n_eigenvecs=1, n_oversamples=1, n_iter=1, random_state=rs)


def ep_cp_regressor(E, cfg):
    from tensorly.regression.cp_regression import CPRegressor

    X = E.real("X", (2, 2, 2))
    y = E.real("y", (2,))

    def call(rs):
        m = CPRegressor(weight_rank=cfg.get("rank", 2), tol=0, reg_W=1, n_iter_max=cfg.get("sweeps", 1), random_state=rs, verbose=0)
        m.fit(X, y)
        return [m.weight_tensor_, m.cp_weight_, m.vec_W_]

    return call


def ep_tucker_regressor(E, cfg):
    from tensorly.regression.tucker_regression import TuckerRegressor

    X = E.real("X", (2, 2, 2))
    y = E.real("y", (2,))

    def call(rs):
        m = TuckerRegressor(weight_ranks=[2, 1], tol=0, reg_W=1, n_iter_max=cfg.get("sweeps", 1), random_state=rs, verbose=0)
        m.fit(X, y)
        return [m.weight_tensor_, m.tucker_weight_, m.vec_W_]

    return call


def refit_cp_regressor(E, cfg):
    from tensorly.regression.cp_regression import CPRegressor

    X = E.real("X", (2, 2, 2))
    y = E.real("y", (2,))

    def fit(m):
        m.fit(X, y)
        return [m.weight_tensor_, m.vec_W_]

    return (lambda rs: CPRegressor(weight_rank=1, tol=0, reg_W=1, n_iter_max=1, random_state=rs, verbose=0)), fit


def refit_tucker_regressor(E, cfg):
    from tensorly.regression.tucker_regression import TuckerRegressor

    X = E.real("X", (2, 2, 2))
    y = E.real("y", (2,))

    def fit(m):
        m.fit(X, y)
        return [m.weight_tensor_, m.vec_W_]

    return (lambda rs: TuckerRegressor(weight_ranks=[1, 1], tol=0, reg_W=1, n_iter_max=1, random_state=rs, verbose=0)), fit


REFIT = {"CPRegressor": refit_cp_regressor, "TuckerRegressor": refit_tucker_regressor}


# class wrappers (thin: they forward random_state) -- one representative
def ep_class_CP(E, cfg):
    from tensorly.decomposition import CP

    T = _T(E, cfg)
    return lambda rs: CP(2, init="random", n_iter_max=1, tol=0, random_state=rs).fit_transform(T)


SEEDED = {
    "random_tensor": ep_random_tensor,
    "random_cp": ep_random_cp,
    "random_tucker": ep_random_tucker,
    "random_tt": ep_random_tt,
    "random_tt_matrix": ep_random_tt_matrix,
    "random_tr": ep_random_tr,
    "random_parafac2": ep_random_parafac2,
    "backend_randn": ep_backend_randn,
    "backend_gamma": ep_backend_gamma,
    "parafac": ep_parafac,
    "non_negative_parafac": ep_non_negative_parafac,
    "non_negative_parafac_hals": ep_non_negative_parafac_hals,
    "constrained_parafac": ep_constrained_parafac,
    "tucker": ep_tucker,
    "partial_tucker": ep_partial_tucker,
    "non_negative_tucker": ep_non_negative_tucker,
    "non_negative_tucker_hals": ep_non_negative_tucker_hals,
    "parafac2": ep_parafac2,
    "tensor_ring_als": ep_tensor_ring_als,
    "tensor_ring_als_sampled": ep_tensor_ring_als_sampled,
    "randomised_parafac": ep_randomised_parafac,
    "sample_khatri_rao": ep_sample_khatri_rao,
    "tt_cross_init": ep_tt_cross_init,
    "randomized_range_finder": ep_randomized_range_finder,
    "randomized_svd": ep_randomized_svd,
    "svd_interface_randomized": ep_svd_interface_randomized,
    "CPRegressor": ep_cp_regressor,
    "TuckerRegressor": ep_tucker_regressor,
    "class_CP": ep_class_CP,
}


# ---- entry points without random choices: repetition gives identical results
def det_parafac_svd(E, cfg):
    from tensorly.decomposition import parafac

    T = _T(E, cfg)
    return lambda: parafac(T, 2, init="svd", n_iter_max=1, tol=0)


def det_tucker_svd(E, cfg):
    from tensorly.decomposition import tucker

    T = _T(E, cfg)
    return lambda: tucker(T, [1, 2, 1], init="svd", n_iter_max=1, tol=0)


def det_tensor_train(E, cfg):
    from tensorly.decomposition import tensor_train

    T = _T(E, cfg)
    return lambda: tensor_train(T, [1, 2, 2, 1])


def det_tensor_ring(E, cfg):
    from tensorly.decomposition import tensor_ring

    T = _T(E, cfg)
    return lambda: tensor_ring(T, [1, 2, 2, 1])


def det_non_negative_parafac_svd(E, cfg):
    from tensorly.decomposition import non_negative_parafac

    T = _T(E, cfg)
    return lambda: non_negative_parafac(T, 1, init="svd", n_iter_max=1, tol=0)


def det_parafac2_svd(E, cfg):
    from tensorly.decomposition import parafac2

    T = _T(E, cfg)
    return lambda: parafac2(T, 1, init="svd", n_iter_max=1, tol=0, n_iter_parafac=1)


def det_tenalg(E, cfg):
    from tensorly import tenalg
    from tensorly.cp_tensor import cp_to_tensor, cp_normalize
    from tensorly.tucker_tensor import tucker_to_tensor

    T = _T(E, cfg)
    A = E.real("A", (2, 2))
    B = E.real("B", (2, 2))
    C = E.real("C", (2, 2))
    w = E.real("w", (2,))

    def call():
        return [
            tenalg.khatri_rao([A, B, C]),
            tenalg.kronecker([A, B]),
            tenalg.mode_dot(T, A, 1),
            tenalg.multi_mode_dot(T, [A, B, C]),
            tenalg.inner(T, T),
            tenalg.outer([w, w]),
            tenalg.unfolding_dot_khatri_rao(T, (w, [A, B, C]), 1),
            cp_to_tensor((w, [A, B, C])),
            tucker_to_tensor((T, [A, B, C])),
            cp_normalize((w, [A, B, C])),
            tl.unfold(T, 1),
            tl.norm(T, 2),
        ]

    return call


def det_svd_interface(E, cfg):
    from tensorly.tenalg.svd import svd_interface

    M = E.real("M", (2, 3))
    return lambda: [svd_interface(M, method="truncated_svd", n_eigenvecs=2), svd_interface(M, method="symeig_svd", n_eigenvecs=2)]


def det_cp_plsr(E, cfg):
    from tensorly.regression.cp_plsr import CP_PLSR

    X = E.real("X", (3, 2, 2))
    Y = E.real("Y", (3, 2))

    def call():
        m = CP_PLSR(1, n_iter_max=1, tol=0)
        m.fit(X, Y)
        return [list(m.X_factors), list(m.Y_factors)]

    return call


DETERMINISTIC = {
    "parafac_svd": det_parafac_svd,
    "tucker_svd": det_tucker_svd,
    "tensor_train": det_tensor_train,
    "tensor_ring": det_tensor_ring,
    "non_negative_parafac_svd": det_non_negative_parafac_svd,
    "parafac2_svd": det_parafac2_svd,
    "tenalg": det_tenalg,
    "svd_interface": det_svd_interface,
}


# ------------------------------------------------------------------------------------ configurations
def configs(tier):
    q = tier == "quick"
    seeds = SEEDS_QUICK if q else SEEDS_THOROUGH
    out = []

    def add(ep, variant="default", seeds_=None, **kw):
        for s in seeds_ or seeds:
            d = dict(key=f"{ep}/{variant}/seed{s}", kind="seeded", ep=ep, seed=s, max_paths=4000, timeout_s=150 if q else 1200, vacuity=False)
            d.update(kw)
            out.append(d)

    one = seeds[:1]
    add("random_tensor")
    add("random_cp")
    add("random_cp", "orthogonal", one, kw=dict(orthogonal=True))
    add("random_cp", "full", one, kw=dict(full=True))
    add("random_cp", "unnormalised", one, kw=dict(normalise_factors=False))
    add("random_tucker")
    add("random_tucker", "orthogonal", one, kw=dict(orthogonal=True))
    add("random_tucker", "non_negative_full", one, kw=dict(non_negative=True, full=True))
    add("random_tt")
    add("random_tt", "full", one, kw=dict(full=True))
    add("random_tt_matrix")
    add("random_tr")
    add("random_tr", "full", one, kw=dict(full=True))
    add("random_parafac2", qr="orth", branch_timeout_ms=10000)
    add("random_parafac2", "normalised_full", one, qr="orth", branch_timeout_ms=10000, kw=dict(normalise_factors=True, full=True))
    add("backend_randn")
    add("backend_gamma")
    add("parafac", "random")
    add("parafac", "random_normalize", one, kw=dict(normalize_factors=True))
    add("parafac", "svd_rank3_padding", one, rank=3, sweeps=0 if q else 1, kw=dict(init="svd"))
    add("parafac", "random_orthogonalise", one, kw=dict(orthogonalise=True))
    add("non_negative_parafac", "random")
    add("non_negative_parafac_hals", "random")
    # (on the current tree these are the known finding: the satisfiable queries need nlsat models under root-atom facts)
    add("constrained_parafac", "random", one, timeout_s=170 if q else 1200)
    add("constrained_parafac", "random_budget0", sweeps=0)
    add("constrained_parafac", "svd_rank3_padding", one, rank=3, sweeps=0 if q else 1, kw=dict(init="svd"))
    add("tucker", "random")
    # only initialize_tucker uses the svd method (the HOOI loop always calls the default truncated_svd): zero sweeps
    add("tucker", "svd_randomized_svd_init", one, shape=(2, 2), rank=[1, 1], sweeps=0, kw=dict(init="svd", svd="randomized_svd"))
    add("partial_tucker", "random", one)
    add("non_negative_tucker", "random")
    add("non_negative_tucker_hals", "random")
    add("parafac2", "random_rank1", qr="orth", rank=1, branch_timeout_ms=10000)
    add("tensor_ring_als", "lstsq")
    add("tensor_ring_als", "normal_eq", one, kw=dict(ls_solve="normal_eq"))
    add("tensor_ring_als_sampled", "uniform")
    add("randomised_parafac", "random", shape=(2, 2, 1) if q else (2, 2, 2))
    add("sample_khatri_rao")
    add("sample_khatri_rao", "skip_rows", one, kw=dict(skip_matrix=1, return_sampled_rows=True))
    add("tt_cross_init", "collisions_le_2", one, int_draw_limit=8)  # 6 draws without collision
    add("randomized_range_finder")
    add("randomized_svd")
    add("randomized_svd", "transposed_branch", one, mshape=(3, 2), k=3)
    add("svd_interface_randomized")
    add("CPRegressor")
    add("TuckerRegressor")
    add("CPRegressor", "refit", one, kind="refit")
    add("TuckerRegressor", "refit", one, kind="refit")
    add("class_CP", "random", one)
    if not q:
        # (tucker / randomised_parafac with two sweeps: > 4000 paths from svd_flip / integer draws -- not in the bound)
        for ep in ("parafac", "non_negative_parafac", "non_negative_parafac_hals", "constrained_parafac", "tensor_ring_als", "CPRegressor", "TuckerRegressor"):
            add(ep, "two_sweeps", one, sweeps=2)
        add("parafac2", "two_sweeps_rank1", one, sweeps=2, qr="orth", rank=1, branch_timeout_ms=10000)
        for ep in ("parafac", "constrained_parafac", "tucker", "tensor_ring_als"):
            add(ep, "shape322", one, shape=(3, 2, 2))
    for name in DETERMINISTIC:
        d = dict(key=f"deterministic/{name}", kind="det", ep=name, max_paths=4000, timeout_s=150 if q else 1200, vacuity=False)
        if name == "parafac2_svd":
            d["qr"] = "orth"
            d["branch_timeout_ms"] = 10000
        out.append(d)
    return out


# ------------------------------------------------------------------------------------ harness
def _vacuity_first_path(E):
    """The harness states no precondition and the kernel stubs carry no contract facts (havoc), so the only facts on a path
    are branch decisions (each checked feasible when taken), ranges of draws and sound consequences of root atoms.  The
    driver's per-path vacuity query is therefore switched off in the configurations (it costs seconds per path once
    nonlinear root facts exist) and run once, on the first path of every configuration."""
    if E.symbolic:
        from vt import sym

        if not sym.CTX.prefix:
            E.vacuity()


def harness(E, cfg):
    try:
        _harness(E, cfg)
    finally:
        pass
    _vacuity_first_path(E)


def _harness(E, cfg):
    if E.symbolic:
        from vt import backend
        from tensorly.backend.core import Backend

        backend.configure(solve="havoc", lstsq="havoc", svd=cfg["svd"] if "svd" in cfg else (svd_orthonormal if cfg.get("qr") == "orth" else "havoc"), qr=qr_orthonormal if cfg.get("qr") == "orth" else "havoc", eigh="havoc", rng=Backend.check_random_state)
        # queries here are either syntactically valid or have an easy model (a global draw that differs): a long refinement of
        # root atoms buys nothing, the float replay decides
        E.q_timeout_ms = cfg.get("q_timeout_ms", 6000)
        backend.POLICY.int_draw_limit = cfg.get("int_draw_limit")
        from vt import sym as _sym

        _sym.CTX.eval_first = True  # stub memo lookups compare large argument terms: refute by evaluation before expanding
    G = GlobalRNG(E)
    if cfg["kind"] == "det":
        call = DETERMINISTIC[cfg["ep"]](E, cfg)
        if not E.symbolic:
            np.random.seed(4321)
        s0 = G.snapshot()
        o1 = flat(call())
        G.perturb()
        o2 = flat(call())
        G.perturb()
        o3 = flat(call())
        E.prove("repeat/same_result", same(E, o1, o2))
        E.prove("repeat/same_result_third_call", same(E, o1, o3))
        return
    seed = cfg["seed"]
    if cfg["kind"] == "refit":
        # ONE estimator object built with an integer seed and fitted twice: both fits are 'calls with the same integer seed'
        make, fit = REFIT[cfg["ep"]](E, cfg)
        if not E.symbolic:
            np.random.seed(1234)
        est = make(seed)
        s0 = G.snapshot()
        o1 = flat(fit(est))
        G.perturb()
        o2 = flat(fit(est))
        E.prove("int_seed/same_estimator_refitted/same_result", same(E, o1, o2))
        return
    call = SEEDED[cfg["ep"]](E, cfg)
    if not E.symbolic:
        np.random.seed(1234)
        np.random.rand(7)
    # ---- the same integer seed twice, global state arbitrary and changed in between
    m0 = G.mark()
    s0 = G.snapshot()
    o1 = flat(call(seed))
    s1 = G.snapshot()
    m1 = G.mark()
    G.perturb()
    s2 = G.snapshot()
    o2 = flat(call(seed))
    s3 = G.snapshot()
    m2 = G.mark()
    E.prove("int_seed/same_result", same(E, o1, o2))
    E.prove("int_seed/global_state_untouched/first_call", G.unchanged(s0, s1), detail=G.describe(s0, s1))
    E.prove("int_seed/global_state_untouched/second_call", G.unchanged(s2, s3), detail=G.describe(s2, s3))
    # ---- two separately constructed generators seeded identically
    G.perturb()
    g1 = G.generator(seed)
    g2 = G.generator(seed)
    m3 = G.mark()
    o3 = flat(call(g1))
    m4 = G.mark()
    G.perturb()
    o4 = flat(call(g2))
    m5 = G.mark()
    E.prove("generator/same_result", same(E, o3, o4))
    if E.symbolic:
        # soundness guard of the stream model (rnd(seed, k, pos) ignores how many values earlier draws consumed):
        # both runs must issue the same sequence of (kind, shape) draws on corresponding streams
        ok = G.draw_logs(m0, m1) == G.draw_logs(m1, m2) and tuple(g1._vt_log) == tuple(g2._vt_log) and G.draw_logs(m3, m4) == G.draw_logs(m4, m5)
        E.prove("stub_guard/draw_sequences_match", ok)
