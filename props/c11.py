"""C11 -- constrained CP returns factors satisfying every requested hard constraint.

(1) spec: `validate_constraints` maps a user specification (12 keyword slots; scalar / per-mode list / per-mode dict; symbolic positive
    parameter values) to exactly the (kind, parameter) the specification assigns to each mode, and raises ValueError iff two kinds claim one mode.
(2) data flow: in `constrained_parafac` the factor returned for a constrained, non-fixed mode IS the output of the proximal operator called with
    that mode's (kind, parameter) -- proximal_operator is replaced by a tagging stub that returns fresh variables, so "is" is decided as term identity;
    factors of fixed modes / zero-budget user initialisations are the supplied factors (assumed feasible: precondition shared with C14).
(3) that a real proximal-operator output is feasible for its constraint set is C12's obligation (KKT oracles include feasibility)."""
import itertools

import numpy as np

import tensorly as tl

PID = "C11"
ENGINE = "E1"
EXPLANATION = (
    "Compositional: (1) the real validate_constraints is executed on every specification of a finite family (all 12 kinds alone as scalar/list/dict on every mode "
    "subset of 3 modes; all pairs of 4 representative kinds in all form combinations) with symbolic positive parameters, and its answer for every `order` is compared with the "
    "specification's own assignment, including the exact set of specifications that must be rejected; (2) constrained_parafac runs symbolically with proximal_operator replaced "
    "by a tagging stub (fresh outputs, recorded keyword arguments) and havoc'd solves: every returned factor of a constrained non-fixed mode is term-identical to the output of a "
    "stub call that was given order == that mode and exactly the user's constraint keywords; (3) feasibility of real prox outputs is discharged by C12."
)
ENCODED = [
    "tensorly.tenalg.proximal.validate_constraints",
    "tensorly.decomposition._constrained_cp.constrained_parafac",
    "tensorly.decomposition._constrained_cp.initialize_constrained_parafac",
    "tensorly.solvers.admm.admm",
]
BOUNDS = {
    "quick": "3 modes (n_const=3), all 12 kinds, forms scalar/list/dict, parameter values symbolic > 0; data flow on 2x2x2 and 2x2x2x2, rank 1-2, n_iter_max in {0,1,2}, n_iter_max_inner in {1,2}, init svd/random/user, fixed-mode subsets",
    "thorough": "adds n_const=4 for the specification family and rank 2 order 4 for the data flow",
}
OUTSIDE = [
    "parameter values <= 0 or falsy (0, 0.0, False) -- the code treats a falsy entry as 'not set'",
    "infeasible user-supplied factors on fixed modes or with a zero iteration budget (precondition: they are feasible; C14 requires them to be returned unchanged)",
    "feasibility of the real operators' outputs (C12)",
]
TRUSTED = ["z3", "tagging stub for proximal_operator (outputs arbitrary)", "havoc'd solve/SVD"]
ASSUMPTIONS = ["constraint parameters are positive", "user factors on fixed modes are feasible"]

KINDS = ["non_negative", "l1_reg", "l2_reg", "l2_square_reg", "unimodality", "normalize", "simplex", "normalized_sparsity", "soft_sparsity", "smoothness", "monotonicity", "hard_sparsity"]
BOOL_KINDS = {"non_negative", "unimodality", "normalize", "monotonicity"}
HARD = ["non_negative", "simplex", "monotonicity", "unimodality", "hard_sparsity", "normalized_sparsity", "normalize", "soft_sparsity"]


def _subsets(n):
    out = []
    for k in range(1, n + 1):
        out += list(itertools.combinations(range(n), k))
    return out


def configs(tier):
    q = tier == "quick"
    out = []
    n = 3
    for kind in KINDS:
        out.append(dict(key=f"spec/{kind}/scalar", fam="spec", n=n, spec=[(kind, "scalar", None)]))
        for sub in _subsets(n):
            for form in ("list", "dict"):
                out.append(dict(key=f"spec/{kind}/{form}/{sub}", fam="spec", n=n, spec=[(kind, form, sub)]))
    reps = ["non_negative", "l1_reg", "simplex", "hard_sparsity"]
    for k1, k2 in itertools.combinations(reps, 2):
        forms1 = [("scalar", None)] + [(f, s) for f in ("list", "dict") for s in [(0,), (1, 2), (0, 2)]]
        forms2 = [("scalar", None)] + [(f, s) for f in ("list", "dict") for s in [(0,), (1,), (2,), (0, 1)]]
        for (f1, s1), (f2, s2) in itertools.product(forms1, forms2):
            out.append(dict(key=f"spec2/{k1}:{f1}{s1}/{k2}:{f2}{s2}", fam="spec", n=n, spec=[(k1, f1, s1), (k2, f2, s2)]))
    if not q:
        for kind in ("non_negative", "simplex"):
            for sub in _subsets(4):
                for form in ("list", "dict"):
                    out.append(dict(key=f"spec4/{kind}/{form}/{sub}", fam="spec", n=4, spec=[(kind, form, sub)]))
    # data flow
    for shp, R in [((2, 2, 2), 1), ((2, 2, 2), 2), ((2, 2, 2, 2), 1)] + ([] if q else [((2, 2, 2, 2), 2)]):
        N = len(shp)
        specs = [
            [("non_negative", "scalar", None)],
            [("simplex", "dict", (0, N - 1))],
            [("hard_sparsity", "list", (1,))],
            [("non_negative", "dict", (0,)), ("monotonicity", "dict", (1,))],
            [("unimodality", "dict", (N - 1,)), ("normalized_sparsity", "list", (0,))],
            [("normalize", "dict", (1,)), ("soft_sparsity", "dict", (0,))],
        ]
        for si, spec in enumerate(specs):
            for init in ("svd", "random", "user"):
                for K in (0, 1, 2):
                    for fixed in ([], [0]) if init == "user" else ([],):
                        if q and R == 2 and K == 2 and si > 2:
                            continue
                        out.append(dict(key=f"flow/{shp}/R{R}/spec{si}/{init}/K{K}/fixed{fixed}", fam="flow", shape=shp, R=R, spec=spec, init=init, K=K, fixed=fixed, inner=1 if K == 2 else 2, mode="fork", timeout_s=170 if q else 900))
    return out


def build_kwargs(E, spec, n, tag=""):
    """user keyword arguments + the assignment mode -> (kind, param) the specification means"""
    kwargs = {}
    assign = {}
    conflict = False
    for kind, form, sub in spec:
        def param(i):
            if kind in BOOL_KINDS:
                return True
            if kind in ("hard_sparsity", "normalized_sparsity"):
                return 1
            return E.real(f"p_{kind}_{i}{tag}", pos=True)

        if form == "scalar":
            p = param("all")
            kwargs[kind] = p
            modes = {i: p for i in range(n)}
        elif form == "list":
            lst = [None] * n
            modes = {}
            for i in sub:
                lst[i] = param(i)
                modes[i] = lst[i]
            kwargs[kind] = lst
        else:
            modes = {i: param(i) for i in sub}
            kwargs[kind] = dict(modes)
        for i, p in modes.items():
            if i in assign:
                conflict = True
            assign[i] = (kind, p)
    return kwargs, assign, conflict


def _same_param(E, a, b):
    if a is None or b is None or isinstance(a, bool) or isinstance(b, bool):
        return a is b or a == b
    if isinstance(a, int) and isinstance(b, int):
        return a == b
    return E.eq(a, b)


def harness(E, cfg):
    if cfg["fam"] == "spec":
        h_spec(E, cfg)
    else:
        h_flow(E, cfg)


def h_spec(E, cfg):
    from tensorly.tenalg.proximal import validate_constraints

    n = cfg["n"]
    kwargs, assign, conflict = build_kwargs(E, cfg["spec"], n)
    for order in range(n):
        kw = {k: (list(v) if isinstance(v, list) else (dict(v) if isinstance(v, dict) else v)) for k, v in kwargs.items()}
        try:
            got = validate_constraints(n_const=n, order=order, **kw)
            raised = None
        except ValueError as e:
            got = None
            raised = e
        if conflict:
            E.prove(f"order{order}/double_constraint_rejected", raised is not None, detail=f"returned {got!r}")
            continue
        if raised is not None:
            E.prove(f"order{order}/valid_specification_accepted", False, detail=str(raised))
            continue
        kind, p = assign.get(order, (None, None))
        E.prove(f"order{order}/kind", got[0] == kind, detail=f"expected {kind}, got {got[0]}")
        E.prove(f"order{order}/parameter", _same_param(E, got[1], p), detail=f"expected {p!r}, got {got[1]!r}")


def h_flow(E, cfg):
    from vt import backend, sym
    import tensorly.decomposition._constrained_cp as _ccp
    import tensorly.solvers.admm as _admm
    from tensorly.decomposition import constrained_parafac

    shp, R, init, K, fixed = cfg["shape"], cfg["R"], cfg["init"], cfg["K"], list(cfg["fixed"])
    N = len(shp)
    calls = []
    if E.symbolic:
        backend.configure(solve="havoc", svd="havoc")

        def prox_stub(tensor, n_const=1, order=0, **kw):
            out = backend.fresh_array("prox", np.shape(tensor))
            calls.append(dict(order=order, n_const=n_const, kw=kw, out=out))
            return out.copy()

        from props.c06 import stub_svd_interface

        backend.patch(_ccp, "svd_interface", stub_svd_interface)  # havoc'd initial factors, no sign-flip forks
        backend.patch(_ccp, "proximal_operator", prox_stub)
        backend.patch(_admm, "proximal_operator", prox_stub)
    X = E.real("X", shp)
    E.assume(E.Or([E.nonzero(x) for x in np.asarray(X, dtype=object).ravel()]))
    kwargs, assign, conflict = build_kwargs(E, cfg["spec"], N)
    kw = dict(n_iter_max=K, n_iter_max_inner=cfg["inner"], tol_outer=0, tol_inner=0, fixed_modes=list(fixed) if fixed else None)
    F0 = None
    if init == "user":
        F0 = [E.real(f"F{k}", (n, R)) for k, n in enumerate(shp)]
        kw["init"] = (None, [np.array(f) for f in F0])
    else:
        kw["init"] = init
        kw["random_state"] = 1
    user_kw = {k: (list(v) if isinstance(v, list) else (dict(v) if isinstance(v, dict) else v)) for k, v in kwargs.items()}
    res = constrained_parafac(np.array(X), R, **kw, **user_kw)
    w, fs = res
    E.prove("shapes", len(fs) == N and all(np.shape(f) == (n, R) for f, n in zip(fs, shp)))
    if not E.symbolic:
        # concrete replay: the real operators ran; check the constraint predicates directly
        for m, (kind, p) in assign.items():
            if kind in HARD and not (m in fixed or (init == "user" and K == 0)):
                E.prove(f"mode{m}/factor_is_prox_output_for_its_constraint", _feasible(np.asarray(fs[m], dtype=float), kind, p))
        return
    for m, (kind, p) in assign.items():
        f = np.asarray(fs[m], dtype=object)
        untouched = m in fixed or (init == "user" and K == 0)
        if untouched:
            # precondition: supplied factors on fixed modes / at zero budget are feasible; they must come back unchanged
            E.prove(f"mode{m}/supplied_factor_returned", E.eq_arrays(f, F0[m]))
            continue
        ok = []
        for c in calls:
            if c["order"] != m or c["n_const"] != N:
                continue
            same_kw = all(_kw_equal(E, c["kw"].get(k), user_kw.get(k)) for k in KINDS)
            if same_kw and np.shape(c["out"]) == f.shape:
                ok.append(E.eq_arrays(f, c["out"]))
        E.prove(f"mode{m}/factor_is_prox_output_for_its_constraint", E.Or(ok) if ok else False, detail=f"{len(calls)} prox calls, {len(ok)} candidates for mode {m}")


def _kw_equal(E, a, b):
    if a is None or b is None:
        return a is None and b is None
    if isinstance(a, list) and isinstance(b, list):
        return len(a) == len(b) and all(_kw_equal(E, x, y) for x, y in zip(a, b))
    if isinstance(a, dict) and isinstance(b, dict):
        return set(a) == set(b) and all(_kw_equal(E, a[k], b[k]) for k in a)
    if isinstance(a, (list, dict)) or isinstance(b, (list, dict)):
        return False
    if isinstance(a, bool) or isinstance(b, bool) or isinstance(a, int) or isinstance(b, int):
        return a == b
    from vt import sym

    if isinstance(a, sym.SR) and isinstance(b, sym.SR):
        return a.t.eq(b.t)
    return a is b


def _feasible(F, kind, p, tol=1e-7):
    p = float(p) if not isinstance(p, bool) else p
    if kind == "non_negative":
        return bool((F >= -tol).all())
    if kind == "simplex":
        return bool((F >= -tol).all() and np.allclose(F.sum(axis=0), p, atol=1e-6))
    if kind == "monotonicity":
        return bool((np.diff(F, axis=0) >= -tol).all())
    if kind == "unimodality":
        for j in range(F.shape[1]):
            c = F[:, j]
            if not any((np.diff(c[: k + 1]) >= -tol).all() and (np.diff(c[k:]) <= tol).all() for k in range(len(c))):
                return False
        return True
    if kind == "hard_sparsity":
        return bool((np.abs(F) > tol).sum() <= p)
    if kind == "normalized_sparsity":
        return bool((np.abs(F) > tol).sum() <= p and abs(np.linalg.norm(F) - 1) < 1e-6)
    if kind == "normalize":
        return bool(abs(np.abs(F).max() - 1) < 1e-6)
    if kind == "soft_sparsity":
        return bool((np.abs(F).sum(axis=0) <= p + 1e-6).all())
    return True
