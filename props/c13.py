"""C13 -- NNLS solvers return KKT-optimal non-negative solutions (fixed-point characterisation).

"Run to convergence" is a limit statement (up to 50 000 value-dependent iterations) and cannot be unrolled.  The
solver-decidable form proved here on the REAL code:

  * hals_nnls : (a) one sweep from ANY V >= eps replaces every row by the exact clipped coordinate minimiser of the
                penalised objective (one inductive step); (b) a point that one sweep leaves unchanged satisfies the KKT
                system of   min_{V >= eps} 1/2 ||M - U V||_F^2 + l_s * sum(V) + l_r * ||V||_F^2 ;
                (c) the cold start (V=None: solve, clip, rescale) is defined, and one sweep from it is again exact.
  * fista     : every returned iterate is >= eps; a point that one projected-gradient step (any lr > 0, also the default
                lr = 1/(sigma_max + 2 l_r) through the SVD stub) leaves unchanged satisfies the KKT system of
                min_{x >= eps} 1/2 ||m - U x||^2 + l_1 * sum(x) + l_2 * ||x||^2 .
                default step size (lr=None): the first iteration (momentum 1, i.e. one projected-gradient step) does not increase the
                penalised objective from any feasible start -- for a scalar step this is lr <= 2/L (L = largest eigenvalue of
                UtU + 2 l_2 I), without which the iteration cannot converge; UtU is generated from its eigen-decomposition and the
                SVD stub returns those eigenvalues (1 unknown: with and without projection; 2 unknowns: without projection, gradient
                at the start along either eigenvector = the extreme directions).
  * active_set_nnls : executed on all paths (Cramer solve); at every return that did not exhaust n_iter_max the result
                satisfies KKT of  min_{x >= 0} 1/2 x'(UtU)x - Utm'x  up to the code's own tolerance tol (symbolic >= 0,
                and tol = 0).
  * admm(n_const=None) : returns the solution of the normal equations (residual orthogonal to the columns of U).

Oracles are optimality conditions over the input variables U, M, V0, ...; the Gram data UtU = U'U, UtM = U'M are built by
the harness so that UtU is positive semidefinite by construction (positive definite under det != 0 / non-zero columns)."""
import itertools

import numpy as np

import tensorly as tl
from tensorly.solvers import nnls as NN
from tensorly.solvers import admm as AD

PID = "C13"
ENGINE = "E1"
EXPLANATION = (
    "The real hals_nnls / fista / active_set_nnls / admm run on normal-equation data UtU = U'U, UtM = U'M built from symbolic U, M "
    "(UtU PSD by construction; non-zero columns / det != 0 as the well-conditioning precondition). 'Run to convergence' is a limit "
    "statement, so the decided form is: a point at which the algorithm's own update is stationary (one HALS sweep / one FISTA step "
    "leaves it unchanged; the active-set loop exits through its own test) satisfies the KKT system of the (l1/ridge penalised, "
    "lower bound epsilon) NNLS problem, plus the one-step exactness of every HALS row update and non-negativity of every returned iterate. "
    "KKT points of a strictly convex problem are unique, so any two solvers stopping at KKT points attain the same objective as a reference "
    "NNLS solver (scipy.optimize.nnls is compared on fixed instances in the conformance block as supporting evidence only). "
    "ADMM with n_const=None is checked against the normal equations through the solve contract."
)
ENCODED = [
    "tensorly.solvers.nnls.hals_nnls",
    "tensorly.solvers.nnls.fista",
    "tensorly.solvers.nnls.active_set_nnls",
    "tensorly.solvers.admm.admm",
]
BOUNDS = {
    "quick": "hals/fista: 1-2 unknowns x 1-2 right-hand sides, U square (m = r) signed, sparsity/ridge each None|symbolic >= 0, epsilon 0|symbolic > 0, one sweep / one or two steps; fista default step: 1-2 unknowns, one right-hand side, one iteration; "
    "cold start r <= 2 (Cramer); active set: 1-2 unknowns, cold and warm start, n_iter_max 2 (1 unknown) / 3 (2 unknowns), tol 0|symbolic >= 0; admm: r <= 2, n <= 2; normal-equation data parametrised as (A SPD, B) -- and as (U'U, U'M) from a symbolic U for one unknown",
    "thorough": "as quick plus 3 unknowns x 2 right-hand sides for hals/fista/admm and a tall symbolic design U (3 x 1); active set stays at <= 2 unknowns (3 unknowns undecided in 25 min)",
}
OUTSIDE = [
    "that the iterations converge to their fixed point (limit statement)",
    "more than 3 unknowns / 2 right-hand sides",
    "conditioning beyond det(U) != 0 / non-zero columns",
    "IEEE rounding (tol-relative stopping rules are exercised only through their exact-arithmetic meaning)",
    "nonzero_rows=True (changes the returned point on purpose)",
    "fista with non_negative=False (except the default-step obligation)",
    "fista default step at 2 unknowns with the projection active, or from starts whose gradient is not an eigenvector (nlsat `unknown`, measured)",
]
TRUSTED = ["z3", "Cramer model of tl.solve for the hals cold start; for the active set tl.solve on a nonsingular principal sub-system is introduced by its defining equations (unique solution)", "solve contract A x = b for admm", "SVD stub (S[0] >= 0) for the default FISTA step size"]
ASSUMPTIONS = [
    "real arithmetic",
    "UtU = U'U with non-zero columns (hals, fista) or det(U) != 0 (cold start, active set, admm)",
    "penalty coefficients >= 0, step size > 0, epsilon >= 0",
    "divisions defined, except where definedness itself is the obligation (hals cold start)",
]


# ------------------------------------------------------------------------------------------------ configurations
def configs(tier):
    q = tier == "quick"
    out = []

    def add(key, **kw):
        d = dict(key=key, **kw)
        d.setdefault("mode", "merge")
        d.setdefault("max_paths", 4000)
        d.setdefault("timeout_s", 160 if q else 1400)
        out.append(d)
        return d

    sizes = [(1, 1), (1, 2), (2, 1), (2, 2)]
    if not q:
        sizes += [(3, 1), (3, 2)]
    pen = list(itertools.product(("none", "sym"), ("none", "sym")))
    for r, n in sizes:
        for sp, rd in pen:
            for eps in ("0", "sym"):
                for part in ("row", "fix"):
                    add(f"hals/{part}/r{r}n{n}/sp_{sp}/rd_{rd}/eps_{eps}", fn="hals", part=part, r=r, n=n, m=r, sp=sp, rd=rd, eps=eps)
    for part in ("row", "fix"):
        # the same obligations with the Gram data built from a symbolic design U (quartic terms: decided for one unknown only)
        add(f"hals/{part}/gram/r1n2m2/sp_sym/rd_sym/eps_sym", fn="hals", part=part, r=1, n=2, m=2, sp="sym", rd="sym", eps="sym", data="gram")
        add(f"fista/{'iter' if part == 'row' else 'fix'}/gram/r1n2m2/sp_sym/rd_sym/lr_sym", fn="fista", part="iter" if part == "row" else "fix", r=1, n=2, m=2, sp="sym", rd="sym", lr="sym", data="gram")
    if not q:
        for part in ("row", "fix"):
            add(f"hals/{part}/gram/r1n2m3/sp_sym/rd_sym/eps_sym", fn="hals", part=part, r=1, n=2, m=3, sp="sym", rd="sym", eps="sym", data="gram")  # r = 2 from a symbolic U: undecided (quartic)
    for r, n in [(1, 1), (1, 2), (2, 1), (2, 2)]:
        for sp, rd in (("none", "none"), ("sym", "sym")):
            add(f"hals/cold/r{r}n{n}/sp_{sp}/rd_{rd}", fn="hals_cold", r=r, n=n, m=r, sp=sp, rd=rd)
    # fista
    for r, n in sizes:
        for sp, rd in pen:
            for part in ("iter", "fix"):
                add(f"fista/{part}/r{r}n{n}/sp_{sp}/rd_{rd}/lr_sym", fn="fista", part=part, r=r, n=n, m=r, sp=sp, rd=rd, lr="sym")
        add(f"fista/fix/r{r}n{n}/sp_sym/rd_sym/lr_default", fn="fista", part="fix", r=r, n=n, m=r, sp="sym", rd="sym", lr="default")
        add(f"fista/iter2/r{r}n{n}/sp_sym/rd_sym/lr_sym", fn="fista", part="iter2", r=r, n=n, m=r, sp="sym", rd="sym", lr="sym")
    # default step size of fista (lr=None): the first iteration (momentum 1 = one projected-gradient step) must not increase the
    # objective from ANY feasible start -- equivalent to lr <= 2/L for the largest eigenvalue L of UtU + 2*ridge*I, without which the
    # iteration does not converge.  UtU := G diag(s) G' from its eigen-decomposition (input-from-output generation; the SVD
    # stub returns (G, s, G') for it), start and right-hand side given in the eigenbasis.
    for nn_ in (0, 1):
        for sp, rd in (("none", "none"), ("sym", "sym")):
            add(f"fista/default_step/r1/nn{nn_}/sp_{sp}/rd_{rd}", fn="fista_step", r=1, n=1, m=1, nn=nn_, sp=sp, rd=rd, dir=None, mode="fork" if nn_ else "merge")
            for d_ in (0, 1) if not nn_ else ():  # with the projection (nn1) at r = 2: path budget exhausted / `unknown` (measured)
                # r = 2: the general start is undecided (nlsat `unknown`); decided for starts whose gradient is an eigenvector of
                # the Hessian -- the extreme directions for a scalar step size (right-hand side generated from the gradient)
                add(f"fista/default_step/r2/nn{nn_}/sp_{sp}/rd_{rd}/dir{d_}", fn="fista_step", r=2, n=1, m=2, nn=nn_, sp=sp, rd=rd, dir=d_, mode="fork" if nn_ else "merge")
    # active set (solve model: "def" = unique solution of the nonsingular sub-system introduced as a definition; "exact" = Cramer)
    for r in (1, 2):  # 3 unknowns: undecided within 25 min (measured), not included
        for start in ("cold", "warm"):
            for tol in ("0", "sym"):
                if r >= 2 and start == "warm" and tol == "0":
                    continue  # tol symbolic >= 0 contains tol = 0; the warm exploration is the expensive one
                niter = {1: 2, 2: 3}[r]
                add(f"active_set/r{r}/{start}/tol_{tol}/solve_def", fn="active", r=r, m=r, start=start, tol=tol, mode="fork", niter=niter, max_paths=20000, solve="def", cost=50 if start == "warm" else 1)
                if r == 1:
                    add(f"active_set/r{r}/{start}/tol_{tol}/solve_exact", fn="active", r=r, m=r, start=start, tol=tol, mode="fork", niter=niter, max_paths=20000, solve="exact")
    # admm without constraints
    for r, n in [(1, 1), (1, 2), (2, 1), (2, 2)] + ([] if q else [(3, 2)]):
        for solve in ("contract", "exact"):
            if solve == "exact" and r > 2:
                continue
            add(f"admm/none/r{r}n{n}/solve_{solve}", fn="admm", r=r, n=n, m=r + (0 if q else 1), solve=solve)
    return out


# ------------------------------------------------------------------------------------------------ helpers / oracles
def _arr(E, x):
    if E.symbolic:
        from vt import sym

        return sym.sarr(x)
    return np.asarray(x, dtype=np.float64)


def gram(E, U, M):
    """normal-equation data built entry by entry from the design U (m x r) and the right-hand sides M (m x n)"""
    m, r = U.shape
    n = M.shape[1]
    UtU = np.empty((r, r), dtype=object if E.symbolic else np.float64)
    UtM = np.empty((r, n), dtype=object if E.symbolic else np.float64)
    for i in range(r):
        for j in range(r):
            UtU[i, j] = sum(U[k, i] * U[k, j] for k in range(m))
        for c in range(n):
            UtM[i, c] = sum(U[k, i] * M[k, c] for k in range(m))
    return _arr(E, UtU), _arr(E, UtM)


def det(A):
    n = A.shape[0]
    if n == 1:
        return A[0, 0]
    if n == 2:
        return A[0, 0] * A[1, 1] - A[0, 1] * A[1, 0]
    tot = 0
    for j in range(n):
        minor = np.delete(np.delete(np.asarray(A), 0, axis=0), j, axis=1)
        tot = tot + ((-1) ** j) * A[0, j] * det(minor)
    return tot


def penalties(E, cfg):
    ls = None if cfg["sp"] == "none" else E.real("lam_s", nn=True)
    lr_ = None if cfg["rd"] == "none" else E.real("lam_r", nn=True)
    return ls, lr_


def grad_entry(UtU, UtM, X, k, c, ls, lr_, row_state=None):
    """d/dX[k,c] of 1/2||M-UX||^2 + ls*sum(X) + lr*||X||^2 (X taken from row_state[j] for row j when given)"""
    r = UtU.shape[0]
    g = -UtM[k, c]
    for j in range(r):
        Xj = X if row_state is None else row_state[j]
        g = g + UtU[k, j] * Xj[j, c]
    if ls is not None:
        g = g + ls
    if lr_ is not None:
        g = g + 2 * lr_ * X[k, c]
    return g


def kkt_parts(E, UtU, UtM, X, ls, lr_, lo, tol=0):
    """KKT of the penalised problem with lower bound lo, split for localisation"""
    r, n = X.shape
    feas, dual, comp = [], [], []
    for k in range(r):
        for c in range(n):
            g = grad_entry(UtU, UtM, X, k, c, ls, lr_)
            feas.append(E.ge(X[k, c], lo))
            dual.append(E.ge(g, -tol))
            comp.append(E.Or(E.eq(X[k, c], lo), E.eq(g, 0)))
    return feas, dual, comp


def design(E, cfg, need_det=False):
    """normal-equation data (UtU, UtM) of a full-column-rank least-squares problem.
    data="gram": UtU = U'U, UtM = U'M from a symbolic design U (m x r) and right-hand sides M (m x n);
    data="spd" : the same set parametrised directly -- {(U'U, U'M) : rank U = r} = {(A, B) : A symmetric positive definite,
                 B arbitrary} (A = L L' gives U = L', M = L^-1 B) -- with A symmetric by construction and positive definite by
                 Sylvester's criterion as precondition.  Keeps the queries bilinear instead of quartic."""
    r, n, m = cfg["r"], cfg.get("n", 1), cfg["m"]
    if cfg.get("data", "spd") == "gram":
        U = E.real("U", (m, r))
        M = E.real("M", (m, n))
        UtU, UtM = gram(E, U, M)
    else:
        tri = E.real("A", (r * (r + 1) // 2,))
        UtU = np.empty((r, r), dtype=object if E.symbolic else np.float64)
        t = 0
        for i in range(r):
            for j in range(i, r):
                UtU[i, j] = tri[t]
                UtU[j, i] = tri[t]
                t += 1
        UtU = _arr(E, UtU)
        UtM = E.real("B", (r, n))
    # well-conditioned: positive definite (leading principal minors > 0) -- in particular diag(UtU) > 0
    E.assume([E.gt_strict(UtU[k, k], 0) for k in range(r)])
    if need_det or cfg.get("data", "spd") == "spd":
        for k in range(2, r + 1):
            E.assume(E.gt_strict(det(UtU[:k, :k]), 0))
    return UtU, UtM


# ------------------------------------------------------------------------------------------------ harness
def harness(E, cfg):
    fn = cfg["fn"]
    if fn == "hals":
        return h_hals(E, cfg)
    if fn == "hals_cold":
        return h_hals_cold(E, cfg)
    if fn == "fista":
        return h_fista(E, cfg)
    if fn == "fista_step":
        return h_fista_step(E, cfg)
    if fn == "active":
        return h_active(E, cfg)
    if fn == "admm":
        return h_admm(E, cfg)
    raise KeyError(fn)


def _row_exact(E, UtU, UtM, V0, Vn, ls, lr_, eps, prefix=""):
    """row k of the sweep result is the minimiser over {x >= eps} of the penalised objective in row k with rows < k already
    updated (their final value: each row is written once per sweep) and rows > k still at V0: 1-D KKT per entry"""
    r, n = V0.shape
    for k in range(r):
        state = [Vn if j <= k else V0 for j in range(r)]
        c_feas, c_dual, c_comp = [], [], []
        for c in range(n):
            g = grad_entry(UtU, UtM, Vn, k, c, ls, lr_, row_state=state)
            c_feas.append(E.ge(Vn[k, c], eps))
            c_dual.append(E.ge(g, 0))
            c_comp.append(E.Or(E.eq(Vn[k, c], eps), E.eq(g, 0)))
        E.prove(f"{prefix}row_minimiser/row{k}/feasible", c_feas)
        E.prove(f"{prefix}row_minimiser/row{k}/gradient_nonneg", c_dual)
        E.prove(f"{prefix}row_minimiser/row{k}/complementarity", c_comp)


def h_hals(E, cfg):
    r, n = cfg["r"], cfg["n"]
    UtU, UtM = design(E, cfg)
    ls, lr_ = penalties(E, cfg)
    eps = 0 if cfg["eps"] == "0" else E.real("eps", pos=True)
    if cfg["part"] == "row":
        V0 = E.real("V0", (r, n))  # ANY current iterate, also signed (the cold start can produce one)
    else:
        V0 = E.real("V0", (r, n), nn=True)
        if cfg["eps"] != "0":
            E.assume([E.ge(V0[k, c], eps) for k in range(r) for c in range(n)])
    Vn = NN.hals_nnls(UtM, UtU, V=tl.copy(V0), n_iter_max=1, tol=0, sparsity_coefficient=ls, ridge_coefficient=lr_, epsilon=eps)
    E.prove("shape", np.shape(Vn) == (r, n))
    if cfg["part"] == "row":
        _row_exact(E, UtU, UtM, V0, Vn, ls, lr_, eps)
        return
    # a point that the sweep leaves unchanged
    E.assume(E.eq_arrays(Vn, V0))
    feas, dual, comp = kkt_parts(E, UtU, UtM, V0, ls, lr_, eps)
    E.prove("fixed_point_kkt/feasible", feas)
    E.prove("fixed_point_kkt/gradient_nonneg", dual)
    E.prove("fixed_point_kkt/complementarity", comp)


def h_hals_cold(E, cfg):
    from vt import backend, sym

    r, n = cfg["r"], cfg["n"]
    if E.symbolic:
        backend.configure(solve="exact")
    UtU, UtM = design(E, cfg, need_det=True)
    ls, lr_ = penalties(E, cfg)
    # (1) the initial point produced by the V=None branch (no sweep)
    try:
        Vc = NN.hals_nnls(UtM, UtU, V=None, n_iter_max=0, sparsity_coefficient=ls, ridge_coefficient=lr_)
    except ZeroDivisionError as e:  # engine: a constant 0/0 (float64: NaN)
        E.prove("cold_start/defined", False, detail=str(e))
        return
    except Exception as e:
        E.prove("cold_start/no_exception", False, detail=str(e))
        return
    E.prove("cold_start/shape", np.shape(Vc) == (r, n))
    if E.symbolic:
        c = sym.CTX
        saved = c.assume_defined
        c.assume_defined = False  # definedness is the obligation here, not an assumption
        try:
            E.prove("cold_start/defined", [sym.mkb(d != 0) for d in c.dens])
        finally:
            c.assume_defined = saved
    else:
        E.prove("cold_start/defined", bool(np.isfinite(np.asarray(Vc, dtype=float)).all()))
    # (2) one sweep from the cold start: every entry is clipped (that each row is then the exact coordinate minimiser is the
    #     hals/row obligation, proved from ANY signed current iterate)
    Vn = NN.hals_nnls(UtM, UtU, V=None, n_iter_max=1, tol=0, sparsity_coefficient=ls, ridge_coefficient=lr_)
    E.prove("cold_sweep/nonneg", [E.ge(Vn[k, c], 0) for k in range(r) for c in range(n)])


def h_fista(E, cfg):
    from vt import backend

    r, n = cfg["r"], cfg["n"]
    if E.symbolic:
        backend.configure(svd="havoc")
    UtU, UtM = design(E, cfg)
    ls, lr_ = penalties(E, cfg)
    eps = E.real("eps", nn=True)
    kw = {}
    if cfg["lr"] == "sym":
        kw["lr"] = E.real("lr", pos=True)
    part = cfg["part"]
    args = dict(sparsity_coef=ls, ridge_coef=0 if lr_ is None else lr_, epsilon=eps, non_negative=True, **kw)
    if part in ("iter", "iter2"):
        # any start (also signed): every returned iterate is >= eps >= 0
        x0 = E.real("x0", (r, n))
        xn = NN.fista(UtM, UtU, x=tl.copy(x0), n_iter_max=1 if part == "iter" else 2, **args)
        E.prove("shape", np.shape(xn) == (r, n))
        E.prove("iterate_ge_epsilon", [E.ge(xn[k, c], eps) for k in range(r) for c in range(n)])
        return
    x0 = E.real("x0", (r, n), nn=True)
    xn = NN.fista(UtM, UtU, x=tl.copy(x0), n_iter_max=1, **args)
    E.prove("shape", np.shape(xn) == (r, n))
    E.assume(E.eq_arrays(xn, x0))
    feas, dual, comp = kkt_parts(E, UtU, UtM, x0, ls, lr_, eps)
    E.prove("fixed_point_kkt/feasible", feas)
    E.prove("fixed_point_kkt/gradient_nonneg", dual)
    E.prove("fixed_point_kkt/complementarity", comp)


def h_fista_step(E, cfg):
    from vt import backend, sym

    r, nn_ = cfg["r"], cfg["nn"]
    sv = E.real("s", (r,), pos=True)
    for i in range(r - 1):
        E.assume(E.ge(sv[i], sv[i + 1]))
    ls, lr_ = penalties(E, cfg)
    rho2 = 0 if lr_ is None else 2 * lr_
    if r == 2:
        # eigenvectors (a, b) and (-b, a), unnormalised: UtU = (s0 vv' + s1 ww')/(a^2+b^2) is rational in (a, b) and integer
        # points give rich witnesses (a = 1, b = -1, s = (3, 1): [[2, -1], [-1, 2]])
        a, b_ = E.real("a"), E.real("b")
        n2 = a * a + b_ * b_
        E.assume(E.gt_strict(n2, 0))
        V = [[a, -b_], [b_, a]]  # columns
        A = _arr(E, np.array([[sum(V[i][k] * sv[k] * V[j][k] for k in range(2)) / n2 for j in range(2)] for i in range(2)], dtype=object))
    else:
        V = [[1]]
        A = _arr(E, np.array([[sv[0]]], dtype=object))
    x0 = _arr(E, np.array(E.real("x0", (r, 1)), dtype=object))
    if cfg.get("dir") is None:
        b = _arr(E, np.array(E.real("b0", (r, 1)), dtype=object))
    else:
        # right-hand side generated from the gradient at the start: grad F(x0) = gamma * (eigenvector dir)
        gam = E.real("gamma")
        d_ = cfg["dir"]
        b = _arr(E, np.array([[sum(A[i, k] * x0[k, 0] for k in range(r)) + rho2 * x0[i, 0] + (0 if ls is None else ls) - gam * V[i][d_]] for i in range(r)], dtype=object))
    eps = E.real("eps", nn=True) if nn_ else 0
    if nn_:
        E.assume([E.ge(x0[k, 0], eps) for k in range(r)])
    if E.symbolic:
        backend.configure(svd="havoc")
        # fista only reads the largest singular value: singular vectors of the table entry are arbitrary fresh arrays
        backend.POLICY.tables["svd"].append(((A,), (backend.fresh_array("svdU", (r, r)), _arr(E, np.array(list(sv), dtype=object)), backend.fresh_array("svdV", (r, r)))))
    x1 = NN.fista(b, A, x=tl.copy(x0), n_iter_max=1, sparsity_coef=ls, ridge_coef=0 if lr_ is None else lr_, epsilon=eps, non_negative=bool(nn_))
    E.prove("shape", np.shape(x1) == (r, 1))

    def F(x):
        v = 0
        for i in range(r):
            v = v - b[i, 0] * x[i, 0]
            for j in range(r):
                v = v + x[i, 0] * A[i, j] * x[j, 0] / 2
            if ls is not None:
                v = v + ls * x[i, 0]
            if lr_ is not None:
                v = v + lr_ * x[i, 0] * x[i, 0]
        return v

    E.prove("default_step/first_iteration_does_not_increase_the_objective", E.le(F(x1), F(x0)))


class _LoopProbe:
    """observes whether the FIRST `range(...)` loop started by the function (the outer iteration loop of active_set_nnls)
    ran to exhaustion instead of leaving through `break`"""

    def __init__(self):
        self.calls = 0
        self.exhausted = False

    def __call__(self, *a):
        self.calls += 1
        first = self.calls == 1

        def gen():
            for i in range(*a):
                yield i
            if first:
                self.exhausted = True

        return gen()


def h_active(E, cfg):
    from vt import backend

    r = cfg["r"]
    if E.symbolic:
        from vt import sym

        def solve_def(A, B):
            """tl.solve on a nonsingular (principal sub)matrix: the result is the unique X with A X = B -- introduced as a
            definition (visible to path feasibility as well), which keeps every term free of divisions"""
            X = backend.fresh_array("sol", B.shape)
            for f in backend.eq_facts(np.dot(A, X), B):
                sym.CTX.add_fact("def", f)
            return X

        backend.configure(solve=solve_def if cfg.get("solve") == "def" else cfg.get("solve", "exact"))
    UtU, UtM = design(E, cfg, need_det=True)
    Utm = UtM[:, 0]
    tol = 0 if cfg["tol"] == "0" else E.real("tol", nn=True)
    x0 = None
    if cfg["start"] == "warm":
        x0 = E.real("x0", (r,), nn=True)
        E.assume(E.Or([E.gt_strict(x0[i], 0) for i in range(r)]))
    niter = cfg["niter"]
    probe = _LoopProbe()
    NN.range = probe  # module-level name shadows the builtin inside nnls.py only; purely observational
    try:
        x = NN.active_set_nnls(Utm, UtU, x=None if x0 is None else tl.copy(x0), n_iter_max=niter, tol=tol)
    except Exception as e:
        E.prove("no_exception", False, detail=f"{type(e).__name__}: {e}")
        return
    finally:
        del NN.range
    E.prove("shape", np.shape(x) == (r,))
    w = [Utm[i] - sum(UtU[i, j] * x[j] for j in range(r)) for i in range(r)]  # = -gradient
    G = ("solve",)
    E.prove("nonneg", [E.ge(x[i], 0) for i in range(r)], groups=G)
    if probe.exhausted:
        # not converged within the unrolling: neither a KKT violation nor a proof -- surfaces as an INCONCLUSIVE path-exception line
        # (on the current tree no path does this: every path leaves through the exit test within n_iter_max)
        raise RuntimeError(f"active_set_nnls exhausted n_iter_max={niter} on this path: not converged, KKT neither claimed nor refuted")
    E.prove("kkt/stationary_on_support", [E.Implies(E.gt_strict(x[i], 0), E.eq(w[i], 0)) for i in range(r)], groups=G)
    E.prove("kkt/gradient_sign_on_active_set", [E.Implies(E.eq(x[i], 0), E.le(w[i], tol)) for i in range(r)], groups=G)


def h_admm(E, cfg):
    from vt import backend

    r, n, m = cfg["r"], cfg["n"], cfg["m"]
    if E.symbolic:
        backend.configure(solve=cfg["solve"])
    gram_data = cfg["solve"] == "contract"
    if gram_data:
        U = E.real("U", (m, r))
        M = E.real("M", (m, n))
        UtU, UtMt = gram(E, U, M)
        d = det(UtU)
        E.assume(E.Not(E.eq(d, 0)) if E.symbolic else abs(d) > 1e-9)
    else:
        UtU, UtMt = design(E, dict(cfg, data="spd"), need_det=True)
    UtM = _arr(E, np.asarray(UtMt).T.copy())  # admm works on the transposed unknown x (n x r):  x UtU = M'U
    x0 = E.real("x0", (n, r))
    dual0 = E.real("dual0", (n, r))
    x, x_split, dual = AD.admm(UtM, UtU, tl.copy(x0), tl.copy(dual0), n_const=None)
    E.prove("shape", np.shape(x) == (n, r))
    cond = []
    if gram_data:
        # least-squares optimality: the residual U x' - M is orthogonal to every column of U
        for i in range(r):
            for c in range(n):
                res = [sum(U[k, j] * x[c, j] for j in range(r)) - M[k, c] for k in range(m)]
                cond.append(E.eq(sum(U[k, i] * res[k] for k in range(m)), 0))
    else:
        # normal equations on (UtU, UtM) directly:  UtU x' = UtM'
        for i in range(r):
            for c in range(n):
                cond.append(E.eq(sum(UtU[i, j] * x[c, j] for j in range(r)), UtMt[i, c]))
    E.prove("normal_equations", cond, groups=("solve",))
    E.prove_eq("dual_unchanged", dual, dual0)


# ------------------------------------------------------------------------------------------------ supporting evidence
def conformance(seed):
    """Concrete cross-check (supporting evidence only, never a verdict): on fixed well-conditioned instances with active and
    inactive constraints the three NNLS solvers, run with their own stopping rules, reach the objective of scipy.optimize.nnls."""
    import scipy.optimize

    insts = [
        (np.array([[1.0, 0.0], [0.0, 1.0], [1.0, 1.0]]), np.array([1.0, 2.0, 3.0])),  # inactive
        (np.array([[1.0, 0.5], [0.2, 1.0], [0.3, 0.1]]), np.array([1.0, -2.0, 0.5])),  # one active
        (np.array([[1.0, -0.5], [0.5, 1.0]]), np.array([-1.0, -1.0])),  # all active
        (np.array([[2.0, 1.0, 0.0], [0.0, 1.0, 1.0], [1.0, 0.0, 3.0], [1.0, 1.0, 1.0]]), np.array([1.0, -1.0, 2.0, 0.5])),
    ]
    gaps = {"hals_warm_exact": 0.0, "fista": 0.0, "active_set": 0.0}
    for U, mvec in insts:
        ref, _ = scipy.optimize.nnls(U, mvec)
        f = lambda x: 0.5 * float(np.sum((U @ x - mvec) ** 2))
        UtU, Utm = U.T @ U, U.T @ mvec
        runs = {
            "hals_warm_exact": lambda: NN.hals_nnls(Utm[:, None], UtU, V=np.ones((U.shape[1], 1)), exact=True)[:, 0],
            "fista": lambda: NN.fista(Utm, UtU, n_iter_max=20000, tol=0, epsilon=0.0),
            "active_set": lambda: NN.active_set_nnls(Utm, UtU),
        }
        for k, run in runs.items():
            try:  # a failing solver is the business of the obligations, never of this block
                gaps[k] = max(float(gaps[k]), abs(f(np.asarray(run(), dtype=float)) - f(ref))) if not isinstance(gaps[k], str) else gaps[k]
            except Exception as e:
                gaps[k] = f"{type(e).__name__}: {e}"[:120]
                break
    return {"objective_gap_vs_scipy_nnls": gaps, "instances": len(insts)}
