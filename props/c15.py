"""C15 -- library calls never modify caller-owned inputs.

Every array argument is snapshotted (term by term) before the call together with the identity, length and element identities of every
container; after the call returns OR raises, the solver is asked whether some value of the inputs makes an argument entry differ from its
snapshot (an in-place clip / masked write / row reset only changes the buffer for SOME values, which is why a concrete before/after test can miss it)."""
import copy
import itertools
import warnings

import numpy as np

import tensorly as tl

from props.c06 import stub_svd_interface, stub_orthonormal_svd

PID = "C15"
ENGINE = "E1"
EXPLANATION = (
    "For each listed public entry point and argument kind (array, transposed view, tuple/list of factors, wrapper object, option lists, masks, fixed modes, user "
    "initialisations, one raising configuration) the real function is executed symbolically (havoc'd LAPACK kernels; long inner solvers run for one sweep) after "
    "snapshotting every argument; afterwards `exists input values: argument entry != snapshot entry` must be unsatisfiable on every path, and containers must be "
    "structurally unchanged (same length, same element objects). Documented in-place parameters (copy=False mode products, the mutable NNLS start matrix, index_update) are whitelisted."
)
ENCODED = [
    "tensorly.decomposition._cp.parafac",
    "tensorly.decomposition._cp.initialize_cp",
    "tensorly.decomposition._nn_cp.non_negative_parafac",
    "tensorly.decomposition._nn_cp.non_negative_parafac_hals",
    "tensorly.decomposition._tucker.tucker",
    "tensorly.decomposition._tucker.partial_tucker",
    "tensorly.decomposition._tucker.non_negative_tucker",
    "tensorly.decomposition._tucker.non_negative_tucker_hals",
    "tensorly.decomposition._constrained_cp.constrained_parafac",
    "tensorly.decomposition._parafac2.parafac2",
    "tensorly.decomposition.robust_decomposition.robust_pca",
    "tensorly.solvers.nnls.hals_nnls",
    "tensorly.solvers.nnls.fista",
    "tensorly.solvers.nnls.active_set_nnls",
    "tensorly.solvers.penalizations.process_regularization_weights",
    "tensorly.cp_tensor.cp_normalize",
    "tensorly.cp_tensor.cp_flip_sign",
    "tensorly.cp_tensor.cp_mode_dot",
    "tensorly.tucker_tensor.tucker_mode_dot",
    "tensorly.tucker_tensor.tucker_normalize",
    "tensorly.tenalg.proximal.proximal_operator",
    "tensorly.tenalg.proximal.monotonicity_prox",
    "tensorly.tenalg.proximal.hard_thresholding",
    "tensorly.regression.cp_regression.CPRegressor.fit",
    "tensorly.regression.cp_plsr.CP_PLSR.fit",
    "tensorly.tenalg.svd.svd_interface",
    "tensorly.decomposition._tt.tensor_train",
    "tensorly.decomposition._tr_svd.tensor_ring",
]
BOUNDS = {"quick": "sizes 2, rank <= 2, one or two sweeps, one configuration per (entry point, argument kind)", "thorough": "same"}
OUTSIDE = ["entry points not executable under the symbolic backend (TT-cross, data loaders)", "more than two sweeps", "backends other than NumPy"]
TRUSTED = ["z3", "havoc'd kernels (a compiled kernel mutating its input is outside the model; NumPy's solve/svd/qr do not)"]
ASSUMPTIONS = ["documented in-place parameters are excluded: copy=False mode products, hals_nnls' V, index_update"]


def configs(tier):
    out = []

    def add(ep, **kw):
        key = ep + "".join(f"/{k}={v}" for k, v in kw.items())
        d = dict(key=key, ep=ep, **kw)
        d.setdefault("mode", "merge")
        d["timeout_s"] = 170
        d["max_paths"] = d.pop("max_paths_", 64)
        out.append(d)

    for init in ("user_tuple", "user_cptensor", "svd"):
        add("parafac", init=init, opt="plain")
    add("parafac", init="user_tuple", opt="mask")
    add("parafac", init="user_tuple", opt="fixed")
    add("parafac", init="user_tuple", opt="normalize")
    add("parafac", init="user_tuple", opt="view")
    add("parafac", init="user_tuple", opt="raises")
    for alg in ("nn_parafac", "nn_parafac_hals"):
        add(alg, init="user_tuple", opt="plain")
        add(alg, init="user_tuple", opt="view")
        add(alg, init="user_tuple", opt="fixed")
    add("nn_parafac_hals", init="user_tuple", opt="sparsity_list")
    add("tucker", opt="plain")
    add("tucker", opt="mask")
    add("tucker", opt="user_init")
    add("tucker", opt="fixed_factors")
    add("partial_tucker", opt="user_init")
    add("nn_tucker", opt="user_init")
    add("nn_tucker_hals", opt="user_init")
    add("nn_tucker_hals", opt="sparsity_list")
    add("constrained_parafac", opt="user_init")
    add("constrained_parafac", opt="fixed")
    add("parafac2", opt="user_init")
    add("parafac2", opt="svd")
    add("robust_pca", opt="mask")
    add("hals_nnls", opt="plain")
    add("fista", opt="plain")
    if tier != "quick":
        add("active_set", opt="plain", mode="fork")
    add("process_weights", opt="lists")
    add("cp_normalize", opt="tuple")
    add("cp_flip_sign", opt="tuple")
    add("cp_mode_dot", opt="copy")
    add("tucker_mode_dot", opt="copy")
    add("tucker_normalize", opt="tuple")
    for kind in ("non_negative", "l1_reg", "simplex", "monotonicity", "hard_sparsity", "unimodality", "normalize", "soft_sparsity"):
        add("prox", kind=kind, mode="fork" if kind in ("hard_sparsity", "unimodality") else "merge")
        if kind in ("non_negative", "l1_reg", "monotonicity", "normalize", "hard_sparsity"):
            add("prox", kind=kind, vec=1, mode="fork" if kind in ("hard_sparsity",) else "merge", **({"max_paths_": 3000} if kind == "hard_sparsity" else {}))
    add("tenalg", opt="all")
    for o_ in ("tt", "tr", "tucker"):
        add("rank_lists", opt=o_)
    add("svd_interface", opt="mask", mode="fork")
    add("parafac", init="svd_real", opt="mask", mode="fork", max_paths_=1500)
    add("active_set", opt="warm_backtrack")
    add("cp_regressor", opt="fit")
    add("tucker_regressor", opt="fit")
    for o_ in ("congruence", "corrindex_stacked", "corrindex_max", "regression"):
        add("metrics", opt=o_)
    add("preprocessing", opt="parafac2_compression", mode="fork")
    for o_ in ("tt", "ttm", "tr"):
        add("svd_decompositions", opt=o_)
    add("svd_decompositions", opt="tr_als")
    add("cmtf", opt="normalize", mode="fork")
    add("cp_permute", opt="wrappers", mode="fork")
    add("cp_permute", opt="list", mode="fork")
    add("cp_plsr", opt="fit")
    return out


class Snap:
    """snapshot of caller-owned arguments"""

    def __init__(self, E):
        self.E = E
        self.arrays = []
        self.containers = []

    def arr(self, name, a):
        self.arrays.append((name, a, np.array(a, dtype=object if self.E.symbolic else None, copy=True)))
        return a

    def cont(self, name, c):
        if isinstance(c, dict):
            self.containers.append((name, c, dict(c), None))
        else:
            self.containers.append((name, c, list(c), [id(x) for x in c]))
        return c

    def check(self, tag=""):
        E = self.E
        for name, a, before in self.arrays:
            after = np.asarray(a, dtype=object if E.symbolic else None)
            if after.shape != before.shape:
                E.prove(f"{tag}unchanged/{name}", False, detail="shape changed")
                continue
            if E.symbolic:
                E.prove(f"{tag}unchanged/{name}", E.eq_arrays(after, before))
            else:
                E.prove(f"{tag}unchanged/{name}", bool(np.array_equal(after, before, equal_nan=True)))
        for name, c, before, ids in self.containers:
            if isinstance(c, dict):
                ok = set(c) == set(before) and all(_same_scalar(E, c[k], before[k]) for k in before)
            else:
                ok = len(c) == len(before) and all((x is y) or _same_scalar(E, x, y) for x, y in zip(c, before))
            E.prove(f"{tag}container_unchanged/{name}", ok, detail=f"before={_short(before)} after={_short(c)}")


def _nonzero_columns(E, mats):
    """precondition: every column of every matrix is non-zero, stated on the (interned) column norms the code tests"""
    from vt import sym

    for M_ in mats:
        if E.symbolic:
            for v in np.asarray(tl.norm(sym.sarr(np.array(M_)), axis=0), dtype=object).ravel():
                if isinstance(v, sym.SR) and v.c is None:
                    sym.CTX.assume_nonzero(v.t)
        else:
            E.assume(bool((np.linalg.norm(np.asarray(M_, dtype=float), axis=0) != 0).all()))


def _short(c):
    try:
        return str([type(x).__name__ if isinstance(x, np.ndarray) else x for x in c])[:120]
    except Exception:
        return "?"


def _same_scalar(E, a, b):
    if a is b:
        return True
    if isinstance(a, np.ndarray) or isinstance(b, np.ndarray):
        return False
    try:
        from vt import sym

        if isinstance(a, (sym.SR,)) or isinstance(b, (sym.SR,)):
            r = E.eq(a, b)
            return r if isinstance(r, bool) else False
        return a == b
    except Exception:
        return False


def _cp_init(E, snap, shp, R, nn=False, kind="user_tuple", view=False):
    fs = []
    for k, n in enumerate(shp):
        if view:
            base = snap.arr(f"init_factor{k}_base", np.array(E.real(f"G{k}", (R, n), pos=nn)))
            fs.append(base.T)  # a transposed view of the caller's array
        else:
            fs.append(snap.arr(f"init_factor{k}", np.array(E.real(f"F{k}", (n, R), pos=nn))))
    lst = snap.cont("init_factor_list", fs)
    if kind == "user_cptensor":
        from tensorly.cp_tensor import CPTensor

        return CPTensor((None, lst))
    return (None, lst)


def harness(E, cfg):
    from vt import backend, sym

    ep = cfg["ep"]
    opt = cfg.get("opt")
    snap = Snap(E)
    if E.symbolic:
        backend.configure(solve="havoc", svd="havoc", qr="havoc", lstsq="havoc", eigh="havoc")
        import tensorly.decomposition._cp as _cp
        import tensorly.decomposition._nn_cp as _nn
        import tensorly.decomposition._tucker as _tk
        import tensorly.decomposition._constrained_cp as _cc
        import tensorly.decomposition._parafac2 as _p2

        import tensorly.decomposition._tt as _ttd
        import tensorly.decomposition._tr_svd as _trd

        for mod in (_cp, _tk, _cc, _ttd, _trd):
            if cfg.get("init") != "svd_real" and hasattr(mod, "svd_interface"):
                backend.patch(mod, "svd_interface", stub_svd_interface)
        backend.patch(_p2, "svd_interface", stub_orthonormal_svd)
        # inner solvers are hard-wired to 100 sweeps: run the REAL in-place code for one sweep
        real_hals = _nn.hals_nnls

        def hals1(UtM, UtU, V=None, n_iter_max=500, **kw):
            return real_hals(UtM, UtU, V, n_iter_max=1, **kw)

        backend.patch(_nn, "hals_nnls", hals1)
        backend.patch(_tk, "hals_nnls", hals1)
        real_fista = _tk.fista

        def fista1(UtM, UtU, x=None, n_iter_max=100, **kw):
            kw.pop("lr", None)
            return real_fista(UtM, UtU, x, n_iter_max=1, lr=1, **kw)

        backend.patch(_tk, "fista", fista1)
    raised = None
    shp, R = (2, 2, 2), 2
    if ep in ("nn_parafac_hals", "nn_tucker", "nn_tucker_hals"):
        shp, R = (2, 2), 1  # the real in-place inner solvers run symbolically: keep the formulas small
    try:
        if ep in ("parafac", "nn_parafac", "nn_parafac_hals"):
            from tensorly.decomposition import parafac, non_negative_parafac, non_negative_parafac_hals

            fn = {"parafac": parafac, "nn_parafac": non_negative_parafac, "nn_parafac_hals": non_negative_parafac_hals}[ep]
            nn = ep != "parafac"
            X = snap.arr("tensor", np.array(E.real("X", shp, pos=nn)))
            kw = dict(n_iter_max=1 if ep == "nn_parafac_hals" else 2, tol=0)
            if cfg["init"] in ("svd", "svd_real"):
                kw["init"] = "svd"
                if cfg["init"] == "svd_real":
                    # the real svd_interface runs (mask imputation sweeps on the mode-0 unfolding, which is a VIEW of the caller's tensor)
                    kw["n_iter_max"] = 0
                    kw["svd_mask_repeats"] = 1
                    R = 1
            else:
                kw["init"] = _cp_init(E, snap, shp, R, nn=nn, kind=cfg["init"], view=(opt == "view"))
            if opt == "mask":
                m = np.ones(shp, dtype=object if E.symbolic else float)
                m[0, 0, 0] = 0
                kw["mask"] = snap.arr("mask", m)
            if opt == "fixed":
                kw["fixed_modes"] = snap.cont("fixed_modes", [0, len(shp) - 1])
            if opt == "normalize":
                kw["normalize_factors"] = True
            if opt == "sparsity_list":
                kw["sparsity_coefficients"] = snap.cont("sparsity_coefficients", [E.real("sp0", pos=True), None, E.real("sp2", pos=True)][: len(shp)])
                kw["fixed_modes"] = snap.cont("fixed_modes", [0])
            if opt == "raises":
                kw["cvg_criterion"] = "nope"
                kw["tol"] = 1e-3
            fn(X, R, **kw)
        elif ep in ("tucker", "partial_tucker", "nn_tucker", "nn_tucker_hals"):
            from tensorly.decomposition import tucker, partial_tucker, non_negative_tucker, non_negative_tucker_hals

            nn = ep.startswith("nn_")
            X = snap.arr("tensor", np.array(E.real("X", shp, pos=nn)))
            rank = [2, 1, 2] if len(shp) == 3 else [1, 1]
            core = snap.arr("init_core", np.array(E.real("G", tuple(rank), pos=nn)))
            fs = snap.cont("init_factor_list", [snap.arr(f"init_factor{k}", np.array(E.real(f"F{k}", (n, r), pos=nn))) for k, (n, r) in enumerate(zip(shp, rank))])
            if ep == "tucker":
                kw = dict(n_iter_max=2, tol=0)
                if opt == "mask":
                    m = np.ones(shp, dtype=object if E.symbolic else float)
                    m[0, 0, 0] = 0
                    kw["mask"] = snap.arr("mask", m)
                if opt in ("user_init", "fixed_factors"):
                    kw["init"] = (core, fs)
                if opt == "fixed_factors":
                    kw["fixed_factors"] = snap.cont("fixed_factors", [1])
                    rank = [2, 2]
                tucker(X, rank=list(rank), **kw)
            elif ep == "partial_tucker":
                partial_tucker(X, rank=[2, 2], modes=snap.cont("modes", [0, 2]), n_iter_max=2, tol=0, init=(snap.arr("init_core_p", np.array(E.real("Gp", (2, 2, 2)))), snap.cont("init_factor_list_p", [fs[0], fs[2]])))
            elif ep == "nn_tucker":
                non_negative_tucker(X, rank=list(rank), n_iter_max=2, tol=0, init=(core, fs))
            else:
                kw = dict(n_iter_max=1, tol=0, init=(core, fs))
                if opt == "sparsity_list":
                    kw["sparsity_coefficients"] = snap.cont("sparsity_coefficients", [E.real("sp0", pos=True), None, None][: len(shp)])
                    kw["fixed_modes"] = snap.cont("fixed_modes", [0])
                non_negative_tucker_hals(X, rank=list(rank), **kw)
        elif ep == "constrained_parafac":
            from tensorly.decomposition import constrained_parafac

            X = snap.arr("tensor", np.array(E.real("X", shp)))
            kw = dict(n_iter_max=2, n_iter_max_inner=1, tol_outer=0, tol_inner=0, init=_cp_init(E, snap, shp, R))
            kw["non_negative"] = snap.cont("non_negative_spec", {0: True, 2: True})
            kw["l1_reg"] = snap.cont("l1_spec", [None, E.real("l1", pos=True), None])
            if opt == "fixed":
                kw["fixed_modes"] = snap.cont("fixed_modes", [0, 2])
            constrained_parafac(X, R, **kw)
        elif ep == "parafac2":
            from tensorly.decomposition import parafac2

            slices = snap.cont("slice_list", [snap.arr(f"slice{i}", np.array(E.real(f"X{i}", (n, 2)))) for i, n in enumerate((2, 3))])
            kw = dict(n_iter_max=2, tol=1e-30, n_iter_parafac=1, linesearch=False)
            if opt == "user_init":
                if E.symbolic:
                    P0 = [backend.givens_frame(n, 1, f"P0_{i}_") for i, n in enumerate((2, 3))]
                else:
                    P0 = [np.ones((n, 1)) / np.sqrt(n) for n in (2, 3)]
                A = snap.arr("init_A", np.array(E.real("A", (2, 1))))
                B = snap.arr("init_B", np.array(E.real("B", (1, 1))))
                C = snap.arr("init_C", np.array(E.real("C", (2, 1))))
                kw["init"] = (None, snap.cont("init_factor_list", [A, B, C]), snap.cont("init_projection_list", [snap.arr(f"init_P{i}", np.array(p)) for i, p in enumerate(P0)]))
            else:
                kw["init"] = "svd"
            if E.symbolic:
                import tensorly.parafac2_tensor as _p2t

                def validate_stub(t):
                    w, fs_, projs = t
                    return tuple((np.shape(p_)[0], np.shape(fs_[2])[0]) for p_ in projs), np.shape(fs_[0])[1]

                backend.patch(_p2, "_validate_parafac2_tensor", validate_stub)
                backend.patch(_p2t, "_validate_parafac2_tensor", validate_stub)
            parafac2(slices, 1, **kw)
        elif ep == "robust_pca":
            from tensorly.decomposition import robust_pca

            X = snap.arr("tensor", np.array(E.real("X", (2, 2))))
            m = np.ones((2, 2), dtype=object if E.symbolic else float)
            m[0, 0] = 0
            robust_pca(X, mask=snap.arr("mask", m), n_iter_max=1, verbose=0)
        elif ep in ("hals_nnls", "fista", "active_set"):
            from tensorly.solvers.nnls import hals_nnls, fista, active_set_nnls

            # tensors handed to the solvers are SArr in symbolic mode (a plain object ndarray cannot be indexed by a mask of
            # symbolic conditions: active_set_nnls' bare `except:` would swallow that IndexError and restart from zeros,
            # hiding the warm-start path from the check)
            T = (lambda a: sym.sarr(np.array(a))) if E.symbolic else np.array
            U = np.array(E.real("U", (3, 2)))
            M = np.array(E.real("M", (3, 2) if ep != "active_set" else (3,)))
            UtU = snap.arr("UtU", T(np.dot(U.T, U)))
            UtM = snap.arr("UtM", T(np.dot(U.T, M)))
            if ep == "hals_nnls":
                V = np.array(E.real("V", (2, 2), nn=True))  # documented as updated in place: not snapshotted
                hals_nnls(UtM, UtU, V, n_iter_max=1)
            elif ep == "fista":
                x0 = snap.arr("x0", np.array(E.real("x0", (2, 2), nn=True)))
                fista(UtM, UtU, x0, n_iter_max=2, lr=E.real("lr", pos=True), non_negative=True)
            else:
                if E.symbolic:
                    backend.configure(solve="exact" if opt != "warm_backtrack" else "havoc")
                x0 = snap.arr("x0", T(E.real("x0", (2,), pos=(opt == "warm_backtrack"), nn=True)))
                active_set_nnls(UtM, UtU, x0, n_iter_max=1 if opt == "warm_backtrack" else 2)
        elif ep == "rank_lists":
            from tensorly.decomposition import tensor_train, tensor_ring, tucker

            X = snap.arr("tensor", np.array(E.real("X", (2, 2, 2))))
            if opt in ("tt", "tt_tr_tucker"):
                r1 = snap.cont("tt_rank_list", [1, 3, 3, 1])
                tensor_train(X, r1)
                tensor_train(X, r1)
            if opt in ("tr", "tt_tr_tucker"):
                r2 = snap.cont("tr_rank_list", [2, 3, 1, 2])
                try:
                    tensor_ring(X, r2, mode=1)
                except ValueError:
                    pass
            if opt in ("tucker", "tt_tr_tucker"):
                r3 = snap.cont("tucker_rank_list", [2, 1, 2])
                tucker(X, rank=r3, n_iter_max=1, tol=0)
        elif ep == "svd_interface":
            from tensorly.tenalg import svd_interface

            Mx = snap.arr("matrix", np.array(E.real("M", (2, 2))))
            m = np.ones((2, 2), dtype=object if E.symbolic else float)
            m[0, 1] = 0
            svd_interface(Mx, n_eigenvecs=1, mask=snap.arr("mask", m), n_iter_mask_imputation=2)
        elif ep == "process_weights":
            from tensorly.solvers.penalizations import process_regularization_weights

            r = snap.cont("ridge_coefficients", [None, E.real("r1", pos=True), None])
            s_ = snap.cont("sparsity_coefficients", [E.real("s0", pos=True), None, None])
            process_regularization_weights(r, s_, 3)
        elif ep in ("cp_normalize", "cp_flip_sign", "cp_mode_dot"):
            from tensorly.cp_tensor import cp_normalize, cp_flip_sign, cp_mode_dot

            w = snap.arr("weights", np.array(E.real("w", (R,))))
            fs = snap.cont("factor_list", [snap.arr(f"factor{k}", np.array(E.real(f"F{k}", (n, R)))) for k, n in enumerate(shp)])
            if ep == "cp_normalize":
                cp_normalize((w, fs))
            elif ep == "cp_flip_sign":
                cp_flip_sign((w, fs), mode=1)
            else:
                Mx = snap.arr("matrix", np.array(E.real("M", (3, 2))))
                cp_mode_dot((w, fs), Mx, 1, copy=True)
                v = snap.arr("vector", np.array(E.real("v", (2,))))
                cp_mode_dot((w, fs), v, 2, keep_dim=False, copy=True)
        elif ep in ("tucker_mode_dot", "tucker_normalize"):
            from tensorly.tucker_tensor import tucker_mode_dot, tucker_normalize

            core = snap.arr("core", np.array(E.real("G", (2, 1, 2))))
            fs = snap.cont("factor_list", [snap.arr(f"factor{k}", np.array(E.real(f"F{k}", (n, r)))) for k, (n, r) in enumerate(zip(shp, (2, 1, 2)))])
            if ep == "tucker_normalize":
                tucker_normalize((core, fs))
            else:
                Mx = snap.arr("matrix", np.array(E.real("M", (3, 2))))
                tucker_mode_dot((core, fs), Mx, 1, copy=True)
                v = snap.arr("vector", np.array(E.real("v", (2,))))
                tucker_mode_dot((core, fs), v, 0, keep_dim=False, copy=True)
        elif ep == "prox":
            from tensorly.tenalg.proximal import proximal_operator

            kind = cfg["kind"]
            if cfg.get("vec"):
                # 1-D argument (a reshape of it is a view: in-place writes reach the caller), and a column view of a caller-owned matrix
                v = snap.arr("vector", np.array(E.real("v", (3,))))
                Mv = snap.arr("owning_matrix", np.array(E.real("Mv", (3, 2))))
                p = True if kind in ("non_negative", "monotonicity", "unimodality", "normalize") else (1 if kind == "hard_sparsity" else E.real("p", pos=True))
                proximal_operator(v, **{kind: p})
                proximal_operator(Mv[:, 0], **{kind: p})
                raise_done = True
            else:
                raise_done = False
            v = snap.arr("tensor", np.array(E.real("v2" if cfg.get("vec") else "v", (2, 2) if kind not in ("hard_sparsity",) else (3,))))
            p = True if kind in ("non_negative", "monotonicity", "unimodality", "normalize") else (1 if kind == "hard_sparsity" else E.real("p", pos=True))
            proximal_operator(v, **{kind: p})
        elif ep == "tenalg":
            from tensorly import tenalg

            T_ = snap.arr("tensor", np.array(E.real("T", shp)))
            ms = snap.cont("matrix_list", [snap.arr(f"matrix{k}", np.array(E.real(f"M{k}", (2, n)))) for k, n in enumerate(shp)])
            md = snap.cont("modes", [2, 0, 1])
            tenalg.multi_mode_dot(T_, [ms[2], ms[0], ms[1]], modes=md, skip=1)
            tenalg.mode_dot(T_, ms[1], 1, transpose=False)
            ks = snap.cont("kr_list", [snap.arr(f"kr{k}", np.array(E.real(f"A{k}", (2, 2)))) for k in range(3)])
            w = snap.arr("weights", np.array(E.real("w", (2,))))
            tenalg.khatri_rao(ks, weights=w, skip_matrix=1)
            tenalg.kronecker(ks, skip_matrix=0, reverse=True)
            tenalg.unfolding_dot_khatri_rao(T_, (w, ks), 1)
            tenalg.inner(T_, T_)
            tenalg.outer([w, w])
        elif ep == "cp_regressor":
            from tensorly.regression.cp_regression import CPRegressor

            X = snap.arr("X_train", np.array(E.real("X", (3, 2, 2))))
            y = snap.arr("y_train", np.array(E.real("y", (3,))))
            reg = CPRegressor(weight_rank=1, n_iter_max=1, tol=0, random_state=3, verbose=0)
            reg.fit(X, y)
            Xn = snap.arr("X_new", np.array(E.real("Xn", (2, 2, 2))))
            reg.predict(Xn)
        elif ep == "cp_plsr":
            from tensorly.regression.cp_plsr import CP_PLSR

            X = snap.arr("X_train", np.array(E.real("X", (3, 2, 2))))
            Y = snap.arr("Y_train", np.array(E.real("Y", (3, 1))))
            pl = CP_PLSR(n_components=1, n_iter_max=1, tol=1e-30, verbose=False)
            pl.fit(X, Y)
            pl.predict(X)
            pl.transform(X, Y)
            y1 = snap.arr("Y_vector", np.array(E.real("y1", (3,))))  # 1-D targets: a reshape of them is a view
            pl.transform(X, y1)
        elif ep == "tucker_regressor":
            from tensorly.regression.tucker_regression import TuckerRegressor

            X = snap.arr("X_train", np.array(E.real("X", (3, 2, 2))))
            y = snap.arr("y_train", np.array(E.real("y", (3,))))
            wr = snap.cont("weight_ranks", [1, 2])
            reg = TuckerRegressor(weight_ranks=wr, n_iter_max=1, tol=0, random_state=3, verbose=0)
            reg.fit(X, y)
            Xn = snap.arr("X_new", np.array(E.real("Xn", (2, 2, 2))))
            reg.predict(Xn)
        elif ep == "metrics":
            from tensorly.metrics import congruence_coefficient, correlation_index, RMSE, MSE
            from tensorly.metrics.regression import R2_score, correlation

            A = snap.cont("factors_1", [snap.arr(f"A{k}", np.array(E.real(f"A{k}", (2, 2)))) for k in range(2)])
            B = snap.cont("factors_2", [snap.arr(f"B{k}", np.array(E.real(f"B{k}", (2, 2)))) for k in range(2)])
            _nonzero_columns(E, list(A) + list(B))  # zero columns are rejected with a ValueError
            _nonzero_columns(E, [np.concatenate(A, 0), np.concatenate(B, 0)])  # (implied; stated on the stacked norms the code tests)
            if E.symbolic:
                import tensorly.metrics.factors as _mf

                # the assignment solver is compiled: any permutation is a legal answer for the purpose of this property
                backend.patch(_mf, "linear_sum_assignment", lambda cost, maximize=False: (np.arange(np.shape(cost)[0]), np.arange(np.shape(cost)[0])[::-1].copy()))
            if opt == "congruence":
                congruence_coefficient(A, B)
                congruence_coefficient(A[0], B[0], absolute_value=False)
            elif opt == "corrindex_stacked":
                correlation_index(A, B)
            elif opt == "corrindex_max":
                correlation_index(A, B, method="max_score")
            else:
                yt = snap.arr("y_true", np.array(E.real("yt", (3,))))
                yp = snap.arr("y_pred", np.array(E.real("yp", (3,))))
                MSE(yt, yp)
                RMSE(yt, yp)
                R2_score(yt, yp)
                correlation(yt, yp)
        elif ep == "preprocessing":
            from tensorly.preprocessing import svd_compress_tensor_slices, svd_decompress_parafac2_tensor

            sl = snap.cont("slice_list", [snap.arr(f"slice{i}", np.array(E.real(f"X{i}", (n, 2)))) for i, n in enumerate((3, 2))])
            if E.symbolic:
                import tensorly.preprocessing as _pp

                backend.patch(_pp, "svd_interface", stub_orthonormal_svd)
                import tensorly.parafac2_tensor as _p2t

                # the numerical orthonormality test of the validator (max|P^T P - I| > 1e-5 on products of stub frames) is not this
                # property's subject and its feasibility query is slow: structural part only
                backend.patch(_p2t, "_validate_parafac2_tensor", lambda t: (tuple((np.shape(p_)[0], np.shape(t[1][2])[0]) for p_ in t[2]), np.shape(t[1][0])[1]))
            scores, loadings = svd_compress_tensor_slices(sl, compression_threshold=0.0)
            w = snap.arr("weights", np.array(E.real("w", (1,))))
            fs = snap.cont("factor_list", [snap.arr(f"factor{k}", np.array(E.real(f"F{k}", (n, 1)))) for k, n in enumerate((2, 1, 2))])
            # orthonormal projections (validated by Parafac2Tensor): concrete unit vectors, still caller-owned arrays
            pr = snap.cont("projection_list", [snap.arr(f"projection{i}", np.eye(np.shape(sc)[0], 1, dtype=object if E.symbolic else float)) for i, sc in enumerate(scores)])
            lo = snap.cont("loading_list", list(loadings))
            svd_decompress_parafac2_tensor((w, fs, pr), lo)
        elif ep == "svd_decompositions":
            from tensorly.decomposition import tensor_train, tensor_ring, tensor_train_matrix, tensor_ring_als

            if opt in ("tt", "ttm", "tr"):
                X = snap.arr("tensor", np.array(E.real("X", (2, 2, 2, 2))))
                if opt == "tt":
                    tensor_train(X, 2)
                elif opt == "ttm":
                    tensor_train_matrix(X, 2)
                else:
                    tensor_ring(X, [1, 2, 2, 2, 1])
            else:
                X3 = snap.arr("tensor3", np.array(E.real("Y", (2, 2, 2))))
                rk = snap.cont("tr_als_rank_list", [1, 2, 1, 1])
                tensor_ring_als(X3, rk, n_iter_max=1, tol=0, random_state=1)
        elif ep == "cmtf":
            from tensorly.decomposition._cmtf_als import coupled_matrix_tensor_3d_factorization

            X = snap.arr("tensor", np.array(E.real("X", (2, 2, 2))))
            Y = snap.arr("matrix", np.array(E.real("Y", (2, 2))))
            coupled_matrix_tensor_3d_factorization(X, Y, 1, init="svd", n_iter_max=1, tol=0, normalize_factors=True)
        elif ep == "cp_permute":
            from tensorly.cp_tensor import cp_permute_factors

            w1 = snap.arr("ref_weights", np.array(E.real("w1", (2,))))
            f1 = snap.cont("ref_factor_list", [snap.arr(f"ref_factor{k}", np.array(E.real(f"A{k}", (2, 2)))) for k in range(3)])
            w2 = snap.arr("weights", np.array(E.real("w2", (2,))))
            f2 = snap.cont("factor_list", [snap.arr(f"factor{k}", np.array(E.real(f"B{k}", (2, 2)))) for k in range(3)])
            _nonzero_columns(E, list(f1) + list(f2))  # zero columns are rejected with a ValueError
            if E.symbolic:
                import tensorly.cp_tensor as _cpt

                # the matching itself is the metrics configuration's subject: any permutation is a legal answer here
                backend.patch(_cpt, "congruence_coefficient", lambda a, b, **k: (0, [1, 0]))
            from tensorly.cp_tensor import CPTensor

            ref, tp = CPTensor((w1, f1)), CPTensor((w2, f2))
            snap.cont("ref_wrapper_factor_list", ref.factors)
            snap.cont("wrapper_factor_list", tp.factors)
            if opt == "list":
                tp2 = CPTensor((np.array(w2), [np.array(f) for f in f2]))
                lst = snap.cont("list_of_tensors_to_permute", [tp, tp2])
                cp_permute_factors(ref, lst)
            else:
                cp_permute_factors(ref, tp)
        else:
            raise KeyError(ep)
    except (sym.Abort, sym.BudgetExceeded):
        raise
    except Exception as e:  # the property covers early exits via exceptions too
        raised = e
        import os

        if os.environ.get("VT_DEBUG_EXC"):
            import traceback

            traceback.print_exc()
    if raised is not None and opt != "raises":
        E.prove("entry_point_executed", False, detail=f"{type(raised).__name__}: {raised}")
    snap.check("after_exception/" if raised is not None else "")
