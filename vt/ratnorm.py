"""Denominator clearing for rational-function terms (sound rewriting used *before* z3 decides).

z3's nlsat purifies every division into a fresh variable, which makes identities between rational functions
(Givens-parametrised orthonormal frames, normalised columns) very slow or `unknown`.  This module brings a z3 real term
to the form  num / prod(d_i ^ e_i)  with num, d_i expanded polynomials over opaque atoms, so that
    a == b   becomes   num(a - b) == 0        (valid whenever every d_i != 0)
and z3 is asked the polynomial question instead.  Only +, -, *, /, integer powers and numerals are interpreted; everything
else (If, uninterpreted functions, root-atom variables) is an opaque atom.
"""
from fractions import Fraction

import z3


class TooBig(Exception):
    pass


MAX_MONOMIALS = 60000


def p_const(c):
    c = Fraction(c)
    return {(): c} if c != 0 else {}


def p_add(a, b, sb=1):
    out = dict(a)
    for m, c in b.items():
        v = out.get(m, 0) + sb * c
        if v == 0:
            out.pop(m, None)
        else:
            out[m] = v
    return out


UNIT_IDS = set()  # atom ids whose square is 1 (sign variables): exponents reduce mod 2


def _mmul(m1, m2):
    if not m1:
        return m2
    if not m2:
        return m1
    d = dict(m1)
    for k, e in m2:
        d[k] = d.get(k, 0) + e
    if UNIT_IDS:
        for k in list(d):
            if k in UNIT_IDS:
                if d[k] % 2:
                    d[k] = 1
                else:
                    del d[k]
    return tuple(sorted(d.items()))


WORK = [None, 0]  # [limit or None, monomial products done]: a cheap-attempt budget (clear_denominators(force=True))


def p_mul(a, b):
    if not a or not b:
        return {}
    if len(a) * len(b) > 4 * MAX_MONOMIALS:
        raise TooBig()
    if WORK[0] is not None:
        WORK[1] += len(a) * len(b)
        if WORK[1] > WORK[0]:
            raise TooBig()
    out = {}
    for m1, c1 in a.items():
        for m2, c2 in b.items():
            m = _mmul(m1, m2)
            v = out.get(m, 0) + c1 * c2
            if v == 0:
                out.pop(m, None)
            else:
                out[m] = v
    if len(out) > MAX_MONOMIALS:
        raise TooBig()
    return out


def p_scale(a, c):
    if c == 0:
        return {}
    return {m: v * c for m, v in a.items()}


def p_pow(a, n):
    r = p_const(1)
    for _ in range(n):
        r = p_mul(r, a)
    return r


class Normalizer:
    def __init__(self):
        self.atoms = {}  # atom id -> z3 term
        self.memo = {}
        self.den_atoms = {}  # key -> polynomial (primitive form)
        self.den_terms = []

    def atom(self, t):
        i = t.get_id()
        self.atoms[i] = t
        return {((i, 1),): Fraction(1)}

    # a fraction is (num poly, den dict key->exp)
    def _den_key(self, poly):
        """primitive normal form of a denominator polynomial; returns (key, scalar) with poly = scalar * primitive"""
        lead = min(poly.keys())
        c = poly[lead]
        prim = {m: v / c for m, v in poly.items()}
        key = tuple(sorted(prim.items()))
        self.den_atoms.setdefault(key, prim)
        return key, c

    def _to_common(self, f, den):
        num, d = f
        for k, e in den.items():
            miss = e - d.get(k, 0)
            if miss > 0:
                num = p_mul(num, p_pow(self.den_atoms[k], miss))
        return num

    def f_add(self, f1, f2, sign=1):
        den = dict(f1[1])
        for k, e in f2[1].items():
            if den.get(k, 0) < e:
                den[k] = e
        n1 = self._to_common(f1, den)
        n2 = self._to_common(f2, den)
        return (p_add(n1, n2, sign), den)

    def f_mul(self, f1, f2):
        den = dict(f1[1])
        for k, e in f2[1].items():
            den[k] = den.get(k, 0) + e
        return (p_mul(f1[0], f2[0]), den)

    def f_inv(self, f):
        num, den = f
        if not num:
            raise ZeroDivisionError
        if len(num) == 1 and () in num:
            newnum = p_const(1 / num[()])
            newden = {}
        else:
            key, c = self._den_key(num)
            newnum = p_const(1 / c)
            newden = {key: 1}
        for k, e in den.items():
            newnum = p_mul(newnum, p_pow(self.den_atoms[k], e))
        return (newnum, newden)

    def norm(self, t):
        i = t.get_id()
        r = self.memo.get(i)
        if r is not None:
            return r
        r = self._norm(t)
        self.memo[i] = r
        return r

    def _norm(self, t):
        if z3.is_rational_value(t):
            return (p_const(Fraction(t.numerator_as_long(), t.denominator_as_long())), {})
        if z3.is_int_value(t):
            return (p_const(t.as_long()), {})
        if not z3.is_app(t):
            return (self.atom(t), {})
        k = t.decl().kind()
        ch = t.children()
        if k == z3.Z3_OP_ADD:
            r = self.norm(ch[0])
            for c in ch[1:]:
                r = self.f_add(r, self.norm(c))
            return r
        if k == z3.Z3_OP_SUB:
            r = self.norm(ch[0])
            for c in ch[1:]:
                r = self.f_add(r, self.norm(c), -1)
            return r
        if k == z3.Z3_OP_UMINUS:
            n, d = self.norm(ch[0])
            return (p_scale(n, -1), d)
        if k == z3.Z3_OP_MUL:
            r = self.norm(ch[0])
            for c in ch[1:]:
                r = self.f_mul(r, self.norm(c))
            return r
        if k == z3.Z3_OP_DIV:
            a = self.norm(ch[0])
            b = self.norm(ch[1])
            self.den_terms.append(ch[1])
            return self.f_mul(a, self.f_inv(b))
        if k == z3.Z3_OP_POWER and (z3.is_int_value(ch[1]) or (z3.is_rational_value(ch[1]) and ch[1].denominator_as_long() == 1)):
            n = ch[1].as_long() if z3.is_int_value(ch[1]) else ch[1].numerator_as_long()
            base = self.norm(ch[0])
            if n < 0:
                base = self.f_inv(base)
                n = -n
            r = (p_const(1), {})
            for _ in range(n):
                r = self.f_mul(r, base)
            return r
        if k == z3.Z3_OP_TO_REAL:
            return self.norm(ch[0])
        return (self.atom(t), {})

    def poly_term(self, p):
        """z3 term of an expanded polynomial"""
        if not p:
            return z3.RealVal(0)
        terms = []
        for m, c in p.items():
            t = None
            for i, e in m:
                for _ in range(e):
                    t = self.atoms[i] if t is None else t * self.atoms[i]
            cv = z3.RealVal(str(c)) if c.denominator != 1 else z3.RealVal(c.numerator)
            if t is None:
                t = cv
            elif c != 1:
                t = cv * t
            terms.append(t)
        return terms[0] if len(terms) == 1 else z3.Sum(terms)


def _sync_units():
    from . import sym

    UNIT_IDS.clear()
    if sym.CTX is not None:
        UNIT_IDS.update(sym.CTX.unit_atoms.keys())


def identical_rational(a, b):
    """True iff a - b has the zero numerator once denominators are cleared (=> a == b wherever every denominator is non-zero);
    None if the expansion is too large."""
    _sync_units()
    N = Normalizer()
    try:
        f = N.f_add(N.norm(a), N.norm(b), -1)
    except (TooBig, ZeroDivisionError, RecursionError):
        return None
    return len(f[0]) == 0


def clear_denominators(phi, force=False):
    """(force=True: also atoms without divisions, under a small work budget -- a cheap attempt made before every query.)
    rewrite every (dis)equality atom a ~ b of the boolean term phi into num(a-b) ~ 0.  Sound under the assumption that all
    denominators occurring in phi are non-zero (the caller asserts that).  Returns (new phi, changed?)."""
    _sync_units()
    N = Normalizer()
    changed = [False]

    def has_div(t, seen):
        i = t.get_id()
        if i in seen:
            return seen[i]
        r = False
        if z3.is_app(t):
            if t.decl().kind() == z3.Z3_OP_DIV and not z3.is_rational_value(t):
                r = True
            else:
                for c in t.children():
                    if has_div(c, seen):
                        r = True
                        break
        seen[i] = r
        return r

    seen = {}

    def walk(t):
        if not z3.is_app(t):
            return t
        k = t.decl().kind()
        if k in (z3.Z3_OP_AND, z3.Z3_OP_OR, z3.Z3_OP_NOT, z3.Z3_OP_IMPLIES) or (k == z3.Z3_OP_ITE and z3.is_bool(t)):
            ch = [walk(c) for c in t.children()]
            if k == z3.Z3_OP_AND:
                return z3.And(ch)
            if k == z3.Z3_OP_OR:
                return z3.Or(ch)
            if k == z3.Z3_OP_NOT:
                return z3.Not(ch[0])
            if k == z3.Z3_OP_IMPLIES:
                return z3.Implies(ch[0], ch[1])
            return z3.If(ch[0], ch[1], ch[2])
        if k in (z3.Z3_OP_EQ, z3.Z3_OP_DISTINCT) and len(t.children()) == 2 and z3.is_arith(t.children()[0]):
            a, b = t.children()
            if force or has_div(a, seen) or has_div(b, seen):
                try:
                    f = N.f_add(N.norm(a), N.norm(b), -1)
                except (TooBig, ZeroDivisionError, RecursionError):
                    return t
                changed[0] = True
                p = N.poly_term(f[0])
                return (p == 0) if k == z3.Z3_OP_EQ else (p != 0)
        if k in (z3.Z3_OP_LE, z3.Z3_OP_GE, z3.Z3_OP_LT, z3.Z3_OP_GT) and len(t.children()) == 2:
            # a - b = num/den with den = prod prim_k^e_k (all non-zero): sign(a - b) = sign(num * prod_{e_k odd} prim_k);
            # primitive factors that are sums of even-power monomials with positive coefficients (1 + t^2) are positive and dropped
            a, b = t.children()
            if has_div(a, seen) or has_div(b, seen):
                try:
                    num, den = N.f_add(N.norm(a), N.norm(b), -1)
                    for key, e in den.items():
                        prim = N.den_atoms[key]
                        if e % 2 == 0 or _obviously_positive(prim):
                            continue
                        num = p_mul(num, prim)
                except (TooBig, ZeroDivisionError, RecursionError):
                    return t
                changed[0] = True
                p = N.poly_term(num)
                return {z3.Z3_OP_LE: p <= 0, z3.Z3_OP_GE: p >= 0, z3.Z3_OP_LT: p < 0, z3.Z3_OP_GT: p > 0}[k]
        return t

    WORK[0], WORK[1] = (300000 if force else None), 0
    try:
        out = walk(phi)
    finally:
        WORK[0] = None
    return out, changed[0]


def _obviously_positive(poly):
    """every monomial has even exponents only and a positive coefficient: the polynomial is >= 0, and as a denominator it is
    non-zero by the definedness assumption under which clear_denominators is applied, hence positive"""
    for m, c in poly.items():
        if c <= 0 or any(e % 2 for _, e in m):
            return False
    return True
