"""E1 core: symbolic reals/booleans living inside NumPy object arrays, root atoms,
path-forking executor.  See DESIGN.md section 1.

Everything here is regenerated on every run: terms are produced by executing the
real tensorly functions from /repo's working tree on these wrappers.
"""
import math
import os
import random
import time
from fractions import Fraction

import numpy as np
import z3


class Abort(BaseException):
    """current path is infeasible (executor control flow; not an Exception on purpose)"""


class BudgetExceeded(BaseException):
    """path/depth/time budget hit: the run is *undecided*, never a success"""


CTX = None  # the live symbolic context (None => concrete mode)


def ctx():
    return CTX


# --------------------------------------------------------------------------- helpers
def _frac(x):
    if isinstance(x, Fraction):
        return x
    if isinstance(x, (bool, np.bool_)):
        return Fraction(int(x))
    if isinstance(x, (int, np.integer)):
        return Fraction(int(x))
    if isinstance(x, (float, np.floating)):
        x = float(x)
        if math.isinf(x) or math.isnan(x):
            raise OverflowError(x)
        return Fraction(x)
    raise TypeError(type(x))


def rv(fr):
    fr = Fraction(fr)
    if fr.denominator == 1:
        return z3.RealVal(fr.numerator)
    return z3.RealVal(str(fr))


def z3val_to_fraction(v):
    if z3.is_rational_value(v):
        return Fraction(v.numerator_as_long(), v.denominator_as_long())
    if z3.is_int_value(v):
        return Fraction(v.as_long())
    if z3.is_algebraic_value(v):
        a = v.approx(30)
        return Fraction(a.numerator_as_long(), a.denominator_as_long())
    raise TypeError(f"not a value: {v}")


class Stats:
    def __init__(self):
        self.q = {"unsat": 0, "sat": 0, "unknown": 0}
        self.t = 0.0
        self.ident = 0
        self.branch = 0

    def add(self, r, dt):
        self.q[r] = self.q.get(r, 0) + 1
        self.t += dt

    def merge(self, o):
        for k, v in o.q.items():
            self.q[k] = self.q.get(k, 0) + v
        self.t += o.t
        self.ident += o.ident
        self.branch += o.branch

    def as_dict(self):
        return {"queries": dict(self.q), "solver_s": round(self.t, 3), "identity_queries": self.ident, "branch_queries": self.branch}


class Ctx:
    """One symbolic exploration (many paths)."""

    def __init__(self, mode="merge", branch_timeout_ms=3000, max_depth=400):
        self.mode = mode
        self.deadline = None
        self._points = {}
        self.eval_first = False  # identical(): evaluate at random points before expanding (see there)
        self.assume_defined = True  # obligations are stated for inputs on which every division is defined
        self.branch_timeout_ms = branch_timeout_ms
        self.max_depth = max_depth
        self.stats = Stats()
        self.vars = {}  # name -> z3 const (all symbolic inputs / stub outputs ever created, in creation order)
        self.pending = [[]]
        self.tripped = None
        self.nfresh = 0
        self._rnd = random.Random(12345)
        self.reset_path([])

    # ---- per path state
    def reset_path(self, prefix):
        self.prefix = prefix
        self.tripped = None
        self.decisions = []
        self.pc = []
        self.facts = {"def": [], "pre": []}  # named fact groups
        self.atoms = []  # root atoms: (var, arg, degree, core, isabs)
        self.dens = []  # denominators the code divided by
        self.rootargs = []  # (arg term, nn flag, degree) of every root taken
        self.rootargs_raw = []  # same with the unsimplified argument (keeps the code's top-level addends)
        self.atom_lemmas = []
        self.nonzero_ids = {}
        self.unit_atoms = {}  # ast id -> var for sign variables s with s*s == 1 (exponents reduce mod 2)
        self.abs_terms = []  # (If(t >= 0, t, -t), t) for every |t| built on this path
        self._abs_nn_cache = {}
        self.nonneg_pool = []
        self.solver = z3.Solver()
        self.nfresh_path = 0
        self.log = []
        self.stub_calls = []
        self.grng = None
        self._evmemo = {}  # (ast id, j) -> (term, value at point j): identical() with eval_first
        self._decided = {}  # ast id -> (condition, polarity): conditions already decided on this path

    def fresh(self, base="k"):
        self.nfresh_path += 1
        name = f"{base}!{self.nfresh_path}"
        v = z3.Real(name)
        self.vars[name] = v
        return v

    def var(self, name):
        v = z3.Real(name)
        self.vars[name] = v
        return v

    def unit_var(self, base="sgn"):
        """fresh sign variable s in {-1, +1} (fact s*s == 1); products reduce s**2 -> 1 syntactically"""
        v = self.fresh(base)
        self.unit_atoms[v.get_id()] = v
        self.add_fact("def", z3.Or(v == 1, v == -1))
        return SR(v)

    def add_fact(self, group, f):
        self.facts.setdefault(group, []).append(f)
        if group in ("def", "pre"):
            self.solver.add(f)

    def assume_nonzero(self, t):
        """precondition t != 0, also remembered syntactically so that later `t == 0` tests fold to False without a fork"""
        self.nonzero_ids[t.get_id()] = t
        self.add_fact("pre", t != 0)

    def assume(self, f):
        """precondition: restricts the quantifier of every later obligation and branch"""
        if isinstance(f, SB):
            f = f.t
        if isinstance(f, (bool, np.bool_)):
            if not f:
                self._trip(Abort())
            return
        self.add_fact("pre", f)

    def _trip(self, exc):
        """raise an executor control exception and remember it: code under analysis with a bare `except:` (e.g.
        active_set_nnls) swallows BaseException; the next executor call on the path re-raises it and explore() checks
        the flag when the path function returns, so a swallowed abort can never continue as if it were a real path"""
        self.tripped = exc
        raise exc

    # ---- solver plumbing
    def _check(self, solver, *assumptions, timeout_ms=None):
        if self.tripped is not None:
            raise self.tripped
        if self.deadline is not None and time.time() > self.deadline:
            self._trip(BudgetExceeded("config deadline"))
        tmo = int(timeout_ms or self.branch_timeout_ms)
        solver.set("timeout", tmo)
        t0 = time.time()
        # z3's own timeout is only polled at some points of nlsat and can overrun by minutes: back it with an interrupt
        import threading

        for attempt in (0, 1):
            wd = threading.Timer(tmo / 1000.0 * 1.25 + 1.0, solver.ctx.interrupt)
            wd.daemon = True
            wd.start()
            t1 = time.time()
            try:
                try:
                    r = str(solver.check(*assumptions))
                except z3.Z3Exception:
                    r = "unknown"
            finally:
                wd.cancel()
            # a watchdog of the PREVIOUS query that fired just as that query returned cancels this one at once
            # (seen under load: `unknown` after milliseconds with reason "canceled"): such an answer is retried once
            if r == "unknown" and attempt == 0 and time.time() - t1 < 0.25 * tmo / 1000.0:
                try:
                    why = solver.reason_unknown()
                except Exception:
                    why = ""
                if "cancel" in why or "interrupt" in why:
                    continue
            break
        self.stats.add(r, time.time() - t0)
        return r

    def free_choice(self, label="choice"):
        """fork on a fresh, unconstrained boolean (both polarities are feasible by construction: no solver call)"""
        if self.tripped is not None:
            raise self.tripped
        i = len(self.decisions)
        if i >= self.max_depth:
            self._trip(BudgetExceeded(f"depth>{self.max_depth}"))
        if i < len(self.prefix):
            d = self.prefix[i]
        else:
            self.pending.append(self.decisions + [False])
            d = True
        self.decisions.append(d)
        return d

    def branch(self, cond):
        """fork on a boolean term; returns the polarity taken on this path"""
        cond = z3.simplify(cond)
        if z3.is_true(cond):
            return True
        if z3.is_false(cond):
            return False
        # a condition that was already decided on this path (e.g. the same code executed a second time on the same
        # terms) keeps its polarity: no new decision, no solver call (the solver may answer unknown once nonlinear facts
        # have accumulated, which would fork an infeasible twin path)
        hit = self._decided.get(cond.get_id())
        if hit is not None and hit[0].eq(cond):
            return hit[1]
        if self.tripped is not None:
            raise self.tripped
        i = len(self.decisions)
        if i >= self.max_depth:
            self._trip(BudgetExceeded(f"depth>{self.max_depth}"))
        if i < len(self.prefix):
            d = self.prefix[i]
        else:
            self.stats.branch += 1
            rt = self._check(self.solver, cond)
            rf = self._check(self.solver, z3.Not(cond))
            t = rt != "unsat"
            f = rf != "unsat"
            if t and f:
                self.pending.append(self.decisions + [False])
                d = True
            elif t:
                d = True
            elif f:
                d = False
            else:
                self._trip(Abort())
        self.decisions.append(d)
        self._decided[cond.get_id()] = (cond, d)
        c = cond if d else z3.Not(cond)
        self.pc.append(c)
        self.solver.add(c)
        if os.environ.get("VT_DEBUG_BRANCH"):
            import traceback

            fr = [f for f in traceback.extract_stack() if "/tensorly/" in f.filename][-1:]
            print("BRANCH", d, str(cond)[:100].replace("\n", " "), [(f.filename.split("/")[-1], f.lineno) for f in fr], flush=True)
        return d

    # ---- polynomial / rational identity (context free)
    def identical(self, a, b, timeout_ms=4000):
        if a.eq(b):
            return True
        evaluated = False
        if self.eval_first:
            # sound refutation by evaluation at random rational points, done on the unexpanded difference (linear in the
            # DAG size) before the sum-of-monomials expansion below, which is exponential on deep products.  Opt-in
            # (Ctx.eval_first): the extra terms shift z3's AST numbering, to which borderline nonlinear queries of
            # other property modules are sensitive.
            # values are memoised per term at two fixed pseudo-random points
            for j in (0, 1):
                va, vb = self._eval_at(a, j), self._eval_at(b, j)
                if va is None or vb is None:
                    break
                evaluated = True
                if va != vb:
                    return False
        d = z3.simplify(a - b, som=True)
        if z3.is_rational_value(d):
            return _is_zero_value(d)
        if not evaluated:
            refuted, _ = self._refute_by_evaluation(d)
            if refuted:
                return False
        from . import ratnorm

        rr = ratnorm.identical_rational(a, b)
        if rr is not None:
            # denominators cleared: the numerator of a - b is (not) the zero polynomial
            self.stats.add("unsat" if rr else "sat", 0.0)
            return rr
        s = z3.Solver()
        s.set("timeout", timeout_ms)
        s.add(a != b)
        self.stats.ident += 1
        t0 = time.time()
        r = str(s.check())
        self.stats.add(r, time.time() - t0)
        return r == "unsat"

    def _eval_at(self, t, j):
        """exact value (string of a normalised rational) of term t at the j-th fixed pseudo-random point, or None"""
        key = (t.get_id(), j)
        hit = self._evmemo.get(key)
        if hit is not None and hit[0].eq(t):
            return hit[1]
        sub = []
        for name, v in self.vars.items():
            pk = (name, j)
            val = self._points.get(pk)
            if val is None:
                r = random.Random(f"{name}/{j}")
                val = self._points[pk] = rv(Fraction(r.randint(-9, 9) or 1, r.randint(1, 7)))
            sub.append((v, val))
        res = None
        try:
            val = z3.simplify(z3.substitute(t, *sub)) if sub else z3.simplify(t)
            if z3.is_rational_value(val):
                res = val.as_string()
        except z3.Z3Exception:
            res = None
        self._evmemo[key] = (t, res)
        return res

    def _refute_by_evaluation(self, d):
        """(refuted, evaluated): refuted = some random rational point gives d != 0 (so the terms are not identical)"""
        if not self.vars:
            return False, False
        evaluated = False
        for _ in range(2):
            sub = [(v, rv(self._rnd.choice((-1, 1))) if v.get_id() in self.unit_atoms else rv(Fraction(self._rnd.randint(-9, 9) or 1, self._rnd.randint(1, 7)))) for v in self.vars.values()]
            try:
                val = z3.simplify(z3.substitute(d, *sub))
            except z3.Z3Exception:
                break
            if z3.is_rational_value(val):
                evaluated = True
                if not _is_zero_value(val):
                    return True, True
            else:
                break
        return False, evaluated

    def known_nonneg(self, t):
        for p in self.nonneg_pool:
            if p.eq(t):
                return True
        return False

    def resolve_abs(self, term):
        """rewrite |t| -> t inside `term` for every recorded |t| whose t is polynomial-identical to a term of the
        non-negative pool (syntactic sums of squares registered by root() or by the harness): sound, value preserving"""
        if not self.abs_terms or not self.nonneg_pool:
            return term
        subs = []
        pool = self.nonneg_pool
        for ifterm, inner in self.abs_terms:
            iid = inner.get_id()
            ok = self._abs_nn_cache.get(iid)
            if not ok:
                start = self._abs_nn_cache.get(("n", iid), 0)
                for p in pool[start:]:
                    if self.identical(inner, p):
                        ok = True
                        break
                self._abs_nn_cache[("n", iid)] = len(pool)
                self._abs_nn_cache[iid] = ok
            if ok:
                subs.append((ifterm, inner))
        if not subs:
            return term
        # inner-most first so nested |.| resolve too
        out = term
        for _ in range(3):
            new = z3.substitute(out, *subs)
            if new.eq(out):
                break
            out = new
        return out

    # ---- root atoms
    def root(self, arg, degree=2, nn=False, sos=None):
        self.rootargs_raw.append((arg, bool(nn), degree))
        arg = z3.simplify(arg)
        if z3.is_rational_value(arg):
            fr = z3val_to_fraction(arg)
            if fr >= 0:
                r = _exact_root(fr, degree)
                if r is not None:
                    return SR(rv(r), c=r)
        if degree == 2 and getattr(self, "intern_roots", True) and not os.environ.get("VT_NO_ROOT1") and _has_div(arg):
            # norm of an already normalised column: sum_i (x_i/n)^2 with n*n folded back to sum_j x_j^2 is identically 1 wherever
            # the denominators are non-zero (definedness assumption); refuted by one random evaluation when it is not
            try:
                if self.identical(arg, z3.RealVal(1)):
                    return SR(rv(Fraction(1)), c=Fraction(1))
            except BudgetExceeded:
                raise
            except Exception:
                pass
        core, isabs = _strip_abs(arg)
        if nn and not any(p.eq(core) for p in self.nonneg_pool):
            self.nonneg_pool.append(core)
        self.rootargs.append((arg, bool(nn or isabs), degree))
        for v, a, dg, c2, abs2 in self.atoms:
            if dg == degree and a.eq(arg):
                return SR(v, nn=True, sq=(a, dg))
        core_r = None
        for v, a, dg, c2, abs2 in self.atoms if getattr(self, "intern_roots", True) else ():
            # (harnesses that only need sign reasoning set CTX.intern_roots = False: no interning modulo polynomial identity)
            if dg != degree:
                continue
            if self.abs_terms and self.nonneg_pool:
                if core_r is None:
                    core_r = _strip_abs(z3.simplify(self.resolve_abs(arg)))
                c2r, abs2r = _strip_abs(z3.simplify(self.resolve_abs(a)))
                if self.identical(c2r, core_r[0]):
                    nn1 = core_r[1] or nn or self.known_nonneg(core_r[0])
                    nn2 = abs2r or self.known_nonneg(c2r)
                    if (core_r[1] == abs2r) or (nn1 and nn2):
                        return SR(v, nn=True, sq=(a, dg))
            if self.identical(c2, core):
                nn1 = isabs or nn or self.known_nonneg(core)
                nn2 = abs2 or self.known_nonneg(c2)
                if (isabs == abs2) or (nn1 and nn2):
                    return SR(v, nn=True, sq=(a, dg))
        v = self.fresh("root")
        self.atoms.append((v, arg, degree, core, isabs))
        self.add_fact("def", v >= 0)
        if sos:
            # linear-shaped consequences of v = (sum p_i^2)^(1/n): sound for every degree.  Kept out of the solver's
            # permanent assertions (they are nonlinear in general) and supplied on demand: refinement level 1.
            self.atom_lemmas.append((v == 0) == z3.And([p == 0 for p in sos]))
            if degree == 2:
                for p in sos:
                    self.atom_lemmas.append(v >= p)
                    self.atom_lemmas.append(v >= -p)
        return SR(v, nn=True, sq=(arg, degree))

    def atom_defs(self, level=2):
        """definitional facts about root atoms, for lazy refinement.
        level 1: consequences for sums of squares (v == 0 <=> parts == 0, v >= |part|); level 2: additionally v**n == arg (under arg >= 0)."""
        out = list(self.atom_lemmas)
        if level >= 2:
            for v, a, dg, core, isabs in self.atoms:
                p = v
                for _ in range(dg - 1):
                    p = p * v
                out.append(z3.Implies(a >= 0, p == a))
        return out


def _has_div(t, _budget=[0]):
    """does the term contain a division by a non-constant? (bounded traversal)"""
    seen = set()
    stack = [t]
    n = 0
    found = False
    while stack:
        x = stack.pop()
        i = x.get_id()
        if i in seen:
            continue
        seen.add(i)
        n += 1
        if n > 600:
            return False  # large terms (nested clip / If chains of multiplicative updates): not worth an identity test per root
        if z3.is_app(x):
            k = x.decl().kind()
            if k == z3.Z3_OP_ITE:
                return False
            if k == z3.Z3_OP_DIV and not z3.is_rational_value(x):
                found = True
            stack.extend(x.children())
    return found


def _zero_const(o):
    if isinstance(o, SR):
        return o.c is not None and o.c == 0
    if isinstance(o, (bool, np.bool_)):
        return False
    if isinstance(o, (int, float, np.integer, np.floating, Fraction)):
        return o == 0
    return False


def _is_zero_value(v):
    """zero test of a z3 rational value without converting a (possibly huge) numerator to a Python int"""
    return v.numerator().as_string().lstrip("-") == "0"


def _exact_root(fr, n):
    def iroot(k):
        if k < 0:
            return None
        r = round(k ** (1.0 / n))
        for c in (r - 1, r, r + 1):
            if c >= 0 and c**n == k:
                return c
        return None

    a, b = iroot(fr.numerator), iroot(fr.denominator)
    if a is None or b is None:
        return None
    return Fraction(a, b)


def _strip_abs(a):
    """If(t >= 0, t, -t) -> (t, True)"""
    if z3.is_app(a) and a.decl().kind() == z3.Z3_OP_ITE:
        c, x, y = a.arg(0), a.arg(1), a.arg(2)
        if z3.is_app(c) and c.decl().kind() == z3.Z3_OP_GE and c.arg(0).eq(x) and z3.is_rational_value(c.arg(1)) and c.arg(1).numerator_as_long() == 0:
            if y.eq(z3.simplify(-x)):
                return x, True
    return a, False


# --------------------------------------------------------------------------- booleans
class SB:
    __slots__ = ("t",)

    def __init__(self, t):
        self.t = t

    def __repr__(self):
        return f"SB({self.t})"

    def __bool__(self):
        return CTX.branch(self.t)

    @staticmethod
    def _t(o):
        if isinstance(o, SB):
            return o.t
        if isinstance(o, (bool, np.bool_)):
            return z3.BoolVal(bool(o))
        return None

    def __and__(self, o):
        b = SB._t(o)
        if b is None:
            return NotImplemented
        return mkb(z3.And(self.t, b))

    def __or__(self, o):
        b = SB._t(o)
        if b is None:
            return NotImplemented
        return mkb(z3.Or(self.t, b))

    def __xor__(self, o):
        b = SB._t(o)
        if b is None:
            return NotImplemented
        return mkb(z3.Xor(self.t, b))

    def __invert__(self):
        return mkb(z3.Not(self.t))

    __rand__ = __and__
    __ror__ = __or__
    __rxor__ = __xor__

    def as_real(self):
        return SR(z3.If(self.t, z3.RealVal(1), z3.RealVal(0)), nn=True)

    def __mul__(self, o):
        if isinstance(o, (SB, bool, np.bool_)):
            return self.__and__(o)
        return self.as_real() * o

    __rmul__ = __mul__

    def __add__(self, o):
        if isinstance(o, SB):
            o = o.as_real()
        return self.as_real() + o

    __radd__ = __add__

    def __sub__(self, o):
        if isinstance(o, SB):
            o = o.as_real()
        return self.as_real() - o

    def __rsub__(self, o):
        return o - self.as_real()

    def __eq__(self, o):
        b = SB._t(o)
        if b is None:
            if isinstance(o, (int, float, np.integer, np.floating, Fraction, SR)):
                return self.as_real() == o
            return NotImplemented
        return mkb(self.t == b)

    def __ne__(self, o):
        b = SB._t(o)
        if b is None:
            if isinstance(o, (int, float, np.integer, np.floating, Fraction, SR)):
                return self.as_real() != o
            return NotImplemented
        return mkb(self.t != b)

    def __lt__(self, o):
        return self.as_real() < o

    def __le__(self, o):
        return self.as_real() <= o

    def __gt__(self, o):
        return self.as_real() > o

    def __ge__(self, o):
        return self.as_real() >= o

    __hash__ = None


def mkb(t):
    t = z3.simplify(t)
    if z3.is_true(t):
        return True
    if z3.is_false(t):
        return False
    return SB(t)


def bterm(x):
    """bool-like -> z3 BoolRef"""
    if isinstance(x, SB):
        return x.t
    if isinstance(x, z3.BoolRef):
        return x
    if isinstance(x, (bool, np.bool_)):
        return z3.BoolVal(bool(x))
    if isinstance(x, SR):
        return x.t != 0
    raise TypeError(type(x))


# --------------------------------------------------------------------------- reals
_INF = float("inf")


class SR:
    """symbolic real: z3 term (built lazily from a product form) + exact constant (if any) +
    syntactic sign facts.

    Product form `pf = (coef, ((id, exp, term, nn), ...))` is kept for pure products/quotients so
    that `(x * n) / n` cancels syntactically.  Cancelling n is only sound for n != 0; every
    symbolic denominator is recorded in CTX.dens and the obligations are stated under the
    definedness assumption `den != 0` (Ctx.assume_defined), which is reported in the evidence."""

    __slots__ = ("_t", "c", "nn", "sq", "ab", "sos", "pf", "pos", "abo")

    def __init__(self, t=None, c=None, nn=False, sq=None, ab=None, sos=None, pf=None):
        self._t = t
        self.c = c
        self.pos = bool(c is not None and c > 0)  # syntactically strictly positive (constants, max(x, positive constant))
        self.sq = sq  # (arg, degree) when this is a root atom
        self.ab = ab  # inner term when this is |inner|
        self.sos = sos  # tuple of terms whose squares sum to this value (syntactic sum of squares)
        self.pf = pf
        self.abo = None  # the SR (with its product form) this value is the absolute value of
        self.nn = bool(nn or sq is not None or ab is not None or (c is not None and c >= 0))

    @property
    def t(self):
        if self._t is None:
            self._t = _pf_build(self.pf)
        return self._t

    def __repr__(self):
        return f"SR({self.t})"

    # --- lifting
    @staticmethod
    def lift(o):
        if isinstance(o, SR):
            return o
        if isinstance(o, SB):
            return o.as_real()
        if isinstance(o, (bool, np.bool_, int, np.integer, float, np.floating, Fraction)):
            fr = _frac(o)  # may raise OverflowError for inf/nan
            return SR(rv(fr), c=fr)
        return None

    def _pf(self):
        if self.c is not None:
            return (self.c, ())
        if self.pf is not None:
            return self.pf
        t = self.t
        return (Fraction(1), ((t.get_id(), 1, t, self.nn, self.sq),))

    def __add__(self, o):
        try:
            b = SR.lift(o)
        except OverflowError:
            return float(o)
        if b is None:
            return NotImplemented
        if b.c is not None:
            if b.c == 0:
                return self
            if self.c is not None:
                return const(self.c + b.c)
        if self.c is not None and self.c == 0:
            return b
        sos = self.sos + b.sos if (self.sos is not None and b.sos is not None) else None
        return SR(self.t + b.t, nn=self.nn and b.nn, sos=sos)

    __radd__ = __add__

    def __sub__(self, o):
        try:
            b = SR.lift(o)
        except OverflowError:
            return -float(o)
        if b is None:
            return NotImplemented
        if b.c is not None:
            if b.c == 0:
                return self
            if self.c is not None:
                return const(self.c - b.c)
        if self.pf is not None and b.pf is not None:
            if self.pf[0] == b.pf[0] and _pf_key(self.pf) == _pf_key(b.pf):
                return const(0)
        elif self.t.eq(b.t):
            return const(0)
        return SR(self.t - b.t)

    def __rsub__(self, o):
        try:
            b = SR.lift(o)
        except OverflowError:
            return float(o)
        if b is None:
            return NotImplemented
        return b.__sub__(self)

    def __mul__(self, o):
        try:
            b = SR.lift(o)
        except OverflowError:
            return float(o) * (1.0 if self.nn else float("nan"))
        if b is None:
            return NotImplemented
        if self.c is not None and b.c is not None:
            return const(self.c * b.c)
        if (self.c is not None and self.c == 0) or (b.c is not None and b.c == 0):
            return const(0)
        if b.c is not None and b.c == 1:
            return self
        if self.c is not None and self.c == 1:
            return b
        if self.ab is not None and b.ab is not None and self.ab.eq(b.ab):
            x = self.abo if self.abo is not None else SR(self.ab)
            return _pf_mul(x, x, 1)
        return _pf_mul(self, b, 1)

    __rmul__ = __mul__

    def __truediv__(self, o):
        try:
            b = SR.lift(o)
        except OverflowError:
            return const(0)
        if b is None:
            return NotImplemented
        if b.c is not None:
            if b.c == 0:
                raise ZeroDivisionError("symbolic value divided by constant 0")
            if b.c == 1:
                return self
            if self.c is not None:
                return const(self.c / b.c)
            return self * const(1 / b.c)
        # symbolic denominator: definedness obligation for each factor (none for a syntactically positive value such as
        # clip(x, a_min=eps): `den != 0` over merged If-terms is what makes models of multiplicative-update paths hard to find)
        if not b.pos:
            for f in b._pf()[1]:
                if f[1] > 0:
                    CTX.dens.append(f[2])
        if self.c is not None and self.c == 0:
            return const(0)
        if not CTX.assume_defined:
            return SR(self.t / b.t, nn=self.nn and b.nn)
        return _pf_mul(self, b, -1)

    def __rtruediv__(self, o):
        b = SR.lift(o)
        if b is None:
            return NotImplemented
        return b.__truediv__(self)

    def __neg__(self):
        if self.c is not None:
            return const(-self.c)
        if self.pf is not None:
            return SR(pf=(-self.pf[0], self.pf[1]))
        return SR(pf=(Fraction(-1), self._pf()[1]))

    def __pos__(self):
        return self

    def __pow__(self, n):
        if isinstance(n, SR):
            if n.c is None:
                raise TypeError("symbolic exponent")
            n = n.c
        if isinstance(n, (float, np.floating)) and float(n) == int(n):
            n = int(n)
        if isinstance(n, Fraction) and n.denominator == 1:
            n = int(n)
        if isinstance(n, (int, np.integer)):
            n = int(n)
            if n < 0:
                return const(1) / (self ** (-n))
            if n == 0:
                return const(1)
            if n == 1:
                return self
            if self.c is not None:
                return const(self.c**n)
            r = self
            for _ in range(n - 1):
                r = r * self
            return r
        fr = Fraction(float(n)).limit_denominator(64)
        if abs(float(fr) - float(n)) > 1e-12:
            raise TypeError(f"unsupported exponent {n}")
        if fr < 0:
            return const(1) / (self ** (-fr))
        r = self.root(fr.denominator)
        return r ** fr.numerator

    def __abs__(self):
        if self.nn:
            return self
        if self.c is not None:
            return const(abs(self.c))
        tt = z3.simplify(self.t)
        it = z3.If(tt >= 0, tt, z3.simplify(-tt))
        CTX.abs_terms.append((it, tt))
        r = SR(it, ab=tt)
        r.abo = self
        return r

    def conjugate(self):
        return self

    conj = conjugate

    @property
    def real(self):
        return self

    @property
    def imag(self):
        return const(0)

    def root(self, degree):
        if degree == 1:
            return self
        if self.c is not None and self.c >= 0:
            r = _exact_root(self.c, degree)
            if r is not None:
                return const(r)
        return CTX.root(self.t, degree, nn=self.nn, sos=self.sos)

    def sqrt(self):
        return self.root(2)

    # --- comparisons (symbolic booleans)
    def _cmp(self, o, f):
        try:
            b = SR.lift(o)
        except OverflowError:
            return f(0.0, float(o))  # finite vs inf/nan
        if b is None:
            return NotImplemented
        if self.c is not None and b.c is not None:
            return f(self.c, b.c)
        return mkb(f(self.t, b.t))

    def __lt__(self, o):
        if self.nn and self.c is None and _nonpos_const(o):
            return False  # syntactically non-negative value < non-positive constant: decided without the solver
        return self._cmp(o, lambda a, b: a < b)

    def __le__(self, o):
        return self._cmp(o, lambda a, b: a <= b)

    def __gt__(self, o):
        return self._cmp(o, lambda a, b: a > b)

    def __ge__(self, o):
        if self.nn and self.c is None and _nonpos_const(o):
            return True
        return self._cmp(o, lambda a, b: a >= b)

    def _known_nonzero(self, o):
        if not (self.c is None and CTX is not None and CTX.nonzero_ids and _zero_const(o)):
            return False
        if self.pf is not None and self.pf[0] != 0 and self.pf[1]:
            # a pure product / quotient of factors each asserted non-zero is non-zero (tl.prod of column norms == 0)
            if all(f[0] in CTX.nonzero_ids for f in self.pf[1]):
                return True
        return self.t.get_id() in CTX.nonzero_ids

    def __eq__(self, o):
        if self._known_nonzero(o):
            return False  # asserted non-zero by a harness precondition (Ctx.assume_nonzero)
        return self._cmp(o, lambda a, b: a == b)

    def __ne__(self, o):
        if self._known_nonzero(o):
            return True
        return self._cmp(o, lambda a, b: a != b)

    __hash__ = None

    # --- concretisation
    def __bool__(self):
        if self.c is not None:
            return self.c != 0
        return CTX.branch(self.t != 0)

    def _concretise_int(self):
        if self.c is not None:
            if self.c.denominator != 1:
                raise TypeError("non-integer constant used as integer")
            return int(self.c)
        # fork over the feasible integer values
        for _ in range(64):
            s = CTX.solver
            r = CTX._check(s)
            if r != "sat":
                CTX._trip(BudgetExceeded("cannot concretise integer-valued term"))
            m = s.model()
            v = z3val_to_fraction(m.eval(self.t, model_completion=True))
            k = int(math.floor(v))
            if CTX.branch(self.t == k):
                return k
        CTX._trip(BudgetExceeded("too many integer values"))

    def __index__(self):
        return self._concretise_int()

    def __int__(self):
        return self._concretise_int()

    def __float__(self):
        if self.c is not None:
            return float(self.c)
        raise TypeError("float() of a symbolic value")

    def __round__(self, n=None):
        if self.c is not None:
            return round(self.c, n)
        raise TypeError("round() of a symbolic value")


def _nonpos_const(o):
    if isinstance(o, SR):
        return o.c is not None and o.c <= 0
    if isinstance(o, (int, float, Fraction, np.integer, np.floating)) and not isinstance(o, (bool, np.bool_)):
        return o <= 0
    return False


def _pf_key(pf):
    return tuple((f[0], f[1]) for f in pf[1])


def _pf_build(pf):
    coef, facs = pf
    num = None
    den = None
    for _id, e, t, _nn, _sq in facs:
        for _ in range(abs(e)):
            if e > 0:
                num = t if num is None else num * t
            else:
                den = t if den is None else den * t
    if num is None:
        r = rv(coef)
    elif coef == 1:
        r = num
    elif coef == -1:
        r = -num
    else:
        r = rv(coef) * num
    if den is not None:
        r = r / den
    return r


def _pf_mul(a, b, sign):
    """a * b**sign in product form, with cancellation and root-atom power reduction"""
    ca, fa = a._pf()
    cb, fb = b._pf()
    coef = ca * cb if sign > 0 else ca / cb
    d = {}
    for f in fa:
        d[f[0]] = [f[1], f[2], f[3], f[4]]
    for f in fb:
        if f[0] in d:
            d[f[0]][0] += sign * f[1]
        else:
            d[f[0]] = [sign * f[1], f[2], f[3], f[4]]
    extra = []
    units = CTX.unit_atoms if CTX is not None else {}
    for k in list(d):
        e, t, nn, sq = d[k]
        if units and k in units:
            e = e % 2
            d[k][0] = e
        if e == 0:
            del d[k]
            continue
        if sq is not None and abs(e) >= sq[1]:
            q, r = divmod(abs(e), sq[1])
            s = 1 if e > 0 else -1
            if r == 0:
                del d[k]
            else:
                d[k][0] = s * r
            extra.append((SR(sq[0], nn=True), s * q))
    facs = tuple(sorted(((k, v[0], v[1], v[2], v[3]) for k, v in d.items()), key=lambda f: f[0]))
    if not facs:
        res = const(coef)
    else:
        nn = coef >= 0 and all(f[3] or f[1] % 2 == 0 for f in facs)
        sos = None
        if coef == 1 and len(facs) == 1 and facs[0][1] == 2:
            sos = (facs[0][2],)
        elif coef > 0 and all(f[1] % 2 == 0 and f[1] > 0 for f in facs):
            rc = _exact_root(coef, 2)
            if rc is not None:
                sos = (_pf_build((rc, tuple((f[0], f[1] // 2, f[2], f[3], f[4]) for f in facs))),)
        if coef == 1 and len(facs) == 1 and facs[0][1] == 1:
            res = SR(facs[0][2], nn=facs[0][3], sq=facs[0][4])
        else:
            res = SR(pf=(coef, facs), nn=nn, sos=sos)
    for base, e in extra:
        for _ in range(abs(e)):
            res = res * base if e > 0 else res / base
    return res


def const(fr):
    fr = Fraction(fr)
    return SR(rv(fr), c=fr)


def term(x):
    """number-like -> z3 real term"""
    if isinstance(x, SR):
        return x.t
    if isinstance(x, SB):
        return x.as_real().t
    if isinstance(x, z3.ArithRef):
        return x
    return rv(_frac(x))


def ite(c, a, b):
    """merge-or-fork conditional on scalars"""
    if isinstance(c, (bool, np.bool_)):
        return a if c else b
    if isinstance(c, SR):
        c = c != 0
        if isinstance(c, (bool, np.bool_)):
            return a if c else b
    if CTX.mode == "fork":
        return a if bool(c) else b
    ta, tb = term(a), term(b)
    if ta.eq(tb):
        return a
    nn = _nn(a) and _nn(b)
    return SR(z3.If(c.t, ta, tb), nn=nn)


def _nn(o):
    if isinstance(o, SR):
        return o.nn
    if isinstance(o, SB):
        return True
    try:
        return bool(o >= 0)
    except Exception:
        return False


def smax(a, b):
    if not isinstance(a, (SR, SB)) and not isinstance(b, (SR, SB)):
        return a if a >= b else b
    a = SR.lift(a)
    b = SR.lift(b)
    r = ite(a >= b, a, b)
    if isinstance(r, SR) and (a.nn or b.nn):
        r.nn = True
    if isinstance(r, SR) and ((a.c is not None and a.c > 0) or (b.c is not None and b.c > 0)) and r.c is None:
        r.pos = True  # max(x, positive constant) > 0
    return r


def smin(a, b):
    if not isinstance(a, (SR, SB)) and not isinstance(b, (SR, SB)):
        return a if a <= b else b
    a = SR.lift(a)
    b = SR.lift(b)
    return ite(a <= b, a, b)


# --------------------------------------------------------------------------- arrays
class SArr(np.ndarray):
    """object ndarray whose comparisons stay symbolic (arrays of SB) instead of forking per element"""

    __array_priority__ = 100

    def _cmp(self, o, uf):
        a = np.asarray(self)
        b = o if isinstance(o, np.ndarray) else np.asarray(o, dtype=object)
        r = uf(a, np.asarray(b), dtype=object)
        if isinstance(r, np.ndarray):
            if all(isinstance(e, (bool, np.bool_)) for e in r.ravel()):
                return np.asarray(r, dtype=bool)
            return r.view(SArr)
        return r

    def __eq__(self, o):
        return self._cmp(o, np.equal)

    def __ne__(self, o):
        return self._cmp(o, np.not_equal)

    def __lt__(self, o):
        return self._cmp(o, np.less)

    def __le__(self, o):
        return self._cmp(o, np.less_equal)

    def __gt__(self, o):
        return self._cmp(o, np.greater)

    def __ge__(self, o):
        return self._cmp(o, np.greater_equal)

    __hash__ = None

    def __getitem__(self, key):
        # a mask of symbolic conditions used as an index (`A[x > 0]`) is concretised: forks per entry
        if isinstance(key, tuple):
            if any(isinstance(k, np.ndarray) and k.dtype == object for k in key):
                key = tuple(_concrete_mask(k) for k in key)
        elif isinstance(key, np.ndarray) and key.dtype == object:
            key = _concrete_mask(key)
        return np.ndarray.__getitem__(self, key)


def _concrete_mask(k):
    if isinstance(k, np.ndarray) and k.dtype == object and k.size and all(isinstance(e, (SB, bool, np.bool_)) for e in k.ravel()):
        return np.array([bool(e) for e in k.ravel()], dtype=bool).reshape(k.shape)
    return k


def sarr(x):
    a = np.asarray(x)
    if a.dtype != object:
        a = a.astype(object)
    return a.view(SArr)


def sym_array(name, shape, nn=False):
    """array of fresh named symbolic reals (registered as inputs in the live context)"""
    a = np.empty(shape, dtype=object)
    for idx in np.ndindex(*shape):
        v = CTX.var(f"{name}[{','.join(map(str, idx))}]" if shape else name)
        a[idx] = SR(v, nn=nn)
        if nn:
            CTX.add_fact("pre", v >= 0)
    return a.view(SArr)


def terms_of(arr):
    return [term(e) for e in np.asarray(arr, dtype=object).ravel()]


# --------------------------------------------------------------------------- executor
class PathRecord:
    __slots__ = ("decisions", "result", "exception", "npc")

    def __init__(self, decisions, result, exception, npc):
        self.decisions = decisions
        self.result = result
        self.exception = exception
        self.npc = npc


def explore(fn, mode="merge", max_paths=2000, max_seconds=None, branch_timeout_ms=3000, max_depth=400, deadline=None):
    """Run fn() once per feasible decision prefix.  fn does its own obligation checking on the
    live context.  Returns (records, ctx, complete)."""
    global CTX
    c = Ctx(mode=mode, branch_timeout_ms=branch_timeout_ms, max_depth=max_depth)
    CTX = c
    c.deadline = deadline
    out = []
    t0 = time.time()
    complete = True
    try:
        while c.pending:
            if len(out) >= max_paths or (max_seconds and time.time() - t0 > max_seconds) or (deadline and time.time() > deadline):
                complete = False
                break
            c.reset_path(c.pending.pop())
            try:
                res = fn()
                exc = None
                if c.tripped is not None:
                    raise c.tripped
            except Abort:
                continue
            except BudgetExceeded as e:
                complete = False
                out.append(PathRecord(list(c.decisions), None, ("BudgetExceeded", str(e)), len(c.pc)))
                continue
            except Exception as e:  # tensorly raising on this path is a result
                if isinstance(c.tripped, Abort):
                    continue
                if c.tripped is not None:
                    complete = False
                    out.append(PathRecord(list(c.decisions), None, ("BudgetExceeded", str(c.tripped)), len(c.pc)))
                    continue
                res = None
                exc = (type(e).__name__, str(e)[:300])
                if os.environ.get("VT_DEBUG_EXC"):
                    import traceback

                    traceback.print_exc()
            out.append(PathRecord(list(c.decisions), res, exc, len(c.pc)))
    finally:
        CTX = None
    return out, c, complete
