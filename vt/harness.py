"""Dual-mode harness environment.

A property harness is an ordinary Python function `harness(E, cfg)` that calls the real
tensorly functions and states obligations through `E`.  It is executed
  * symbolically (E.symbolic): inputs are solver variables, kernels are stubbed, every
    obligation becomes a validity query  pc AND preconditions AND facts |- phi ;
  * concretely (replay): inputs are float64 arrays taken from a solver model, the real NumPy
    backend and real LAPACK run, and the same obligation is evaluated numerically.
Only an obligation that fails in *both* is a violation (DESIGN.md 1.6).
"""
import hashlib
import json
import math
import os
import subprocess
import sys
import time
from fractions import Fraction

import numpy as np
import z3

from . import sym
from .sym import SR, SB, SArr, term, bterm, const

ROOT = os.path.dirname(os.path.dirname(os.path.abspath(__file__)))
REPLAY_DIR = os.path.join(ROOT, "replays")


class ReplayMismatch(Exception):
    """concrete inputs do not satisfy a harness precondition (model rounding): not a reproduction"""


def _flat(x):
    if isinstance(x, (list, tuple)):
        out = []
        for e in x:
            out.extend(_flat(e))
        return out
    if isinstance(x, np.ndarray):
        return list(x.ravel())
    return [x]


class Env:
    def __init__(self, symbolic, cfg_key, pid, inputs=None, tier="quick", only=None):
        self.symbolic = symbolic
        self.cfg_key = cfg_key
        self.pid = pid
        self.tier = tier
        self.inputs = inputs or {}
        self.only = only  # concrete mode: the obligation being replayed (None = all)
        self.decl = {}  # symbolic: name -> array of z3 vars
        self.results = []  # obligation records of the current path
        self.failed = []  # concrete mode: names of obligations that failed
        self.reached = []
        self.q_timeout_ms = 20000 if tier == "quick" else 120000
        self.max_replays = 3
        self._nreplays = 0
        self.confirmed = {}  # obligation name -> replay path (shared across the paths of one config)

    # ------------------------------------------------------------------ inputs
    def real(self, name, shape=(), nn=False, pos=False, nonzero=False, lo=None, hi=None, integer=False):
        shape = tuple(shape) if not isinstance(shape, int) else (shape,)
        if self.symbolic:
            a = sym.sym_array(name, shape, nn=nn or pos or (lo is not None and lo >= 0))
            self.decl[name] = a
            for e in a.ravel() if shape else [a[()]]:
                if pos:
                    sym.CTX.add_fact("pre", e.t > 0)
                if nonzero:
                    sym.CTX.add_fact("pre", e.t != 0)
                if lo is not None:
                    sym.CTX.add_fact("pre", e.t >= sym.rv(Fraction(lo)))
                if hi is not None:
                    sym.CTX.add_fact("pre", e.t <= sym.rv(Fraction(hi)))
                if integer:
                    sym.CTX.add_fact("pre", z3.IsInt(e.t))
            return a if shape else a[()]
        if name not in self.inputs:
            raise ReplayMismatch(f"no value for input {name}")
        v = np.array(self.inputs[name], dtype=np.float64).reshape(shape)
        if (nn and (v < 0).any()) or (pos and (v <= 0).any()) or (nonzero and (v == 0).any()):
            raise ReplayMismatch(f"input {name} violates its declared sign")
        if lo is not None and (v < lo).any() or hi is not None and (v > hi).any():
            raise ReplayMismatch(f"input {name} out of range")
        return v if shape else float(v)

    def assume(self, cond):
        if self.symbolic:
            if isinstance(cond, (list, tuple, np.ndarray)):
                for c in _flat(cond):
                    sym.CTX.assume(c)
            else:
                sym.CTX.assume(cond)
            return
        if isinstance(cond, (list, tuple, np.ndarray)):
            ok = all(bool(c) for c in _flat(cond))
        else:
            ok = bool(cond)
        if not ok:
            raise ReplayMismatch("precondition false on the concrete input")

    def nonneg(self, x):
        """register a syntactic sum of squares as known non-negative (lets |t| resolve to t when t is polynomial-identical to it)"""
        if not self.symbolic:
            return
        if isinstance(x, SR) and x.c is None:
            if not x.nn:
                raise ValueError("E.nonneg expects a syntactically non-negative value (sums/products of squares)")
            t = z3.simplify(x.t)
            if not any(p.eq(t) for p in sym.CTX.nonneg_pool):
                sym.CTX.nonneg_pool.append(t)

    # ------------------------------------------------------------------ generic scalar ops for oracles
    def sqrt(self, x):
        if isinstance(x, (SR, SB)):
            return SR.lift(x).sqrt()
        if self.symbolic:
            return const(sym._frac(x)).sqrt()
        return math.sqrt(x) if x >= 0 else float("nan")

    def max(self, *xs):
        xs = _flat(list(xs))
        r = xs[0]
        for e in xs[1:]:
            r = sym.smax(r, e) if self.symbolic else (r if r >= e else e)
        return r

    def min(self, *xs):
        xs = _flat(list(xs))
        r = xs[0]
        for e in xs[1:]:
            r = sym.smin(r, e) if self.symbolic else (r if r <= e else e)
        return r

    def ite(self, c, a, b):
        if self.symbolic:
            return sym.ite(c, a, b)
        return a if c else b

    def And(self, *cs):
        cs = _flat(list(cs))
        if self.symbolic:
            return sym.mkb(z3.And([bterm(c) for c in cs])) if cs else True
        return all(bool(c) for c in cs)

    def Or(self, *cs):
        cs = _flat(list(cs))
        if self.symbolic:
            return sym.mkb(z3.Or([bterm(c) for c in cs])) if cs else False
        return any(bool(c) for c in cs)

    def Not(self, c):
        if self.symbolic:
            return sym.mkb(z3.Not(bterm(c)))
        return not bool(c)

    def Implies(self, a, b):
        return self.Or(self.Not(a), b)

    # tolerant comparisons (exact in symbolic mode)
    def _floor(self):
        """magnitude floor of the replay tolerance: 1, or the largest input magnitude when ALL replay inputs are tiny
        (data given in tiny units must not make every comparison pass trivially)"""
        if not getattr(self, "scale_aware", False):
            # default: absolute floor 1.  Opt-in (E.scale_aware = True) for harnesses whose compared quantities all scale with the
            # inputs (C09: reconstructions vs. data); on dimensionless quantities (cosines, relative errors) a floor that shrinks
            # with tiny inputs turns benign sqrt(eps) cancellation into mismatches (two false alarms, DESIGN 9.3)
            return 1.0
        f = getattr(self, "_floor_cache", None)
        if f is None:
            m = 0.0
            for v in self.inputs.values():
                a = np.abs(np.asarray(v, dtype=float))
                if a.size:
                    m = max(m, float(a.max()))
            f = m if 0.0 < m < 1.0 else 1.0
            self._floor_cache = f
        return f

    def tol(self, *xs):
        m = self._floor() if not self.symbolic else 1.0
        for x in _flat(list(xs)):
            try:
                m = max(m, abs(float(x)))
            except (TypeError, ValueError):
                pass
        return 1e-7 * m

    def eq(self, a, b):
        if self.symbolic:
            r = SR.lift(a) == b
            return r
        a = float(a)
        b = float(b)
        if not (math.isfinite(a) and math.isfinite(b)):
            return False
        return abs(a - b) <= self.tol(a, b)

    def nonzero(self, x):
        """x != 0, exact in both modes (for preconditions such as 'the data is not the zero tensor': tiny values are not zero)"""
        if self.symbolic:
            return self.Not(SR.lift(x) == 0) if isinstance(x, (SR, SB)) else (x != 0)
        return float(x) != 0.0

    def ge(self, a, b):
        if self.symbolic:
            return SR.lift(a) >= b
        a = float(a)
        b = float(b)
        if not (math.isfinite(a) and math.isfinite(b)):
            return False
        return a >= b - self.tol(a, b)

    def le(self, a, b):
        return self.ge(b, a)

    def gt_strict(self, a, b):
        """a > b with a margin in concrete mode (for 'really violated' statements)"""
        if self.symbolic:
            return SR.lift(a) > b
        return float(a) > float(b) + 10 * self.tol(a, b)

    def eq_arrays(self, A, B):
        A = np.asarray(A, dtype=object if self.symbolic else np.float64)
        B = np.asarray(B, dtype=object if self.symbolic else np.float64)
        if A.shape != B.shape:
            return False
        if self.symbolic:
            return self.And([self.eq(x, y) for x, y in zip(A.ravel(), B.ravel())])
        scale = self.tol(list(A.ravel()), list(B.ravel()))
        if not (np.isfinite(A).all() and np.isfinite(B).all()):
            return False
        return bool((np.abs(A - B) <= scale).all())

    # ------------------------------------------------------------------ obligations
    def prove(self, name, cond, groups=(), detail=None, hints=()):
        """obligation: cond must hold on this path for every value of the inputs"""
        self.reached.append(name)
        if not self.symbolic:
            if isinstance(cond, (list, tuple, np.ndarray)):
                ok = all(bool(c) for c in _flat(cond))
            else:
                ok = bool(cond)
            if not ok:
                self.failed.append(name)
            return ok
        t0 = time.time()
        if isinstance(cond, (list, tuple, np.ndarray)):
            parts = [bterm(c) for c in _flat(cond)]
            phi = z3.And(parts) if parts else z3.BoolVal(True)
        else:
            phi = bterm(cond)
        rec = {"name": name, "path": list(sym.CTX.decisions), "verdict": None, "seconds": 0.0}
        if detail:
            rec["detail"] = detail
        verdict, model = self._decide(phi, groups)
        if verdict == "unknown" and not hints:
            # undecided in general: look for a counterexample with every variable in a small integer box (finite-domain search;
            # a model found here is a genuine model of the negated obligation and still has to survive the concrete replay)
            ivars = list(sym.CTX.vars.values())
            if ivars:
                ks = [z3.Int(f"__b{i}") for i in range(len(ivars))]
                # unit box, then a tiny-magnitude box (k * 2^-60): thresholds against machine epsilon only bite there
                for unit in (z3.RealVal(1), z3.RealVal(1) / z3.RealVal(2**60)):
                    box = [v == z3.ToReal(k) * unit for v, k in zip(ivars, ks)] + [z3.And(k >= -2, k <= 2) for k in ks]
                    r, m = self._decide(phi, groups, extra=box, timeout_ms=8000)
                    if r == "sat":
                        verdict, model = "sat", m
                        break
        if verdict == "unknown" and hints:
            # witness search: a hint is a sufficient condition for NOT phi that is easier to satisfy (e.g. exact cancellation)
            ivars = list(sym.CTX.vars.values())
            ks = [z3.Int(f"__h{i}") for i in range(len(ivars))]
            box = [v == z3.ToReal(k) for v, k in zip(ivars, ks)] + [z3.And(k >= -3, k <= 3) for k in ks]
            for h in hints:
                r, m = self._decide(z3.Not(h), groups, extra=box, timeout_ms=10000)
                if r == "sat":
                    verdict, model = "sat", m
                    break
        if verdict == "sat":
            verdict, info = self._confirm(name, phi, groups, model)
            rec.update(info)
        elif verdict == "unknown" and name not in self.confirmed:
            # undecided: a generic concrete input on which the real run fails this obligation is still a genuine counterexample
            for kind in ("generic", "generic-tiny-data"):
                if self._nreplays >= 6 * self.max_replays:
                    break
                self._nreplays += 1
                vals = self._generic_inputs(kind)
                path = write_replay(self.pid, self.cfg_key, name, vals, None)
                ok, out = run_replay(self.pid, path)
                if ok:
                    verdict = "violated"
                    rec.update({"replay": path, "inputs": vals, "found_by": "generic replay after an undecided query"})
                    self.confirmed[name] = path
                    break
                try:
                    os.remove(path)
                except OSError:
                    pass
        elif verdict == "unknown" and name in self.confirmed:
            verdict = "violated"
            rec.update({"replay": self.confirmed[name], "duplicate_of_confirmed": True})
        rec["verdict"] = {"unsat": "proved", "unknown": "inconclusive"}.get(verdict, verdict)
        rec["seconds"] = round(time.time() - t0, 3)
        self.results.append(rec)
        return rec["verdict"] == "proved"

    def prove_eq(self, name, A, B, groups=()):
        return self.prove(name, self.eq_arrays(A, B), groups)

    def _assumptions(self, groups):
        c = sym.CTX
        out = []
        for g in groups:
            out.extend(c.facts.get(g, []))
        if c.assume_defined:
            for d in c.dens:
                out.append(d != 0)
        return out

    def _decide(self, phi, groups, extra=(), timeout_ms=None):
        c = sym.CTX
        phi_s = z3.simplify(phi)
        if z3.is_true(phi_s):
            c.stats.add("unsat", 0.0)
            return "unsat", None
        if getattr(self, "fresh_solver", False):
            # opt-in (E.fresh_solver = True): one-shot solver instead of push/pop on the path solver.  z3 then runs its
            # non-incremental strategy (nlsat), which decides rational-function identities the incremental core gives up on.
            s = z3.Solver()
            # opt-in E.drop_path = "pc" | "all": prove under fewer hypotheses (sound): without the branch conditions of the
            # path ("pc"), or with nothing but the listed fact groups and definedness ("all") -- for path-independent lemmas
            dp = getattr(self, "drop_path", False)
            if dp == "all":
                base = []
            elif dp == "pc":
                base = list(c.facts.get("def", [])) + list(c.facts.get("pre", []))
            else:
                base = list(c.solver.assertions())
            fs = base + list(self._assumptions(groups)) + list(extra) + [z3.Not(phi)]
            if getattr(self, "div_elim", False) and c.assume_defined:
                # opt-in (E.div_elim = True, with fresh_solver): p/q -> p*inv_q with q*inv_q == 1 (see div_elim below)
                fs = div_elim(fs)
            for f in fs:
                s.add(f)
            r = c._check(s, timeout_ms=timeout_ms or self.q_timeout_ms)
            m = s.model() if r == "sat" else None
            if r == "unknown" and os.environ.get("VT_DEBUG_UNKNOWN"):
                print("UNKNOWN:", s.reason_unknown(), flush=True)
            return r, m
        s = c.solver
        from . import ratnorm

        assumptions = list(self._assumptions(groups)) + list(extra)
        goal = z3.Not(phi)
        # polynomial / rational identities: bring every (dis)equality of the goal to `expanded numerator ~ 0` first.  An identity then
        # simplifies to False without the solver.  (z3's own verdict on such goals depends on its term ordering, i.e. on what the worker
        # process ran before: the same identity was `unsat` in 0.0 s in most runs and `unknown` after 20 s in one run out of six.)
        if c.assume_defined:
            try:
                g0, _ = ratnorm.clear_denominators(c.resolve_abs(goal), force=True)
                if z3.is_false(z3.simplify(g0)):
                    c.stats.add("unsat", 0.0)
                    return "unsat", None
            except Exception:
                pass
        attempts = []
        if c.assume_defined:
            # clear denominators in (dis)equalities: sound because every denominator is asserted non-zero
            try:
                g2, ch = ratnorm.clear_denominators(c.resolve_abs(goal))
                a2 = []
                for f in assumptions:
                    f2, chf = ratnorm.clear_denominators(f)
                    ch = ch or chf
                    a2.append(f2)
                if ch:
                    attempts.append((a2, g2))
            except Exception:
                pass
        attempts.append((assumptions, goal))
        r, m = "unknown", None
        budget = timeout_ms or self.q_timeout_ms
        for i, (asm, g) in enumerate(attempts):
            s.push()
            try:
                for f in asm:
                    s.add(f)
                s.add(g)
                r = c._check(s, timeout_ms=budget if i == len(attempts) - 1 else max(2000, budget // 2))
                m = s.model() if r == "sat" else None
                if r == "unknown" and os.environ.get("VT_DEBUG_UNKNOWN"):
                    print("UNKNOWN:", s.reason_unknown(), flush=True)
            finally:
                s.pop()
            if r != "unknown":
                break
        return r, m

    def _input_vars(self):
        out = []
        for name, a in self.decl.items():
            for e in np.asarray(a, dtype=object).ravel():
                out.append(e.t)
        return out

    def _model_inputs(self, model):
        vals = {}
        exact = {}
        for name, a in self.decl.items():
            arr = np.asarray(a, dtype=object)
            fl = []
            ex = []
            for e in arr.ravel():
                fr = sym.z3val_to_fraction(model.eval(e.t, model_completion=True))
                fl.append(float(fr))
                ex.append(str(fr))
            vals[name] = np.array(fl, dtype=np.float64).reshape(arr.shape).tolist()
            exact[name] = ex
        return vals, exact

    def _generic_inputs(self, kind="generic"):
        """generic replay inputs; the 'tiny' kinds scale the first declared input (usually the data) or every input by 2^-60,
        the region where thresholds against machine epsilon bite"""
        import random

        rnd = random.Random(4242)
        vals = {}
        for pos_, (name, a) in enumerate(self.decl.items()):
            scale = 1.0
            if kind == "generic-tiny-all" or (kind == "generic-tiny-data" and pos_ == 0):
                scale = 2.0**-60
            arr = np.asarray(a, dtype=object)
            out = []
            for e in arr.ravel():
                v = rnd.choice([0.5, 1.0, 1.5, 2.0, 2.5, 3.0, 0.75, 1.25])
                if not e.nn and rnd.random() < 0.4:
                    v = -v
                out.append(v * scale)
            vals[name] = np.array(out, dtype=np.float64).reshape(arr.shape).tolist()
        return vals

    def _confirm(self, name, phi, groups, model):
        """a sat answer is only a candidate: refine the root abstraction, look for a float-exact
        model, then replay on the real build"""
        c = sym.CTX
        info = {}
        extra = []
        if name in self.confirmed:
            # same obligation already confirmed by replay on another path of this configuration
            return "violated", {"replay": self.confirmed[name], "duplicate_of_confirmed": True}
        atom_ids = {a[0].get_id() for a in c.atoms}
        if c.atoms and (_mentions(phi, atom_ids) or any(_mentions(f, atom_ids) for f in self._assumptions(groups))):
            # (an obligation that mentions no root atom -- neither itself nor through the fact groups it is decided under, which may
            # define abstraction variables in terms of atoms (C20) -- cannot be an artefact of the root abstraction)
            for level in (1, 2):
                ex = c.atom_defs(level)
                if level == 1 and not ex:
                    continue
                r, m2 = self._decide(phi, groups, extra=ex, timeout_ms=min(self.q_timeout_ms, 30000))
                if r == "unsat":
                    return "unsat", {"refined": level}
                if r == "sat":
                    model = m2
                    extra = ex
                else:
                    info["refine"] = f"unknown at level {level}"
                    break
        # nice (float-exact) model: integers in a small box, then quarter-integers
        ivars = self._input_vars()
        generic = ["generic", "generic-tiny-data", "generic-tiny-all"]
        candidates = []
        if info.get("refine"):
            # the refinement was undecided, so the model at hand may be an artefact of the root abstraction: try the cheap generic
            # inputs first (any input on which the real run fails the obligation is a genuine counterexample)
            candidates += generic
        for scale, bound in ((1, 3), (4, 12)):
            if not ivars or (sym.CTX.deadline and time.time() > sym.CTX.deadline - 20):
                break
            ks = [z3.Int(f"__k{i}") for i in range(len(ivars))]
            box = [v * scale == z3.ToReal(k) for v, k in zip(ivars, ks)] + [z3.And(k >= -bound, k <= bound) for k in ks]
            try:
                r, m3 = self._decide(phi, groups, extra=list(extra) + box, timeout_ms=5000)
            except sym.BudgetExceeded:
                break
            if r == "sat":
                candidates.append(m3)
                break
        candidates.append(model)
        if not info.get("refine"):
            candidates += generic
        for m in candidates:
            if self._nreplays >= 6 * self.max_replays:
                info["note"] = "replay budget exhausted"
                return "inconclusive", info
            self._nreplays += 1
            if isinstance(m, str):
                vals, exact = self._generic_inputs(m), None
            else:
                vals, exact = self._model_inputs(m)
            path = write_replay(self.pid, self.cfg_key, name, vals, exact)
            ok, out = run_replay(self.pid, path)
            if ok:
                info.update({"replay": path, "inputs": vals})
                self.confirmed[name] = path
                return "violated", info
            info.setdefault("spurious", []).append(out[-300:])
            try:
                os.remove(path)
            except OSError:
                pass
        return "inconclusive", info

    # ------------------------------------------------------------------ vacuity
    def vacuity(self, groups=()):
        """the assumptions used on this path must be satisfiable (a harness whose preconditions
        contradict each other would 'prove' everything)"""
        if not self.symbolic:
            return True
        c = sym.CTX
        saved = c.assume_defined
        c.assume_defined = False
        try:
            r0, _ = self._decide(z3.BoolVal(False), groups, timeout_ms=10000)
        finally:
            c.assume_defined = saved
        verdict = {"sat": "proved", "unsat": "vacuous", "unknown": "vacuity-unknown"}[r0]
        if r0 != "unsat" and saved and c.dens:
            r1, _ = self._decide(z3.BoolVal(False), groups, timeout_ms=10000)
            if r1 == "unsat":
                # the code divides by zero on this whole path: outside the claim, its obligations are void
                verdict = "undefined-path"
        rec = {"name": "__vacuity__", "path": list(c.decisions), "verdict": verdict, "seconds": 0.0}
        self.results.append(rec)
        return verdict == "proved"


def div_elim(fs):
    """Rewrite every quotient p/(q1*...*qk) with symbolic q's into p*inv_q1*...*inv_qk, adding qi*inv_qi == 1 for
    fresh inv_qi.  Equisatisfiable on the region where every divisor is non-zero (the side constraints exclude
    the rest), i.e. exactly under the definedness assumption the obligations are stated for; the result is
    division-free, so quotient identities become polynomial identities for nlsat."""
    cache = {}
    inv = {}
    side = []

    def split(u, facs):
        if z3.is_app(u) and u.decl().kind() == z3.Z3_OP_MUL:
            for ch in u.children():
                split(ch, facs)
        else:
            facs.append(u)

    def walk(t):
        k = t.get_id()
        if k in cache:
            return cache[k]
        r = t
        if z3.is_app(t) and t.num_args() > 0:
            ch = [walk(x) for x in t.children()]
            if t.decl().kind() == z3.Z3_OP_DIV and not z3.is_rational_value(ch[1]):
                facs = []
                split(ch[1], facs)
                r = ch[0]
                for f in facs:
                    if z3.is_rational_value(f):
                        r = r / f
                        continue
                    fid = f.get_id()
                    if fid not in inv:
                        v = z3.Real(f"inv!{len(inv)}")
                        inv[fid] = (v, f)
                        side.append(f * v == 1)
                    r = r * inv[fid][0]
            else:
                r = t.decl()(*ch)
        cache[k] = r
        return r

    return [walk(f) for f in fs] + side


def _mentions(term, ids):
    """does the z3 term contain a constant whose ast id is in ids?"""
    seen = set()
    stack = [term]
    while stack:
        t = stack.pop()
        i = t.get_id()
        if i in seen:
            continue
        seen.add(i)
        if i in ids:
            return True
        if z3.is_app(t):
            stack.extend(t.children())
    return False


# ---------------------------------------------------------------------- replay files
def write_replay(pid, cfg_key, obligation, vals, exact=None):
    d = os.path.join(REPLAY_DIR, pid)
    os.makedirs(d, exist_ok=True)
    body = {"property": pid, "config": cfg_key, "obligation": obligation, "inputs": vals, "exact": exact}
    h = hashlib.sha1(json.dumps(body, sort_keys=True).encode()).hexdigest()[:12]
    path = os.path.join(d, f"{h}.json")
    with open(path, "w") as f:
        json.dump(body, f, indent=1)
    return path


def run_replay(pid, path, timeout=120):
    """fresh interpreter, real NumPy backend, unmodified tree"""
    env = dict(os.environ)
    env["PYTHONDONTWRITEBYTECODE"] = "1"
    env["PYTHONWARNINGS"] = "ignore"
    try:
        p = subprocess.run([sys.executable, "-m", "vt.main", pid, "--replay", path], cwd=ROOT, env=env, capture_output=True, text=True, timeout=timeout)
    except subprocess.TimeoutExpired:
        return False, "replay timeout"
    out = p.stdout + p.stderr
    # line-anchored: "NOT-REPRODUCED property=" contains "REPRODUCED property=" as a substring
    ok = any(line.startswith("REPRODUCED property=") for line in p.stdout.splitlines())
    return ok, out
