"""SymBackend: the real NumpyBackend with value-inspecting functions overridden for
object arrays of SR/SB, and LAPACK / RNG environment stubs (DESIGN.md 1.1, 1.3)."""
import itertools
import math
from fractions import Fraction

import numpy as np
import z3

import tensorly as tl
from tensorly.backend.numpy_backend import NumpyBackend

from . import sym
from .sym import SR, SB, SArr, sarr, const, term, ite, smax, smin, mkb, bterm


# ----------------------------------------------------------------------------- stub policy
class StubPolicy:
    """per-harness choice of kernel models; reset by `configure`"""

    def __init__(self):
        self.reset()

    def reset(self):
        self.solve = "contract"  # exact | contract | havoc | callable
        self.lstsq = "contract"
        self.svd = "factor"  # havoc | factor | givens | callable
        self.qr = "factor"  # havoc | factor | givens
        self.eigh = "factor"
        self.tables = {"svd": [], "qr": [], "solve": [], "eigh": [], "lstsq": []}  # (arg array, outputs): input-from-output generation
        self.seed_streams = {}
        self.global_stream = None
        self.int_draw_limit = None  # bound on integer draws per stream: paths that need more are outside the stated bound (dropped)
        self.rng = None  # None: s_check_random_state below | callable(seed): e.g. the real Backend.check_random_state (C16)


POLICY = StubPolicy()


def configure(**kw):
    POLICY.reset()
    for k, v in kw.items():
        if not hasattr(POLICY, k):
            raise AttributeError(k)
        setattr(POLICY, k, v)


def _calls():
    return sym.CTX.stub_calls


def _same_array(a, b):
    a = np.asarray(a, dtype=object)
    b = np.asarray(b, dtype=object)
    if a.shape != b.shape:
        return False
    for x, y in zip(a.ravel(), b.ravel()):
        if not sym.CTX.identical(term(x), term(y)):
            return False
    return True


def _lookup(kind, args):
    for k, a, out in _calls():
        if k == kind and len(a) == len(args) and all(_same_array(x, y) for x, y in zip(a, args)):
            return out
    for a, out in POLICY.tables.get(kind, []):
        if len(a) == len(args) and all(_same_array(x, y) for x, y in zip(a, args)):
            return out
    return None


def _record(kind, args, out):
    _calls().append((kind, args, out))
    return out


def fresh_array(base, shape, nn=False):
    a = np.empty(shape, dtype=object)
    for idx in np.ndindex(*shape):
        v = sym.CTX.fresh(base)
        a[idx] = SR(v, nn=nn)
        if nn:
            sym.CTX.add_fact("def", v >= 0)
    return a.view(SArr)


def eq_facts(A, B):
    A = np.asarray(A, dtype=object)
    B = np.asarray(B, dtype=object)
    assert A.shape == B.shape, (A.shape, B.shape)
    return [term(x) == term(y) for x, y in zip(A.ravel(), B.ravel())]


# ----------------------------------------------------------------------------- Givens generation
def givens_frame(n, k, base="g", sign_fork=True):
    """n x k matrix with orthonormal columns, identically (rational half-angle Givens parametrisation).
    Not covered: frames that need an infinite half-angle parameter (rotation by pi)."""
    Q = np.empty((n, n), dtype=object)
    for i in range(n):
        for j in range(n):
            Q[i, j] = const(1 if i == j else 0)
    # rotations acting on the left, enough to reach every frame: for column c, rotate rows (c, r), r>c
    for c in range(min(k, n - 1)):
        for r in range(c + 1, n):
            t = SR(sym.CTX.fresh(base + "_t"))
            den = 1 + t * t
            cs = (1 - t * t) / den
            sn = (2 * t) / den
            sym.CTX.dens.pop()  # 1+t^2 is never zero: not a definedness obligation
            sym.CTX.dens.pop()
            G = np.empty((n, n), dtype=object)
            for i in range(n):
                for j in range(n):
                    G[i, j] = const(1 if i == j else 0)
            G[c, c] = cs
            G[r, r] = cs
            G[c, r] = -sn
            G[r, c] = sn
            Q = np.dot(G, Q)
    Q = Q.T  # columns
    out = Q[:, :k].copy()
    if k == n and sign_fork:
        s = sym.CTX.unit_var(f"{base}_sgn")  # reflection: symbolic sign, s*s == 1
        out[:, k - 1] = out[:, k - 1] * s
    return out.view(SArr)


def sorted_nonneg(base, r):
    """fresh S_0 >= S_1 >= ... >= 0"""
    S = fresh_array(base, (r,), nn=True)
    for i in range(r - 1):
        sym.CTX.add_fact("def", term(S[i]) >= term(S[i + 1]))
    return S


# ----------------------------------------------------------------------------- LAPACK stubs
def s_solve(A, B):
    A = sarr(A)
    B = sarr(B)
    if A.shape[0] == 0:  # empty system (np.linalg.solve returns an empty array)
        return np.empty(B.shape, dtype=object).view(SArr)
    hit = _lookup("solve", (A, B))
    if hit is not None:
        return hit.copy()
    mode = POLICY.solve
    if callable(mode):
        return _record("solve", (A, B), sarr(mode(A, B)))
    n = A.shape[0]
    if mode == "exact":
        X = _cramer(A, B)
    else:
        X = fresh_array("solve", B.shape)
        if mode == "contract":
            for f in eq_facts(np.dot(A, X), B):
                sym.CTX.add_fact("solve", f)
    return _record("solve", (A, B), X).copy()


def _det(A):
    n = A.shape[0]
    if n == 1:
        return A[0, 0]
    if n == 2:
        return A[0, 0] * A[1, 1] - A[0, 1] * A[1, 0]
    tot = const(0)
    for j in range(n):
        minor = np.delete(np.delete(A, 0, axis=0), j, axis=1)
        tot = tot + ((-1) ** j) * A[0, j] * _det(minor)
    return tot


def _cramer(A, B):
    n = A.shape[0]
    d = _det(A)
    if isinstance(d, SR) and d.c is None:
        sym.CTX.add_fact("pre", d.t != 0)  # well-conditioned == nonsingular
    Bm = B.reshape(n, -1)
    X = np.empty(Bm.shape, dtype=object)
    for j in range(Bm.shape[1]):
        for i in range(n):
            Ai = A.copy()
            Ai[:, i] = Bm[:, j]
            X[i, j] = _det(Ai) / d
            if isinstance(d, SR) and d.c is None:
                sym.CTX.dens.pop()
    return X.reshape(B.shape).view(SArr)


def s_lstsq(A, B, rcond=None):
    A = sarr(A)
    B = sarr(B)
    hit = _lookup("lstsq", (A, B))
    if hit is None:
        mode = POLICY.lstsq
        if callable(mode):
            X = sarr(mode(A, B))
        else:
            shape = (A.shape[1],) + B.shape[1:]
            X = fresh_array("lstsq", shape)
            if mode == "contract":
                for f in eq_facts(np.dot(A.T, np.dot(A, X)), np.dot(A.T, B)):
                    sym.CTX.add_fact("lstsq", f)
        hit = _record("lstsq", (A, B), X)
    X = hit.copy()
    res = fresh_array("lstsq_res", (0,))
    return X, res, min(A.shape), fresh_array("lstsq_sv", (min(A.shape),), nn=True)


def s_svd(M, full_matrices=True, **kw):
    M = sarr(M)
    m, n = M.shape
    key = ("svd", bool(full_matrices))
    hit = _lookup(key, (M,))
    if hit is None:
        hit = _lookup("svd", (M,))  # table entries (thin form) provided by the harness
        if hit is not None and full_matrices and (hit[0].shape[1] != m or hit[2].shape[0] != n):
            hit = None
    if hit is not None:
        return tuple(h.copy() for h in hit)
    mode = POLICY.svd
    r = min(m, n)
    if callable(mode):
        out = mode(M, full_matrices)
    else:
        ku = m if full_matrices else r
        kv = n if full_matrices else r
        S = sorted_nonneg("svdS", r)
        if mode == "givens":
            U = givens_frame(m, ku, "svdU")
            V = givens_frame(n, kv, "svdV").T
        else:
            U = fresh_array("svdU", (m, ku))
            V = fresh_array("svdV", (kv, n))
        if mode in ("factor", "givens"):
            rec = np.dot(U[:, :r] * S.reshape(1, -1), V[:r, :])
            for f in eq_facts(rec, M):
                sym.CTX.add_fact("svd_factor", f)
        if mode == "factor":
            for f in eq_facts(np.dot(U.T, U), np.eye(ku, dtype=object)):
                sym.CTX.add_fact("svd_orth", f)
            for f in eq_facts(np.dot(V, V.T), np.eye(kv, dtype=object)):
                sym.CTX.add_fact("svd_orth", f)
        out = (U, S, V.view(SArr))
    _record(key, (M,), out)
    return tuple(o.copy() for o in out)


def s_qr(A, mode="reduced"):
    A = sarr(A)
    hit = _lookup("qr", (A,))
    if hit is not None:
        return tuple(h.copy() for h in hit)
    m, n = A.shape
    k = min(m, n)
    pol = POLICY.qr
    if callable(pol):
        out = pol(A)
    else:
        if pol == "givens":
            Q = givens_frame(m, k, "qrQ")
        else:
            Q = fresh_array("qrQ", (m, k))
        R = np.zeros((k, n), dtype=object)
        for i in range(k):
            for j in range(i, n):
                R[i, j] = SR(sym.CTX.fresh("qrR"))
        R = R.view(SArr)
        if pol in ("factor", "givens"):
            for f in eq_facts(np.dot(Q, R), A):
                sym.CTX.add_fact("qr_factor", f)
        if pol == "factor":
            for f in eq_facts(np.dot(Q.T, Q), np.eye(k, dtype=object)):
                sym.CTX.add_fact("qr_orth", f)
        out = (Q, R)
    _record("qr", (A,), out)
    return tuple(o.copy() for o in out)


def s_eigh(A):
    A = sarr(A)
    hit = _lookup("eigh", (A,))
    if hit is not None:
        return tuple(h.copy() for h in hit)
    n = A.shape[0]
    pol = POLICY.eigh
    if callable(pol):
        out = pol(A)
    else:
        L = fresh_array("eighL", (n,))
        for i in range(n - 1):
            sym.CTX.add_fact("def", term(L[i]) <= term(L[i + 1]))
        if pol == "givens":
            Q = givens_frame(n, n, "eighQ")
        else:
            Q = fresh_array("eighQ", (n, n))
        if pol in ("factor", "givens"):
            for f in eq_facts(np.dot(Q * L.reshape(1, -1), Q.T), A):
                sym.CTX.add_fact("eigh_factor", f)
        if pol == "factor":
            for f in eq_facts(np.dot(Q.T, Q), np.eye(n, dtype=object)):
                sym.CTX.add_fact("eigh_orth", f)
        out = (L, Q)
    _record("eigh", (A,), out)
    return tuple(o.copy() for o in out)


# ----------------------------------------------------------------------------- RNG stub
_RND = z3.Function("rnd", z3.IntSort(), z3.IntSort(), z3.IntSort(), z3.RealSort())
# one uninterpreted function per distribution kind: RandomState(s).randint(...) and RandomState(s).random_sample(...)
# are different functions of the same seed/draw index (two streams created from one int seed must not be
# forced equal across kinds: an integer draw constrained to {0..n-1} and a uniform draw in [0,1) would clash)
_RND_KIND = {"u": _RND}


def _rnd_fun(kind):
    f = _RND_KIND.get(kind)
    if f is None:
        f = _RND_KIND[kind] = z3.Function("rnd_" + kind, z3.IntSort(), z3.IntSort(), z3.IntSort(), z3.RealSort())
    return f


_REAL_RANDOMSTATE = np.random.RandomState  # C16 rebinds np.random.RandomState to a stream class while a harness runs


class SymRandomState(_REAL_RANDOMSTATE):
    """Random stream model.  seed=None: the *global* stream (every draw is a fresh, unconstrained
    variable; a draw counter is kept).  Otherwise: draw k at position p is the uninterpreted term
    rnd(seed, k, p) -- equal seeds and equal draw orders give equal terms, nothing else is known."""

    def __new__(cls, seed=None, label="seeded"):
        o = _REAL_RANDOMSTATE.__new__(cls)
        return o

    def __init__(self, seed=None, label="seeded"):
        self._vt_seed = seed
        self._vt_k = 0
        self._vt_label = label
        self._vt_log = []

    def _draw(self, shape, lo=None, hi=None, kind="u"):
        if shape is None:
            shape = ()
        if isinstance(shape, (int, np.integer)):
            shape = (int(shape),)
        shape = tuple(int(s) for s in shape)
        k = self._vt_k
        self._vt_k += 1
        self._vt_log.append((kind, shape))
        out = np.empty(shape, dtype=object)
        for p, idx in enumerate(np.ndindex(*shape)):
            if self._vt_seed is None:
                v = sym.CTX.fresh("grnd")
            else:
                v = _rnd_fun(kind)(z3.IntVal(int(self._vt_seed)), z3.IntVal(k), z3.IntVal(p))
                # registered like a variable so that Ctx.identical can refute by random evaluation (z3.substitute accepts applications)
                sym.CTX.vars.setdefault(f"rnd_{kind}({int(self._vt_seed)},{k},{p})", v)
            if lo is not None:
                sym.CTX.add_fact("def", v >= lo)
            if hi is not None:
                sym.CTX.add_fact("def", v < hi)
            out[idx] = SR(v, nn=(lo is not None and lo >= 0))
        if shape == ():
            return out[()]
        return out.view(SArr)

    def random_sample(self, size=None):
        return self._draw(size, 0, 1)

    random = random_sample
    sample = random_sample

    def rand(self, *shape):
        return self._draw(shape, 0, 1)

    def randn(self, *shape):
        return self._draw(shape, kind="n")

    def standard_normal(self, size=None):
        return self._draw(size, kind="n")

    def normal(self, loc=0.0, scale=1.0, size=None):
        return loc + scale * self._draw(size, kind="n")

    def uniform(self, low=0.0, high=1.0, size=None):
        return low + (high - low) * self._draw(size, 0, 1)

    def gamma(self, shape, scale=1.0, size=None):
        return self._draw(size, 0, None, kind="g") * scale

    def _int_draw(self, low, high, size):
        """integer draws fork over their finite range"""
        self._vt_nint = getattr(self, "_vt_nint", 0) + 1
        if POLICY.int_draw_limit is not None and self._vt_nint > POLICY.int_draw_limit:
            sym.CTX._trip(sym.Abort())  # rejection-sampling loops (redraw on collision) are explored up to the stated number of draws
        raw = self._draw(size, kind="i")
        scalar = not isinstance(raw, np.ndarray)
        arr = np.asarray(raw, dtype=object).reshape(-1)
        out = np.empty(arr.shape, dtype=int)
        for i, e in enumerate(arr):
            sym.CTX.add_fact("def", z3.Or([e.t == v for v in range(low, high)]))
            val = None
            for v in range(low, high - 1):
                if sym.CTX.branch(e.t == v):
                    val = v
                    break
            out[i] = high - 1 if val is None else val
        if scalar:
            return int(out[0])
        return out.reshape(np.shape(raw))

    def randint(self, low, high=None, size=None, dtype=int):
        if high is None:
            low, high = 0, low
        if np.ndim(low) or np.ndim(high):  # array-valued bounds: one draw per element (NumPy broadcasting, size=None only)
            if size is not None:
                raise NotImplementedError("randint with array bounds and size is not modelled")
            lo_b, hi_b = np.broadcast_arrays(np.asarray(low, dtype=int), np.asarray(high, dtype=int))
            out = np.array([self._int_draw(int(l), int(h), None) for l, h in zip(lo_b.ravel(), hi_b.ravel())], dtype=int)
            return out.reshape(lo_b.shape)
        return self._int_draw(int(low), int(high), size)

    def choice(self, a, size=None, replace=True, p=None):
        if isinstance(a, (int, np.integer)):
            n = int(a)
            pool = None
        else:
            pool = np.asarray(a)
            n = len(pool)
        if not replace:
            raise NotImplementedError("choice without replacement is not modelled")
        idx = self._int_draw(0, n, size)
        return idx if pool is None else pool[idx]

    def permutation(self, x):
        raise NotImplementedError("permutation is not modelled")

    def seed(self, *a, **k):
        self._vt_log.append(("seed", a))

    def get_state(self, *a, **k):
        return ("vt", self._vt_seed, self._vt_k)

    def set_state(self, *a, **k):
        self._vt_log.append(("set_state", None))


def global_stream():
    c = sym.CTX
    if c.grng is None:
        c.grng = SymRandomState(None, label="global")
    return c.grng


def s_check_random_state(seed):
    if callable(POLICY.rng):
        return POLICY.rng(seed)
    if seed is None:
        return global_stream()
    if isinstance(seed, SymRandomState):
        return seed
    if isinstance(seed, (int, np.integer)):
        return SymRandomState(int(seed))
    if isinstance(seed, np.random.RandomState):
        raise TypeError("concrete RandomState inside a symbolic run")
    raise ValueError("Seed should be None, int or np.random.RandomState")


# ----------------------------------------------------------------------------- value-inspecting overrides
def _elementwise(f, x):
    if isinstance(x, np.ndarray):
        if x.ndim == 0:
            return f(x[()])
        out = np.empty(x.shape, dtype=object)
        flat = out.reshape(-1)
        for i, e in enumerate(x.reshape(-1)):
            flat[i] = f(e)
        return out.view(SArr)
    if isinstance(x, (list, tuple)):
        return _elementwise(f, np.array(x, dtype=object))
    return f(x)


def s_tensor(data, dtype=None, **kw):
    if isinstance(data, np.ndarray) and data.dtype == bool:
        return data
    if dtype is not None and dtype is not object:
        try:
            if np.issubdtype(np.dtype(dtype), np.integer):
                return np.array(data, dtype=dtype)
        except TypeError:
            pass
    return np.array(data, dtype=object).view(SArr)


def s_zeros(shape, dtype=None, **kw):
    return np.zeros(shape, dtype=object).view(SArr)


def s_ones(shape, dtype=None, **kw):
    return np.ones(shape, dtype=object).view(SArr)


def s_eye(N, M=None, dtype=None, **kw):
    return np.eye(N, M, dtype=object).view(SArr)


def s_zeros_like(t, **kw):
    return np.zeros(np.shape(t), dtype=object).view(SArr)


def _bool_terms(t):
    return [bterm(e) for e in np.asarray(t, dtype=object).ravel()]


def s_all(t, axis=None, **kw):
    a = np.asarray(t)
    if a.dtype == object and axis is None:
        r = mkb(z3.And(_bool_terms(a)))
        return bool(r)
    return np.all(a, axis=axis, **kw)


def s_any(t, axis=None, keepdims=False, **kw):
    a = np.asarray(t)
    if a.dtype == object and axis is None:
        r = mkb(z3.Or(_bool_terms(a)))
        return bool(r)
    return np.any(a, axis=axis, keepdims=keepdims, **kw)


def _sqrt1(e):
    if isinstance(e, (float, np.floating)) and not math.isfinite(e):
        # IEEE: sqrt(+inf) = +inf, sqrt(nan) = nan (SR arithmetic with a float inf operand yields float inf, e.g. the
        # `ones * inf` convergence seed of CP_PLSR.fit); previously SR.lift raised OverflowError here
        return float(e) if e > 0 or e != e else float("nan")
    e = SR.lift(e)
    return e.sqrt()


def s_sqrt(x):
    return _elementwise(_sqrt1, x)


def s_abs(x):
    return _elementwise(lambda e: abs(e) if not isinstance(e, SB) else e.as_real(), x)


def _sign1(e):
    if not isinstance(e, SR):
        return int(np.sign(e)) if not isinstance(e, SB) else e.as_real()
    if e.c is not None:
        return const((e.c > 0) - (e.c < 0))
    if sym.CTX.mode == "fork":
        if bool(e > 0):
            return const(1)
        if bool(e < 0):
            return const(-1)
        return const(0)
    return SR(z3.If(e.t > 0, z3.RealVal(1), z3.If(e.t < 0, z3.RealVal(-1), z3.RealVal(0))))


def s_sign(x):
    return _elementwise(_sign1, x)


def s_where(cond, x=None, y=None):
    if x is None:
        c = np.asarray(cond)
        if c.dtype == object:
            c = np.array([bool(e) for e in c.ravel()], dtype=bool).reshape(c.shape)
        return np.where(c)
    c, xx, yy = np.broadcast_arrays(np.asarray(cond, dtype=object), np.asarray(x, dtype=object), np.asarray(y, dtype=object))
    out = np.empty(c.shape, dtype=object)
    for idx in np.ndindex(*c.shape):
        out[idx] = ite(c[idx], xx[idx], yy[idx])
    if out.ndim == 0:
        return out[()]
    return out.view(SArr)


def s_clip(t, a_min=None, a_max=None):
    t = sarr(t)
    out = t
    if a_min is not None:
        am = np.broadcast_to(np.asarray(a_min, dtype=object), t.shape)
        o2 = np.empty(t.shape, dtype=object)
        for idx in np.ndindex(*t.shape):
            o2[idx] = smax(out[idx], am[idx])
        out = o2
    if a_max is not None:
        am = np.broadcast_to(np.asarray(a_max, dtype=object), t.shape)
        o2 = np.empty(t.shape, dtype=object)
        for idx in np.ndindex(*t.shape):
            o2[idx] = smin(out[idx], am[idx])
        out = o2
    if out.ndim == 0:
        return out[()]
    return out.view(SArr)


def _reduce(f, t, axis):
    t = sarr(t)
    if axis is None:
        r = None
        for e in t.ravel():
            r = e if r is None else f(r, e)
        return r
    t2 = np.moveaxis(t, axis, 0)
    out = np.empty(t2.shape[1:], dtype=object)
    for idx in np.ndindex(*t2.shape[1:]):
        r = None
        for k in range(t2.shape[0]):
            e = t2[(k,) + idx]
            r = e if r is None else f(r, e)
        out[idx] = r
    if out.ndim == 0:
        return out[()]
    return out.view(SArr)


def s_max(t, axis=None):
    return _reduce(smax, t, axis)


def s_min(t, axis=None):
    return _reduce(smin, t, axis)


def s_maximum(a, b, *args, **kw):
    a, b = np.broadcast_arrays(np.asarray(a, dtype=object), np.asarray(b, dtype=object))
    out = np.empty(a.shape, dtype=object)
    for idx in np.ndindex(*a.shape):
        out[idx] = smax(a[idx], b[idx])
    return out[()] if out.ndim == 0 else out.view(SArr)


def s_minimum(a, b, *args, **kw):
    a, b = np.broadcast_arrays(np.asarray(a, dtype=object), np.asarray(b, dtype=object))
    out = np.empty(a.shape, dtype=object)
    for idx in np.ndindex(*a.shape):
        out[idx] = smin(a[idx], b[idx])
    return out[()] if out.ndim == 0 else out.view(SArr)


def s_mean(t, axis=None, **kw):
    t = sarr(t)
    n = t.size if axis is None else t.shape[axis]
    s = np.sum(t, axis=axis)
    return s / n


def s_sum(t, axis=None, keepdims=False, **kw):
    a = np.asarray(t)
    if a.dtype == bool or a.dtype != object:
        return np.sum(a, axis=axis, keepdims=keepdims)
    if a.size == 0:
        return np.sum(a.astype(float), axis=axis, keepdims=keepdims)
    lifted = _elementwise(lambda e: e.as_real() if isinstance(e, SB) else e, a)
    r = np.sum(np.asarray(lifted), axis=axis, keepdims=keepdims)
    return r.view(SArr) if isinstance(r, np.ndarray) else r


def s_count_nonzero(t, axis=None):
    a = np.asarray(t, dtype=object)
    nz = _elementwise(lambda e: (e != 0) if isinstance(e, SR) else (e if isinstance(e, SB) else bool(e != 0)), a)
    return s_sum(nz, axis=axis)


def s_eps(dtype=None):
    return Fraction(1, 2**52)


class _Finfo:
    eps = Fraction(1, 2**52)
    tiny = Fraction(1, 2**1022)
    max = Fraction(2**1023)
    min = -Fraction(2**1023)


def s_finfo(dtype=None):
    return _Finfo()


def s_context(t):
    return {"dtype": object}


def s_index_update(tensor, indices, values):
    if isinstance(indices, np.ndarray) and indices.dtype == object:
        # boolean mask of symbolic conditions: merge
        vals = np.broadcast_to(np.asarray(values, dtype=object), tensor.shape) if np.ndim(values) == 0 or np.shape(values) == tensor.shape else None
        if vals is None:
            raise NotImplementedError("masked index_update with compressed values")
        for idx in np.ndindex(*tensor.shape):
            tensor[idx] = ite(indices[idx], vals[idx], tensor[idx])
        return tensor
    tensor[indices] = values
    return tensor


def _wrap(f):
    def g(*a, **k):
        r = f(*a, **k)
        if isinstance(r, np.ndarray) and r.dtype == object and not isinstance(r, SArr):
            return r.view(SArr)
        return r

    g.__name__ = getattr(f, "__name__", "wrapped")
    return g


class SymBackend(NumpyBackend, backend_name="numpy"):
    pass


# NumpyBackend subclass creation re-registered 'numpy' in Backend._available_backends: restore the real class
from tensorly.backend.core import Backend as _Backend

_Backend._available_backends["numpy"] = NumpyBackend

for _n in ["reshape", "moveaxis", "transpose", "copy", "concatenate", "stack", "dot", "matmul", "tensordot", "einsum", "kron", "flip", "cumsum", "diag", "prod", "conj", "trace", "arange"]:
    SymBackend.register_method(_n, _wrap(getattr(np, _n)))

for _n, _f in dict(
    tensor=s_tensor,
    zeros=s_zeros,
    ones=s_ones,
    eye=s_eye,
    zeros_like=s_zeros_like,
    all=s_all,
    any=s_any,
    sqrt=s_sqrt,
    abs=s_abs,
    sign=s_sign,
    where=s_where,
    clip=s_clip,
    max=s_max,
    min=s_min,
    maximum=s_maximum,
    minimum=s_minimum,
    mean=s_mean,
    sum=s_sum,
    count_nonzero=s_count_nonzero,
    context=s_context,
    index_update=s_index_update,
    solve=s_solve,
    lstsq=s_lstsq,
    svd=s_svd,
    qr=s_qr,
    eigh=s_eigh,
    check_random_state=s_check_random_state,
).items():
    SymBackend.register_method(_n, _f)


def _eps(self, dtype=None):
    return Fraction(1, 2**52)


SymBackend.eps = _eps
SymBackend.finfo = lambda self, dtype=None: _Finfo()

_SYM = None
_PATCHES = []


def install():
    """switch tensorly (this process) to the symbolic backend and rebind by-name imports of C kernels"""
    global _SYM
    if _SYM is None:
        _SYM = SymBackend()
    tl.set_backend(_SYM)
    import tensorly.decomposition._tucker as _tk
    import tensorly.solvers.nnls as _nn

    def _msqrt(x):
        if isinstance(x, (SR, SB)):
            return _sqrt1(x)
        return math.sqrt(x)

    for mod in (_tk, _nn):
        if hasattr(mod, "sqrt"):
            _PATCHES.append((mod, "sqrt", mod.sqrt))
            mod.sqrt = _msqrt


def patch(mod, name, value):
    _PATCHES.append((mod, name, getattr(mod, name)))
    setattr(mod, name, value)


def uninstall():
    while _PATCHES:
        mod, name, old = _PATCHES.pop()
        setattr(mod, name, old)
    tl.set_backend("numpy")
    import tensorly.tenalg as tg

    try:
        tg.set_backend("core")
    except Exception:
        pass
