"""vt.state -- engine E3 "symstate": one-step inductive checks of a stateful, thread-aware API.

The code under verification is executed *for real* (real objects, real `threading.Thread`s, real
`threading.local`) from an injected, arbitrary pre-state whose *identities* are symbolic: every value that
the state can hold is a "token" -- a real object that carries a role name; roles are constants of an
uninterpreted z3 sort `Bk`.  After one operation ran, the observations read back from every thread are
labels (role names); the specification yields, for every observation, an expected label expression.
The solver is asked

    exists interpretation of the role constants, consistent with the scenario's alias partition
    (aliased roles equal, different blocks pairwise distinct, all distinct from `foreign`),
    such that  OR_i  observed_i != expected_i

`unsat` = the step conforms for every interpretation.  The same scenario code also runs in *concrete*
mode (replay): roles are mapped onto real registered objects and equalities are evaluated directly.

Pieces (property independent):
  Worker / Threads      real worker threads that execute closures (state is injected and observed in-thread)
  Ids                   roles, alias partition, presence flags; label expressions -> z3 / concrete
  Checker               collects obligations of one scenario and decides them (z3 or concrete)
  ConfigRun             aggregates scenarios of one configuration into driver records, plans and runs replays
"""
import json
import os
import queue
import re
import threading
import time

FOREIGN = "<foreign>"
DEFAULT_SIDE = "<default-side>"  # pseudo label for replay planning: always mapped to the first (default) real object


class HarnessError(Exception):
    """the harness itself (state injection, thread plumbing) failed -- never a verdict"""


# ----------------------------------------------------------------------------------------------- threads
class Worker(threading.Thread):
    def __init__(self, name):
        super().__init__(daemon=True, name=name)
        self.q = queue.Queue()
        self.r = queue.Queue()
        self.start()

    def run(self):
        while True:
            f = self.q.get()
            if f is None:
                return
            try:
                self.r.put(("ok", f()))
            except BaseException as e:  # noqa: the exception is a *result* of the operation
                self.r.put(("exc", e))

    def call(self, f, timeout=60):
        self.q.put(f)
        try:
            return self.r.get(timeout=timeout)
        except queue.Empty:
            raise HarnessError(f"worker {self.name} did not answer within {timeout}s")

    def stop(self):
        self.q.put(None)


class Threads:
    """n real threads; `run(t, f)` executes f inside thread t (directly when already inside it, so that the
    acting thread can drive the others from within a `with` body)."""

    def __init__(self, n, prefix="vt-state"):
        self.workers = [Worker(f"{prefix}-{i}") for i in range(n)]

    def run(self, t, f):
        w = self.workers[t]
        if threading.current_thread() is w:
            try:
                return ("ok", f())
            except BaseException as e:  # noqa
                return ("exc", e)
        return w.call(f)

    def must_all(self, f, timeout=60):
        """run the (read-only) closure f in every thread concurrently; -> list of results in thread order"""
        cur = threading.current_thread()
        for w in self.workers:
            if w is not cur:
                w.q.put(f)
        out = []
        for t, w in enumerate(self.workers):
            if w is cur:
                st, v = self.run(t, f)
            else:
                try:
                    st, v = w.r.get(timeout=timeout)
                except queue.Empty:
                    raise HarnessError(f"worker {w.name} did not answer within {timeout}s")
            if st != "ok":
                raise HarnessError(f"harness action failed in thread {t}: {type(v).__name__}: {v}")
            out.append(v)
        return out

    def must(self, t, f):
        st, v = self.run(t, f)
        if st != "ok":
            raise HarnessError(f"harness action failed in thread {t}: {type(v).__name__}: {v}")
        return v

    def stop(self):
        for w in self.workers:
            w.stop()
        for w in self.workers:
            w.join(timeout=5)


# ----------------------------------------------------------------------------------------------- identities
class Ids:
    """Roles with an alias partition.  A label expression is a role name (str), FOREIGN, or
    ("ite", flag_name, expr_then, expr_else) over the presence flags; an *expected* expression may also be
    ("oneof", e1, e2, ...) = any of several admissible values."""

    def __init__(self, alias, flags=None, assign=None, default=None):
        self.alias = dict(alias)  # role -> representative role (identity when missing)
        self.flags = dict(flags or {})
        self.assign = assign  # concrete mode: representative -> real name
        self.default = default

    def rep(self, role):
        seen = set()
        while role in self.alias and self.alias[role] != role and role not in seen:
            seen.add(role)
            role = self.alias[role]
        return role

    # -- concrete
    def concrete(self, expr):
        if isinstance(expr, (tuple, list)) and expr and expr[0] == "ite":
            return self.concrete(expr[2] if self.flags[expr[1]] else expr[3])
        if isinstance(expr, (tuple, list)) and expr and expr[0] == "real":  # an observation made on real objects
            return expr[1]
        if expr == FOREIGN or str(expr).startswith(FOREIGN):
            return FOREIGN
        if self.assign is None:
            return self.rep(expr)
        return self.assign.get(self.rep(expr), self.default)

    # -- symbolic: the scenario formula is emitted as SMT-LIB 2 text (one parse per scenario instead of hundreds of API calls)
    @staticmethod
    def _sym(label):
        return "|" + (FOREIGN if str(label).startswith(FOREIGN) else str(label)).replace("|", "!").replace("\\", "!") + "|"

    def smt(self, expr, roles, flags):
        """label expression -> SMT-LIB term; collects the roles / flags it mentions"""
        if isinstance(expr, (tuple, list)) and expr and expr[0] == "ite":
            flags.add(str(expr[1]))
            return f"(ite |has_{expr[1]}| {self.smt(expr[2], roles, flags)} {self.smt(expr[3], roles, flags)})"
        name = FOREIGN if str(expr).startswith(FOREIGN) else str(expr)
        roles.add(name)
        return self._sym(name)

    def alternatives(self, expr):
        """concrete values an expected-label expression admits: ("oneof", e1, e2, ...) admits several"""
        if isinstance(expr, (tuple, list)) and expr and expr[0] == "oneof":
            return [self.concrete(x) for x in expr[1:]]
        return [self.concrete(expr)]

    def smt_differs(self, o, e, roles, flags):
        so = self.smt(o, roles, flags)
        alts = e[1:] if isinstance(e, (tuple, list)) and e and e[0] == "oneof" else [e]
        return "(not (or false " + " ".join(f"(= {so} {self.smt(x, roles, flags)})" for x in alts) + "))"

    def prelude(self, roles, flags):
        """declarations + alias partition: aliased roles equal, block representatives and `foreign` pairwise distinct"""
        roles = set(roles) | {FOREIGN}
        for r in list(roles):
            roles.add(self.rep(r))
        roles = sorted(roles)
        lines = ["(declare-sort Bk 0)"] + [f"(declare-const {self._sym(r)} Bk)" for r in roles]
        lines += [f"(declare-const |has_{f}| Bool)" for f in sorted(flags)]
        asserts = []
        reps = []
        for r in roles:
            p = self.rep(r)
            if p != r:
                asserts.append(f"(assert (= {self._sym(r)} {self._sym(p)}))")
            if p not in reps:
                reps.append(p)
        if len(reps) > 1:
            asserts.append("(assert (distinct " + " ".join(self._sym(p) for p in reps) + "))")
        for f in sorted(flags):
            asserts.append(f"(assert (= |has_{f}| {'true' if self.flags[f] else 'false'}))")
        return lines, asserts


# ----------------------------------------------------------------------------------------------- obligations
_SOLVER = []


def _solver(timeout_ms):
    """one z3 solver per process; every scenario lives in its own push/pop scope"""
    if not _SOLVER:
        import z3

        _SOLVER.append(z3.Solver())
    _SOLVER[0].set("timeout", timeout_ms)
    return _SOLVER[0]


class Checker:
    """Obligations of ONE scenario.  `eq(name, pairs)`: pairs of (observed label, expected label expr, where);
    `fact(name, ok, detail)`: a concrete control-flow fact (exception raised / not raised)."""

    def __init__(self, ids, symbolic=True, timeout_ms=10000):
        self.ids = ids
        self.symbolic = symbolic
        self.timeout_ms = timeout_ms
        self.results = []  # dicts: name, verdict, detail, pair
        self.stats = {"unsat": 0, "sat": 0, "unknown": 0, "concrete_facts": 0}
        self.solver_s = 0.0
        self.pending = []

    def fact(self, name, ok, detail=""):
        self.stats["concrete_facts"] += 1
        self.results.append({"name": name, "verdict": "proved" if ok else "violated", "detail": "" if ok else str(detail)[:300], "pair": None, "seconds": 0.0})

    def eq(self, name, pairs):
        pairs = [p for p in pairs]
        if not pairs:
            return
        ids = self.ids
        if not self.symbolic:
            bad = [(o, e, w) for (o, e, w) in pairs if ids.concrete(o) not in ids.alternatives(e)]
            self.results.append({"name": name, "verdict": "violated" if bad else "proved", "pair": None, "seconds": 0.0,
                                 "detail": "; ".join(f"{w}: observed {o if str(o).startswith(FOREIGN) else ids.concrete(o)} expected {' or '.join(map(str, ids.alternatives(e)))}" for o, e, w in bad[:4])})
            return
        # symbolic: decided in finish() -- one solver per scenario, the alias/distinctness constraints are asserted once
        # (after every role of the scenario is known), each obligation is one push / check / pop
        slot = {"name": name, "verdict": None, "detail": "", "pair": None, "seconds": 0.0}
        self.results.append(slot)
        self.pending.append((slot, pairs))

    def finish(self):
        try:
            return self._finish()
        except BaseException:
            _SOLVER.clear()  # never reuse a solver whose scopes may be unbalanced
            raise

    def _finish(self):
        """decide the pending equalities of the scenario: ONE solver holding the alias/distinctness constraints;
        first a single query for the disjunction of all obligations (unsat => every obligation holds for every
        interpretation); only when that is sat, one push/check/pop per obligation to localise the failure."""
        if not self.pending:
            return self
        import z3

        ids = self.ids
        t0 = time.time()
        work, self.pending = self.pending, []
        roles, flags = set(), set()
        obl = []
        for slot, pairs in work:
            ds = [ids.smt_differs(o, e, roles, flags) for (o, e, w) in pairs]
            obl.append("(assert (or false " + " ".join(ds) + "))")
        decls, asserts = ids.prelude(roles, flags)
        con = "(assert (and true " + " ".join(a[len("(assert "):-1] for a in asserts) + "))"
        vec = z3.parse_smt2_string("\n".join(decls + [con] + obl))
        s = _solver(self.timeout_ms)
        s.push()  # scenario scope: alias partition, distinctness, presence flags
        s.add(vec[0])
        forms = [vec[1 + i] for i in range(len(work))]
        s.push()
        s.add(z3.Or(forms))
        r_all = str(s.check())
        s.pop()
        self.stats[r_all] = self.stats.get(r_all, 0) + 1
        dt_all = time.time() - t0
        self.solver_s += dt_all
        if r_all == "unsat":
            s.pop()
            for slot, pairs in work:
                slot["verdict"] = "proved"
                slot["seconds"] = round(dt_all / len(work), 6)
            return self
        for (slot, pairs), form in zip(work, forms):
            t0 = time.time()
            s.push()
            s.add(form)
            r = str(s.check())
            s.pop()
            dt = time.time() - t0
            self.solver_s += dt
            self.stats[r] = self.stats.get(r, 0) + 1
            slot["seconds"] = round(dt, 6)
            if r == "unsat":
                slot["verdict"] = "proved"
                continue
            if r != "sat":
                slot["verdict"] = "inconclusive"
                slot["detail"] = "solver: " + r
                continue
            # every model separates exactly the block representatives (Distinct), so the failing disjuncts are those
            # whose two sides fall into different blocks
            bad = [(o, e, w) for (o, e, w) in pairs if ids.concrete(o) not in ids.alternatives(e)]
            o, e, w = bad[0]
            pair = [(ids.concrete(o), x) for x in ids.alternatives(e)]  # representatives that a replay has to keep apart
            if any(x == FOREIGN for _, x in pair):
                pair = None
            else:
                # an observation that is no backend of the scenario at all (e.g. a call that ran on a statically bound
                # backend): the replay puts the expected backend on the non-default real object
                pair = [(DEFAULT_SIDE if a == FOREIGN else a, x) for a, x in pair]
            slot["verdict"] = "violated"
            slot["pair"] = pair
            slot["detail"] = "; ".join(f"{w}: observed {o if str(o).startswith(FOREIGN) else ids.concrete(o)} expected {' or '.join(map(str, ids.alternatives(e)))}" for o, e, w in bad[:4])
        s.pop()
        return self

    def failed(self):
        self.finish()
        out = []
        for r in self.results:
            if r["verdict"] == "violated" and r["name"] not in out:
                out.append(r["name"])
        return out


# ----------------------------------------------------------------------------------------------- aggregation
def two_colour(pairs):
    """assign 0/1 to labels so that every pair is separated; None if impossible (odd cycle / identical)"""
    colour = {}
    adj = {}
    for a, b in pairs:
        if a == b:
            return None
        adj.setdefault(a, set()).add(b)
        adj.setdefault(b, set()).add(a)
    for start in sorted(adj, key=lambda x: x != DEFAULT_SIDE):
        if start in colour:
            continue
        colour[start] = 0
        stack = [start]
        while stack:
            x = stack.pop()
            for y in adj[x]:
                if y not in colour:
                    colour[y] = 1 - colour[x]
                    stack.append(y)
                elif colour[y] == colour[x]:
                    return None
    return colour


class ConfigRun:
    """Collects the scenarios of one configuration; produces the dict `run_config` returns.

    make_inputs(scenario, colour) -> JSON inputs of a replay (colour: representative -> 0/1, the two real objects)"""

    def __init__(self, pid, key, make_inputs, max_replays_per_obligation=1):
        self.pid = pid
        self.key = key
        self.make_inputs = make_inputs
        self.by_name = {}  # name -> dict(instances, seconds, violating: [(scenario_index, result)])
        self.scenarios = []
        self.stats = {"unsat": 0, "sat": 0, "unknown": 0, "concrete_facts": 0}
        self.solver_s = 0.0
        self.max_rep = max_replays_per_obligation

    def add(self, scenario, checker):
        checker.finish()
        idx = len(self.scenarios)
        self.scenarios.append(scenario)
        for k, v in checker.stats.items():
            self.stats[k] = self.stats.get(k, 0) + v
        self.solver_s += checker.solver_s
        for r in checker.results:
            e = self.by_name.setdefault(r["name"], {"instances": 0, "seconds": 0.0, "violating": [], "inconclusive": []})
            e["instances"] += 1
            e["seconds"] += r["seconds"]
            if r["verdict"] == "violated":
                if len(e["violating"]) < 50:
                    e["violating"].append((idx, r))
                e["n_violating"] = e.get("n_violating", 0) + 1
            elif r["verdict"] != "proved":
                e["inconclusive"].append((idx, r))

    def finish(self, do_replay=True):
        from vt import harness

        records = []
        # plan replays: walk violating scenarios in order, one process per (scenario, compatible obligation group)
        want = {name: e["violating"][0] for name, e in self.by_name.items() if e["violating"]}
        groups = []  # (scenario index, [names], [pairs])
        for name in sorted(want, key=lambda n: want[n][0]):
            idx, r = want[name]
            placed = False
            for g in groups:
                if g[0] != idx:
                    continue
                pairs = g[2] + list(r["pair"] or [])
                if two_colour(pairs) is not None or not pairs:
                    g[1].append(name)
                    g[2][:] = pairs
                    placed = True
                    break
            if not placed:
                groups.append((idx, [name], list(r["pair"] or [])))
        confirmed = {}  # name -> (path, reproduced, detail)
        batch = []  # (names, paths, inputs)
        for idx, names, pairs in groups:
            colour = two_colour(pairs) if pairs else {}
            if colour is None:
                for n in names:
                    confirmed[n] = (None, False, "no separating assignment onto two real objects")
                continue
            inputs = self.make_inputs(self.scenarios[idx], colour)
            paths = {n: harness.write_replay(self.pid, self.key, n, inputs) for n in names}
            batch.append((names, paths, inputs))
        if batch and not do_replay:
            for names, paths, inputs in batch:
                for n in names:
                    confirmed[n] = (paths[n], False, "replay disabled")
        elif batch:
            # ONE fresh process per configuration confirms all of its replay files (each file also reproduces on its own
            # with `./check <ID> --replay <file>`); the batch file is only a transport and is removed afterwards
            bpath = harness.write_replay(self.pid, self.key, "__batch__", {"batch": [inp for _, _, inp in batch]})
            ok, out = harness.run_replay(self.pid, bpath, timeout=120 + 5 * len(batch))
            try:
                os.remove(bpath)
            except OSError:
                pass
            m = re.search(r"batch=(\[.*\])\s*$", out.strip().splitlines()[-1] if out.strip() else "")
            failed_lists = json.loads(m.group(1)) if m else [[] for _ in batch]
            last = out.strip().splitlines()[-1][:200] if out.strip() else "no output"
            for (names, paths, inputs), failed in zip(batch, failed_lists):
                for n in names:
                    confirmed[n] = (paths[n], n in failed, f"replay process reported failed={failed}" if m else last)
        for name in sorted(self.by_name):
            e = self.by_name[name]
            rec = {"name": name, "seconds": round(e["seconds"], 4), "path": [], "instances": e["instances"]}
            if e["violating"]:
                idx, r = e["violating"][0]
                path, ok, detail = confirmed[name]
                rec.update({"inputs": {"scenario": self.scenarios[idx], "violating_instances": e.get("n_violating", 0)}, "note": r["detail"], "replay": path})
                if ok:
                    rec["verdict"] = "violated"
                else:
                    rec["verdict"] = "inconclusive"
                    rec["note"] = f"solver found a violating scenario but the replay on real objects did not reproduce it: {detail}; {r['detail']}"
            elif e["inconclusive"]:
                rec["verdict"] = "inconclusive"
                rec["note"] = e["inconclusive"][0][1]["detail"]
            else:
                rec["verdict"] = "proved"
            records.append(rec)
        q = {k: v for k, v in self.stats.items() if k in ("unsat", "sat", "unknown")}
        return {"records": records, "paths": len(self.scenarios), "complete": True,
                "stats": {"queries": q, "solver_s": round(self.solver_s, 3), "concrete_facts": self.stats.get("concrete_facts", 0)}}
