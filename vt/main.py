"""check driver:  python -m vt.main <ID> [--tier quick|thorough] [--replay file] [--only substr] [--jobs N]

exit 0: every obligation explored was discharged (or matched a listed known finding)
exit 1: a replayed violation that known_findings.jsonl does not list (VIOLATION line printed)
exit 2: harness error (import failure, vacuous harness, worker crash, stub conformance)
"""
import argparse
import hashlib
import importlib
import inspect
import json
import multiprocessing as mp
import os
import re
import signal
import sys
import time
import traceback

ROOT = os.path.dirname(os.path.dirname(os.path.abspath(__file__)))
sys.path.insert(0, ROOT)
os.environ.setdefault("PYTHONDONTWRITEBYTECODE", "1")
sys.dont_write_bytecode = True
import warnings

warnings.filterwarnings("ignore")


def load(pid):
    return importlib.import_module(f"props.{pid.lower()}")


class _Alarm(BaseException):
    pass


def _alarm(signum, frame):
    raise _Alarm()


def worker(args):
    pid, cfg, tier = args
    t0 = time.time()
    if os.environ.get("VT_TEST_HANG") and os.environ["VT_TEST_HANG"] in cfg["key"]:
        time.sleep(10**6)  # self-test of the supervisor (tools only)
    out = {"key": cfg["key"], "records": [], "paths": 0, "complete": True, "error": None, "stats": {}, "seconds": 0.0, "path_exceptions": []}
    try:
        mod = load(pid)
        if getattr(mod, "ENGINE", "E1") != "E1":
            signal.signal(signal.SIGALRM, _alarm)
            signal.alarm(int(cfg.get("timeout_s", 300 if tier == "quick" else 1800)))
            try:
                res = mod.run_config(cfg, tier)
            finally:
                signal.alarm(0)
            out.update(res)
            out["seconds"] = round(time.time() - t0, 3)
            return out
        from vt import sym, backend, harness

        backend.install()
        holder = []

        def run_path():
            backend.POLICY.reset()
            E = harness.Env(True, cfg["key"], pid, tier=tier)
            E.max_replays = cfg.get("max_replays", 3)
            if holder:
                E.confirmed = holder[0].confirmed
            holder.append(E)
            mod.harness(E, cfg)
            if cfg.get("vacuity", True):
                E.vacuity(cfg.get("vacuity_groups", ()))
            return None

        budget = int(cfg.get("timeout_s", 150 if tier == "quick" else 1500))
        signal.signal(signal.SIGALRM, _alarm)
        signal.alarm(budget + 120)  # backstop only: the cooperative deadline below normally ends the run
        try:
            recs, ctx, complete = sym.explore(
                run_path,
                deadline=time.time() + budget,
                mode=cfg.get("mode", "merge"),
                max_paths=cfg.get("max_paths", 600 if tier == "quick" else 5000),
                branch_timeout_ms=cfg.get("branch_timeout_ms", 3000),
                max_depth=cfg.get("max_depth", 400),
            )
            out["paths"] = len(recs)
            out["complete"] = complete
            out["stats"] = ctx.stats.as_dict()
            for r in recs:
                if r.exception is not None:
                    out["path_exceptions"].append({"path": r.decisions, "exception": list(r.exception)})
        except _Alarm:
            out["complete"] = False
            out["error"] = "config timeout"
            if sym.CTX is not None:
                out["stats"] = sym.CTX.stats.as_dict()
            sym.CTX = None
        finally:
            signal.alarm(0)
        for E in holder:
            out["records"].extend(E.results)
        backend.uninstall()
    except BaseException as e:  # noqa
        out["error"] = "worker crash: " + "".join(traceback.format_exception_only(type(e), e)).strip()[:500]
        out["traceback"] = traceback.format_exc()[-2000:]
        out["crash"] = True
    out["seconds"] = round(time.time() - t0, 3)
    return out


def _worker_loop(conn):
    """child process: serve configurations sent over the pipe until None arrives"""
    try:
        while True:
            job = conn.recv()
            if job is None:
                break
            conn.send(worker(job))
    except (EOFError, KeyboardInterrupt):
        pass


def run_supervised(jobs, njobs, tier, tasks_per_child=40):
    """Own worker supervision instead of multiprocessing.Pool: a z3 call that neither honours its timeout nor the interrupt
    (seen: nla::core::patch_monomial on huge rationals, 15 min of CPU inside one solver.check) blocks the worker's main thread in C,
    where neither the cooperative deadline nor SIGALRM can reach it.  The parent therefore watches every busy worker and KILLS it
    after the configuration's budget plus a grace period; the configuration is reported as undecided ("worker unresponsive"), a fresh
    worker takes over, and the run goes on.  A Pool would wait for ever on the lost task."""
    from multiprocessing.connection import wait as conn_wait

    ctxm = mp.get_context("spawn")
    pending = list(reversed(jobs))
    slots = []

    def spawn():
        pc, cc = ctxm.Pipe()
        p = ctxm.Process(target=_worker_loop, args=(cc,), daemon=True)
        p.start()
        cc.close()
        return {"p": p, "c": pc, "job": None, "t0": None, "n": 0}

    def retire(s, kill=False):
        try:
            if kill:
                s["p"].kill()
            else:
                s["c"].send(None)
        except Exception:
            pass
        try:
            s["p"].join(2 if not kill else 5)
            if s["p"].is_alive():
                s["p"].kill()
                s["p"].join(5)
        except Exception:
            pass
        try:
            s["c"].close()
        except Exception:
            pass

    def lost(job, why, secs):
        return {"key": job[1]["key"], "records": [], "paths": 0, "complete": False, "error": why, "stats": {}, "seconds": round(secs, 1), "path_exceptions": [], "allow_empty": True}

    try:
        slots = [spawn() for _ in range(njobs)]
        while True:
            for s in slots:
                if s["job"] is None and pending:
                    job = pending.pop()
                    s["job"], s["t0"] = job, time.time()
                    s["c"].send(job)
            busy = [s for s in slots if s["job"] is not None]
            if not busy:
                break
            ready = conn_wait([s["c"] for s in busy], timeout=1.0)
            now = time.time()
            for i, s in enumerate(slots):
                if s["job"] is None:
                    continue
                job = s["job"]
                if s["c"] in ready:
                    try:
                        r = s["c"].recv()
                    except (EOFError, OSError):
                        r = lost(job, "worker process died", now - s["t0"])
                        retire(s, kill=True)
                        slots[i] = spawn()
                        yield r
                        continue
                    s["job"], s["n"] = None, s["n"] + 1
                    if s["n"] >= tasks_per_child:
                        retire(s)
                        slots[i] = spawn()
                    yield r
                else:
                    limit = int(job[1].get("timeout_s", 150 if tier == "quick" else 1500)) + int(os.environ.get("VERIF_KILL_GRACE", "180"))
                    if now - s["t0"] > limit:
                        retire(s, kill=True)
                        slots[i] = spawn()
                        yield lost(job, f"worker unresponsive after {int(now - s['t0'])} s (a solver call did not return): killed", now - s["t0"])
    finally:
        for s in slots:
            retire(s, kill=True)


def load_known(pid):
    path = os.path.join(ROOT, "known_findings.jsonl")
    out = []
    if os.path.exists(path):
        for line in open(path):
            line = line.strip()
            if not line or line.startswith("#"):
                continue
            d = json.loads(line)
            if d.get("property") == pid and d.get("status") == "known":
                out.append(d)
    return out


def match_known(known, key, name):
    for k in known:
        if re.search(k.get("config", ""), key) and re.search(k.get("obligation", ""), name):
            return k
    return None


def source_hashes(names):
    out = {}
    for q in names:
        try:
            modname, _, attr = q.rpartition(".")
            obj = None
            # longest importable module prefix
            parts = q.split(".")
            for i in range(len(parts), 0, -1):
                try:
                    m = importlib.import_module(".".join(parts[:i]))
                except Exception:
                    continue
                obj = m
                for a in parts[i:]:
                    obj = getattr(obj, a)
                break
            obj = getattr(obj, "__wrapped__", obj)
            src = inspect.getsource(obj)
            out[q] = hashlib.sha256(src.encode()).hexdigest()[:16]
        except Exception as e:
            out[q] = f"unavailable ({type(e).__name__})"
    return out


def do_replay(pid, path):
    mod = load(pid)
    body = json.load(open(path))
    if getattr(mod, "ENGINE", "E1") != "E1":
        ok, detail = mod.replay(body)
    else:
        from vt import harness

        cfgs = [c for c in mod.configs("thorough") + mod.configs("quick") if c["key"] == body["config"]]
        if not cfgs:
            print(f"NOT-REPRODUCED property={pid} unknown config {body['config']}")
            return 3
        E = harness.Env(False, body["config"], pid, inputs=body["inputs"], only=body["obligation"])
        ok = False
        detail = ""
        try:
            mod.harness(E, cfgs[0])
            ok = body["obligation"] in E.failed
            detail = f"failed={E.failed} reached={len(E.reached)}"
        except harness.ReplayMismatch as e:
            detail = f"precondition mismatch: {e}"
        except Exception as e:
            detail = f"exception {type(e).__name__}: {e}"
            if body["obligation"] in E.failed:
                ok = True
    if ok:
        print(f"REPRODUCED property={pid} obligation={body['obligation']} config={body['config']} {detail}")
        return 1
    print(f"NOT-REPRODUCED property={pid} obligation={body['obligation']} {detail}")
    return 0


def main(argv=None):
    ap = argparse.ArgumentParser()
    ap.add_argument("pid")
    ap.add_argument("--tier", default=os.environ.get("VERIF_TIER", "quick"), choices=["quick", "thorough"])
    ap.add_argument("--replay")
    ap.add_argument("--only", help="run only configurations whose key contains this substring")
    ap.add_argument("--jobs", type=int, default=int(os.environ.get("VERIF_JOBS", "16")))
    ap.add_argument("--no-evidence", action="store_true")
    ap.add_argument("--max-violations", type=int, default=int(os.environ.get("VERIF_MAX_VIOLATIONS", "12")), help="stop scheduling configurations once this many new (config, obligation) violations were replayed (the run fails anyway)")
    ap.add_argument("-v", action="store_true")
    a = ap.parse_args(argv)
    pid = a.pid.upper()
    seed = int(os.environ.get("VERIF_SEED", "0") or 0)
    if a.replay:
        sys.exit(do_replay(pid, a.replay))
    t0 = time.time()
    try:
        mod = load(pid)
        cfgs = mod.configs(a.tier)
    except Exception:
        traceback.print_exc()
        print(f"HARNESS-ERROR property={pid} cannot load property module")
        sys.exit(2)
    if a.only:
        cfgs = [c for c in cfgs if a.only in c["key"]]
    keys = [c["key"] for c in cfgs]
    assert len(set(keys)) == len(keys), "duplicate config keys"
    # stub / engine conformance (harness error if it fails)
    conf = {}
    if hasattr(mod, "conformance"):
        try:
            conf = mod.conformance(seed) or {}
        except Exception as e:
            traceback.print_exc()
            print(f"HARNESS-ERROR property={pid} conformance failed: {e}")
            sys.exit(2)
    results = []
    known_early = load_known(pid)
    new_viol = set()
    stopped_early = False

    def note(r):
        for x in r.get("records", []):
            if x.get("verdict") == "violated" and match_known(known_early, r["key"], x["name"]) is None:
                new_viol.add((r["key"], x["name"]))
        return len(new_viol) >= a.max_violations

    jobs = [(pid, c, a.tier) for c in cfgs]
    # longest first
    jobs.sort(key=lambda j: -j[1].get("cost", 1))
    if a.jobs <= 1 or len(jobs) <= 1:
        for j in jobs:
            results.append(worker(j))
            if note(results[-1]):
                stopped_early = len(results) < len(jobs)
                break
    else:
        for r in run_supervised(jobs, min(a.jobs, len(jobs)), a.tier):
            results.append(r)
            if a.v:
                nv = sum(1 for x in r["records"] if x["verdict"] == "violated")
                print(f"  [{len(results)}/{len(jobs)}] {r['key']} paths={r['paths']} obligations={len(r['records'])} violated={nv} {r['seconds']}s {r['error'] or ''}", flush=True)
            if note(r):
                stopped_early = len(results) < len(jobs)
                break  # the generator's cleanup kills the workers: the run already fails, the remaining configurations are not needed
    results.sort(key=lambda r: r["key"])
    known = load_known(pid)
    n_obl = n_proved = n_incon = 0
    violations = []
    known_hits = {}
    harness_errors = []
    inconclusive = []
    samples = []
    agg_stats = {"unsat": 0, "sat": 0, "unknown": 0}
    solver_s = 0.0
    total_paths = 0
    n_undefined = 0
    for r in results:
        total_paths += r.get("paths", 0)
        st = r.get("stats") or {}
        for k, v in (st.get("queries") or {}).items():
            agg_stats[k] = agg_stats.get(k, 0) + v
        solver_s += st.get("solver_s", 0.0)
        if r.get("crash"):
            harness_errors.append(f"{r['key']}: {r['error']}")
            if a.v:
                print(r.get("traceback"))
            continue
        if r.get("error") or not r.get("complete", True):
            inconclusive.append((r["key"], "__budget__", r.get("error") or "path budget exhausted"))
        for pe in r.get("path_exceptions", []):
            inconclusive.append((r["key"], "__path_exception__", f"{pe['exception']}"))
        real = [x for x in r["records"] if x["name"] != "__vacuity__"]
        if not real and not r.get("crash") and not r.get("allow_empty"):
            harness_errors.append(f"{r['key']}: no obligation reached (vacuous harness)")
        undefined_paths = {tuple(x["path"]) for x in r["records"] if x["name"] == "__vacuity__" and x["verdict"] == "undefined-path"}
        n_undefined += len(undefined_paths)
        vac = [x for x in r["records"] if x["name"] == "__vacuity__"]
        if vac and all(x["verdict"] == "vacuous" for x in vac):
            harness_errors.append(f"{r['key']}: assumptions unsatisfiable on every path (vacuous harness)")
        vacuous_paths = {tuple(x["path"]) for x in vac if x["verdict"] == "vacuous"}
        for x in r["records"]:
            if x["name"] == "__vacuity__":
                continue
            if tuple(x["path"]) in vacuous_paths:
                continue  # infeasible path explored because its feasibility query was undecided: nothing holds or fails there
            if tuple(x["path"]) in undefined_paths:
                continue  # the code divides by zero on this whole path: outside the claim
            n_obl += 1
            if x["verdict"] == "proved":
                n_proved += 1
            elif x["verdict"] == "violated":
                k = match_known(known, r["key"], x["name"])
                if k is not None:
                    known_hits.setdefault(k["what"], []).append((r["key"], x["name"]))
                else:
                    violations.append((r["key"], x))
            else:
                n_incon += 1
                inconclusive.append((r["key"], x["name"], x.get("note") or x.get("refine") or x["verdict"]))
                if a.v:
                    print("  inconclusive record:", r["key"], {k: str(v)[:400] for k, v in x.items() if k not in ("inputs",)}, flush=True)
        if len(samples) < 6 and real:
            x = real[0]
            samples.append({"config": r["key"], "obligation": x["name"], "verdict": x["verdict"], "seconds": x["seconds"], "paths": r["paths"]})
    for what, hits in known_hits.items():
        print(f"KNOWN-FINDING: property={pid} {what} ({len(hits)} obligation instances, e.g. {hits[0][0]} / {hits[0][1]})")
    seen = set()
    for key, name, why in inconclusive:
        if (key, name) in seen:
            continue
        seen.add((key, name))
        print(f"INCONCLUSIVE property={pid} config={key} obligation={name} ({str(why)[:160]})")
    printed = set()
    for key, x in violations:
        if (key, x["name"]) in printed:
            continue
        printed.add((key, x["name"]))
        print(f"VIOLATION property={pid} replay={x.get('replay')} config={key} obligation={x['name']}")
        samples.append({"config": key, "obligation": x["name"], "verdict": "violated", "inputs": x.get("inputs"), "replay": x.get("replay")})
    for h in harness_errors:
        print(f"HARNESS-ERROR property={pid} {h}")
    wall = time.time() - t0
    nontrivial = len({(r["key"]) for r in results if any(x["name"] != "__vacuity__" for x in r["records"])})
    ev = {
        "property_id": pid,
        "tier": a.tier,
        "seed": seed,
        "level": "other",
        "coverage": {
            "explanation": getattr(mod, "EXPLANATION", "")
            + f" Engine: {getattr(mod, 'ENGINE', 'E1')}; "
            + getattr(mod, "EXPLANATION_SUFFIX", f"every obligation is a validity query decided by z3 {__import__('z3').get_version_string()} over all values of the symbolic quantities of one configuration")
            + f"; bounds: {getattr(mod, 'BOUNDS', {}).get(a.tier, getattr(mod, 'BOUNDS', ''))}.",
            "obligations": n_obl,
            "discharged": n_proved,
            "undecided": n_incon,
            "violated_known": sum(len(v) for v in known_hits.values()),
            "violated_new": len(violations),
            "evaluations": len(results),
            "distinct_nontrivial": nontrivial,
            "rule": getattr(mod, "RULE", "one evaluation = one configuration (entry point x option set x shape) executed symbolically over all feasible paths; non-trivial = at least one obligation reached; configurations are distinct by key"),
            "configurations": len(results),
            "configurations_scheduled": len(jobs),
            "stopped_early_after_violations": stopped_early,
            "paths": total_paths,
            "paths_outside_claim_division_by_zero": n_undefined,
            "queries_by_verdict": agg_stats,
            "solver_seconds": round(solver_s, 2),
            "checker_cmd": f"./check {pid} --tier {a.tier}",
            "trusted_base": getattr(mod, "TRUSTED", []),
            "functions_encoded": source_hashes(getattr(mod, "ENCODED", [])),
            "bounds": getattr(mod, "BOUNDS", {}),
            "outside_claim": getattr(mod, "OUTSIDE", []),
            "known_findings_matched": {k: len(v) for k, v in known_hits.items()},
            "inconclusive": [list(map(str, i)) for i in inconclusive[:40]],
            "conformance": conf,
            "samples": samples,
            "exhaustive": False,
        },
        "assumptions": getattr(mod, "ASSUMPTIONS", []),
        "wall_s": round(wall, 2),
        "violations": len(violations),
    }
    if not a.no_evidence and not a.only:
        os.makedirs(os.path.join(ROOT, "evidence"), exist_ok=True)
        with open(os.path.join(ROOT, "evidence", f"{pid}.json"), "w") as f:
            json.dump(ev, f, indent=1, default=str)
    if stopped_early:
        print(f"STOPPED-EARLY property={pid} after {len(new_viol)} new violations: {len(results)} of {len(jobs)} configurations were run")
    print(f"SUMMARY property={pid} tier={a.tier} configs={len(results)} paths={total_paths} obligations={n_obl} proved={n_proved} inconclusive={n_incon} known={sum(len(v) for v in known_hits.values())} new_violations={len(violations)} solver_s={solver_s:.1f} wall_s={wall:.1f}")
    if violations:
        sys.exit(1)
    if harness_errors:
        sys.exit(2)
    sys.exit(0)


if __name__ == "__main__":
    main()
