"""E2 `symshape`: index-map backend for tensorly/base.py.

A tensor is `IT(shape, off)`: `shape` is a tuple whose entries are z3 Int terms (symbolic mode sizes
d_k in [1,B]) or Python ints (concrete twin), `off(index)` maps a multi-index of the tensor to the
linear (row-major) offset of that entry in the *source buffer* the computation started from.  The real,
unmodified functions of tensorly/base.py run on such objects through `IdxBackend`
(`tl.set_backend(instance)`); the backend implements NumPy's row-major semantics of
`reshape / transpose / moveaxis / shape / ndim`:

* transpose/moveaxis permute the index (no solver variables);
* `reshape(t, new)` with index `j` introduces witness indices `w` (one per old axis) with
  `0 <= w_k < old_k` and `ravel(w, old) = ravel(j, new)` and returns `t.off(w)`;
  a `-1` entry introduces `m >= 1` with `m * known = total`;
  the *size compatibility* of every reshape (`total mod known = 0`, `prod(new) = prod(old)`) is not assumed:
  it is recorded as an obligation which is decided under the facts that existed *before* that reshape.

With Python-int shapes and indices the same class computes the witness by unravelling (concrete twin);
`offset_table` tabulates it so that it can be compared with real NumPy (`conformance` in props/c01.py).
"""
import itertools
import operator
import time

import numpy as np
import z3

import tensorly as tl
from tensorly.backend.core import Backend
from tensorly.backend.numpy_backend import NumpyBackend


# ----------------------------------------------------------------------------- helpers (int or z3)
def is_int(x):
    if isinstance(x, bool):
        return False
    if isinstance(x, (int, np.integer)):
        return True
    return False


def all_int(xs):
    return all(is_int(x) for x in xs)


def prod(xs):
    r = 1
    for x in xs:
        r = r * x
    return r


def ravel(idx, shape):
    """row-major linear offset (Horner form)"""
    idx = list(idx)
    shape = list(shape)
    assert len(idx) == len(shape), (idx, shape)
    r = 0
    for i, d in zip(idx, shape):
        r = r * d + i
    return r


def unravel(lin, shape):
    """concrete only"""
    out = []
    for d in reversed(list(shape)):
        out.append(lin % d)
        lin //= d
    return list(reversed(out))


def zb(x):
    """Python bool / z3 Bool -> z3 Bool"""
    if isinstance(x, (bool, np.bool_)):
        return z3.BoolVal(bool(x))
    return x


def zand(xs):
    xs = [zb(x) for x in xs]
    if not xs:
        return z3.BoolVal(True)
    return z3.And(xs)


def eq(a, b):
    return zb(a == b)


def in_range(idx, shape):
    return zand([zand([zb(i >= 0), zb(i < d)]) for i, d in zip(idx, shape)])


# ----------------------------------------------------------------------------- monomials (engine-side simplification)
# Every dimension met in base.py is a monomial in the mode sizes.  Two uses, both justified by *polynomial identities*
# (so they hold for every value of the sizes) and both switchable off with DECOMPOSE = False:
#  * a `-1` dimension is the exact monomial quotient total/known when it exists (else a fresh variable m, m*known = total);
#  * a reshape old -> new is split into consecutive blocks with identical products; row-major unravelling then
#    decomposes block-wise (division with remainder is unique), an old block of one axis needs no witness at all
#    (w = ravel(new index block)), a 1-1 block is the identity.  If the shapes cannot be aligned (in particular when the
#    totals are not identical polynomials) the undecomposed encoding is used.
DECOMPOSE = True
_VARS = {}


def mono(t):
    """(coefficient, ((var, exp), ...)) or None"""
    if is_int(t):
        return (int(t), ())
    if not z3.is_expr(t):
        return None
    if z3.is_int_value(t):
        return (t.as_long(), ())
    if z3.is_const(t) and t.decl().kind() == z3.Z3_OP_UNINTERPRETED:
        _VARS[str(t)] = t
        return (1, ((str(t), 1),))
    if z3.is_mul(t):
        c, e = 1, {}
        for ch in t.children():
            m = mono(ch)
            if m is None:
                return None
            c *= m[0]
            for v, k in m[1]:
                e[v] = e.get(v, 0) + k
        return (c, tuple(sorted(e.items())))
    return None


def mono_mul(a, b):
    e = dict(a[1])
    for v, k in b[1]:
        e[v] = e.get(v, 0) + k
    return (a[0] * b[0], tuple(sorted(e.items())))


def mono_div(a, b):
    """exact quotient a/b or None"""
    if a is None or b is None or b[0] == 0 or a[0] % b[0] != 0:
        return None
    e = dict(a[1])
    for v, k in b[1]:
        if e.get(v, 0) < k:
            return None
        e[v] -= k
    return (a[0] // b[0], tuple(sorted((v, k) for v, k in e.items() if k)))


def mono_term(m):
    r = m[0]
    for v, k in m[1]:
        for _ in range(k):
            r = r * _VARS[v]
    return r


def align(old, new):
    """consecutive blocks [(old axes, new axes)] with identical products, or None"""
    mo = [mono(d) for d in old]
    mn = [mono(d) for d in new]
    if any(m is None or m[0] <= 0 for m in mo + mn):
        return None
    ONE = (1, ())
    blocks = []
    i = j = 0
    while i < len(old) or j < len(new):
        bo, bn, po, pn = [], [], ONE, ONE
        if i < len(old):
            bo, po, i = [i], mo[i], i + 1
        if j < len(new):
            bn, pn, j = [j], mn[j], j + 1
        while po != pn:
            ext_o = mono_div(pn, po) is not None
            ext_n = mono_div(po, pn) is not None
            if not ext_o and not ext_n:
                ext_o = ext_n = True
            if ext_o and i >= len(old):
                ext_o, ext_n = False, True
            if ext_n and j >= len(new):
                ext_n = False
                ext_o = i < len(old)
            if not ext_o and not ext_n:
                return None
            if ext_o:
                bo.append(i)
                po = mono_mul(po, mo[i])
                i += 1
            if ext_n:
                bn.append(j)
                pn = mono_mul(pn, mn[j])
                j += 1
        blocks.append((bo, bn))
    return blocks


# ----------------------------------------------------------------------------- context
class Ctx:
    """facts and obligations produced while the real code runs"""

    def __init__(self):
        self.struct = []  # definitional facts of inferred (-1) dimensions
        self.wit = []  # witness facts of off() evaluations (captured per goal)
        self.oblig = []  # (name, formula, n_struct_facts_before, description)
        self.n = 0
        self.reshapes = 0
        self.ops = []  # trace of backend calls (for evidence / debugging)

    def fresh(self, p):
        self.n += 1
        return z3.Int(f"__{p}{self.n}")

    def capture(self):
        """start collecting witness facts; returns the list that off() calls will append to"""
        self.wit = []
        return self.wit


CTX = Ctx()


def new_ctx():
    global CTX
    CTX = Ctx()
    return CTX


# ----------------------------------------------------------------------------- tensors
class IT:
    """index-map tensor"""

    def __init__(self, shape, off, label="t"):
        self.shape = tuple(int(d) if is_int(d) else d for d in shape)
        self.off = off
        self.label = label

    @property
    def ndim(self):
        return len(self.shape)

    @property
    def concrete(self):
        return all_int(self.shape)

    def __repr__(self):
        return f"IT{self.shape}"


def source(shape, label="src"):
    """a fresh source buffer of the given shape: entry `idx` lives at offset ravel(idx, shape)"""
    shape = tuple(shape)
    return IT(shape, lambda idx: ravel(idx, shape), label)


def offset_table(t):
    """concrete twin: ndarray of source offsets, same shape as t"""
    assert t.concrete
    out = np.empty(t.shape, dtype=np.int64)
    for idx in itertools.product(*[range(d) for d in t.shape]):
        out[idx] = t.off(list(idx))
    return out


def _norm_axis(a, nd):
    a = operator.index(a)
    if not -nd <= a < nd:
        raise np.exceptions.AxisError(a, nd)
    return a % nd if nd else a


class IdxBackend(Backend, backend_name="numpy"):
    """only what tensorly/base.py needs; anything else raises through the Backend base class"""

    @staticmethod
    def shape(t):
        return tuple(t.shape)

    @staticmethod
    def ndim(t):
        return len(t.shape)

    @staticmethod
    def transpose(t, axes=None):
        nd = len(t.shape)
        if axes is None:
            axes = list(range(nd))[::-1]
        else:
            axes = list(axes)
            if len(axes) != nd:
                raise ValueError("axes don't match array")
            axes = [_norm_axis(a, nd) for a in axes]
            if sorted(axes) != list(range(nd)):
                raise ValueError("repeated axis in transpose")
        CTX.ops.append(("transpose", tuple(axes)))

        def off(idx, t=t, axes=axes):
            idx = list(idx)
            assert len(idx) == len(axes)
            src = [None] * len(axes)
            for k, a in enumerate(axes):
                src[a] = idx[k]
            return t.off(src)

        return IT([t.shape[a] for a in axes], off)

    def moveaxis(self, t, source, destination):
        nd = len(t.shape)
        src = [source] if not isinstance(source, (list, tuple)) else list(source)
        dst = [destination] if not isinstance(destination, (list, tuple)) else list(destination)
        src = [_norm_axis(a, nd) for a in src]
        dst = [_norm_axis(a, nd) for a in dst]
        if len(set(src)) != len(src) or len(set(dst)) != len(dst):
            raise ValueError("repeated axis in moveaxis")
        if len(src) != len(dst):
            raise ValueError("`source` and `destination` arguments must have the same number of elements")
        order = [n for n in range(nd) if n not in src]
        for d, s in sorted(zip(dst, src)):
            order.insert(d, s)
        return self.transpose(t, order)

    @staticmethod
    def reshape(t, newshape):
        ctx = CTX
        if is_int(newshape) or z3.is_expr(newshape):
            newshape = [newshape]
        newshape = [int(d) if is_int(d) else d for d in newshape]
        old = tuple(t.shape)
        total = prod(old)
        unknown = [k for k, d in enumerate(newshape) if is_int(d) and d == -1]
        if any(is_int(d) and d < -1 for d in newshape):
            raise ValueError("negative dimensions not allowed")
        if len(unknown) > 1:
            raise ValueError("can only specify one unknown dimension")
        ctx.reshapes += 1
        tag = f"reshape_size[{ctx.reshapes}]"
        conc = all_int(old) and all_int(newshape)
        if unknown:
            k = unknown[0]
            known = prod([d for i, d in enumerate(newshape) if i != k])
            if conc:
                if known == 0 or total % known != 0:
                    raise ValueError(f"cannot reshape array of size {total} into shape {tuple(newshape)}")
                newshape[k] = total // known
            else:
                ctx.oblig.append((tag, eq(total % known, 0), len(ctx.struct), f"{old} -> {tuple(newshape)}: total mod known = 0"))
                q = mono_div(mono(total), mono(known)) if DECOMPOSE else None
                if q is not None:
                    # exact monomial quotient: q * known == total is a polynomial identity, no fresh variable needed
                    newshape[k] = mono_term(q)
                else:
                    m = ctx.fresh("m")
                    ctx.struct.append(zand([m >= 1, eq(m * known, total)]))
                    newshape[k] = m
        else:
            if conc:
                if prod(newshape) != total:
                    raise ValueError(f"cannot reshape array of size {total} into shape {tuple(newshape)}")
            else:
                ctx.oblig.append((tag, eq(prod(newshape), total), len(ctx.struct), f"{old} -> {tuple(newshape)}: prod(new) = prod(old)"))
        newshape = tuple(newshape)
        ctx.ops.append(("reshape", str(old), str(newshape)))

        def off(idx, t=t, old=old, newshape=newshape):
            idx = list(idx)
            assert len(idx) == len(newshape), (idx, newshape)
            if all_int(old) and all_int(newshape) and all_int(idx):
                return t.off(unravel(ravel(idx, newshape), old))
            blocks = align(old, newshape) if DECOMPOSE else None
            if blocks is None:
                wit = [CTX.fresh("w") for _ in old]
                CTX.wit.append(zand([in_range(wit, old), eq(ravel(wit, old), ravel(idx, newshape))]))
                return t.off(wit)
            wit = [None] * len(old)
            for bo, bn in blocks:
                o_shape = [old[i] for i in bo]
                n_shape = [newshape[j] for j in bn]
                n_idx = [idx[j] for j in bn]
                if not bo:
                    continue
                if len(bo) == 1:
                    wit[bo[0]] = ravel(n_idx, n_shape)
                    continue
                w = [CTX.fresh("w") for _ in bo]
                CTX.wit.append(zand([in_range(w, o_shape), eq(ravel(w, o_shape), ravel(n_idx, n_shape))]))
                for i, wi in zip(bo, w):
                    wit[i] = wi
            return t.off(wit)

        return IT(newshape, off)


# the class statement above re-registered 'numpy' in Backend._available_backends: restore the real class
Backend._available_backends["numpy"] = NumpyBackend

_INST = None


def install():
    """switch tensorly (this process) to the index-map backend"""
    global _INST
    if _INST is None:
        _INST = IdxBackend()
    tl.set_backend(_INST)
    return _INST


def uninstall():
    tl.set_backend("numpy")


class installed:
    def __enter__(self):
        install()
        return self

    def __exit__(self, *a):
        uninstall()
        return False


# ----------------------------------------------------------------------------- solver
class Stats:
    def __init__(self):
        self.q = {"unsat": 0, "sat": 0, "unknown": 0}
        self.solver_s = 0.0

    def as_dict(self):
        return {"queries": dict(self.q), "solver_s": round(self.solver_s, 3)}


def decide(assumptions, goal, timeout_ms, stats=None):
    """validity of  AND(assumptions) -> goal ; returns (verdict, model, seconds); QF_NIA, z3"""
    s = z3.Solver()
    s.set("timeout", int(timeout_ms))
    for a in assumptions:
        s.add(zb(a))
    s.add(z3.Not(zb(goal)))
    t0 = time.time()
    r = _check(s, timeout_ms)
    dt = time.time() - t0
    m = s.model() if r == "sat" else None
    if stats is not None:
        stats.q[r] = stats.q.get(r, 0) + 1
        stats.solver_s += dt
    return r, m, dt


def _check(s, timeout_ms):
    """s.check() with a watchdog: z3's own `timeout` is not always honoured inside nonlinear reasoning"""
    import threading

    wd = threading.Timer(timeout_ms / 1000.0 + 2.0, s.ctx.interrupt)
    wd.daemon = True
    wd.start()
    try:
        r = str(s.check())
    except z3.Z3Exception:
        r = "unknown"
    finally:
        wd.cancel()
    return r if r in ("sat", "unsat") else "unknown"


def decide_split(assumptions, goal, dims, B, budget_ms, stats=None, case_ms=10000):
    """fallback when `decide` answers unknown with all sizes symbolic: the same validity claim is decided by
    splitting on the mode sizes, one query per (d_1..d_n) in [1,B]^n with the sizes substituted (the index and the
    reshape witnesses stay symbolic, each case is linear integer arithmetic).
    returns (verdict, model, seconds, cases, sizes-of-the-sat-case)"""
    phi = z3.And([zb(a) for a in assumptions] + [z3.Not(zb(goal))])
    t0 = time.time()
    n = 0
    for vals in itertools.product(range(1, B + 1), repeat=len(dims)):
        left = budget_ms - (time.time() - t0) * 1000
        if left <= 0:
            return "unknown", None, time.time() - t0, n, None
        f = z3.simplify(z3.substitute(phi, *[(d, z3.IntVal(v)) for d, v in zip(dims, vals)]))
        n += 1
        if z3.is_false(f):
            if stats is not None:
                stats.q["unsat"] += 1
            continue
        s = z3.Solver()
        s.set("timeout", int(max(1, min(case_ms, left))))
        s.add(f)
        t1 = time.time()
        r = _check(s, max(1, min(case_ms, left)))
        if stats is not None:
            stats.q[r] = stats.q.get(r, 0) + 1
            stats.solver_s += time.time() - t1
        if r == "sat":
            return "sat", s.model(), time.time() - t0, n, list(vals)
        if r != "unsat":
            return "unknown", None, time.time() - t0, n, None
    return "unsat", None, time.time() - t0, n, None


def model_ints(model, vs):
    return [model.eval(v, model_completion=True).as_long() for v in vs]
