s = open('symr2.py').read()
def rep(a, b):
    global s
    assert a in s, a
    s = s.replace(a, b)
rep('''def sym(name, shape):
    a = np.empty(shape, dtype=object)''','''class SArr(np.ndarray):
    """object ndarray whose comparisons stay symbolic (object arrays of SB) instead of forking per element"""
    __array_priority__ = 100
    def _cmp(self, o, uf):
        r = uf(np.asarray(self), np.asarray(o, dtype=object) if not isinstance(o, np.ndarray) else np.asarray(o), dtype=object)
        if isinstance(r, np.ndarray):
            if all(isinstance(e, (bool, np.bool_)) for e in r.ravel()): return np.asarray(r, dtype=bool)
            return r.view(SArr)
        return r
    def __eq__(self, o): return self._cmp(o, np.equal)
    def __ne__(self, o): return self._cmp(o, np.not_equal)
    def __lt__(self, o): return self._cmp(o, np.less)
    def __le__(self, o): return self._cmp(o, np.less_equal)
    def __gt__(self, o): return self._cmp(o, np.greater)
    def __ge__(self, o): return self._cmp(o, np.greater_equal)
    __hash__ = None

def sym(name, shape):
    a = np.empty(shape, dtype=object).view(SArr)''')
rep('''def _obj(x):
    a = np.asarray(x)
    if a.dtype != object: a = a.astype(object)
    return a''','''def _obj(x):
    a = np.asarray(x)
    if a.dtype != object: a = a.astype(object)
    return a.view(SArr)''')
rep('''    return np.array(data, dtype=object)
def s_zeros(shape, dtype=None, **kw): return np.zeros(shape, dtype=object)
def s_ones(shape, dtype=None, **kw): return np.ones(shape, dtype=object)
def s_eye(N, M=None, dtype=None, **kw): return np.eye(N, M, dtype=object)
def s_zeros_like(t, **kw): return np.zeros(np.shape(t), dtype=object)''','''    return np.array(data, dtype=object).view(SArr)
def s_zeros(shape, dtype=None, **kw): return np.zeros(shape, dtype=object).view(SArr)
def s_ones(shape, dtype=None, **kw): return np.ones(shape, dtype=object).view(SArr)
def s_eye(N, M=None, dtype=None, **kw): return np.eye(N, M, dtype=object).view(SArr)
def s_zeros_like(t, **kw): return np.zeros(np.shape(t), dtype=object).view(SArr)
def s_all(t, **kw):
    t = np.asarray(t)
    if t.dtype == object:
        terms = [e.t if isinstance(e, SB) else z3.BoolVal(bool(e)) for e in t.ravel()]
        return bool(SB(z3.And(terms)))
    return np.all(t, **kw)
def s_any(t, axis=None, **kw):
    t = np.asarray(t)
    if t.dtype == object:
        terms = [e.t if isinstance(e, SB) else z3.BoolVal(bool(e)) for e in t.ravel()]
        return bool(SB(z3.Or(terms)))
    return np.any(t, axis=axis, **kw)''')
rep('''for n,f in dict(tensor=s_tensor,''','''for n,f in dict(all=s_all, any=s_any, tensor=s_tensor,''')
open('symr2.py','w').write(s)
print("patched3")
