import warnings; warnings.filterwarnings("ignore")
import numpy as np, z3, time, sys
import symr2 as S
from symr2 import sym, SR, explore
import tensorly as tl
from tensorly.cp_tensor import cp_to_tensor, cp_normalize, cp_flip_sign
S.install()
shape=tuple(int(c) for c in sys.argv[1]); R=int(sys.argv[2]); what=sys.argv[3]
def run():
    w = sym("w",(R,)); F=[sym(f"f{m}",(shape[m],R)) for m in range(len(shape))]
    before = cp_to_tensor((w,[f.copy() for f in F]))
    if what=="norm":
        cp2 = cp_normalize((w,F))
    else:
        cp2 = cp_flip_sign((w,[f.copy() for f in F]))
    after = cp_to_tensor(cp2)
    return before, after, cp2
t0=time.time()
paths = explore(run)
print("paths", len(paths), "exec", round(time.time()-t0,2), "queries", S.CTX.nqueries)
tot=0
for pc, side, (before, after, cp2) in paths:
    s = z3.Solver(); s.set("timeout",120000)
    for c in pc+side: s.add(c)
    def vars_of(t, acc):
        if z3.is_const(t) and t.decl().kind()==z3.Z3_OP_UNINTERPRETED: acc[str(t)] = t
        for c in t.children(): vars_of(c, acc)
        return acc
    import os
    for v,a in S.CTX.sqrt_atoms:
        if os.environ.get("LEMMA"):
            s.add(z3.Implies(v==0, z3.And([x==0 for x in vars_of(a,{}).values()])))
        else: s.add(v*v==a)
    s.add(z3.Or([x.t != y.t for x,y in zip(before.ravel(), after.ravel())]))
    t0=time.time(); r=s.check(); tot+=time.time()-t0
    print("preserve query:", r, round(time.time()-t0,2), "pc",len(pc), "atoms", len(S.CTX.sqrt_atoms))
    if str(r)=="sat":
        m=s.model(); print({str(d):m[d] for d in m.decls() if not str(d).startswith('/')})
        break
    if what=="norm":
        # unit norm columns or zero
        s = z3.Solver(); s.set("timeout",120000)
        for c in pc+side: s.add(c)
        for v,a in S.CTX.sqrt_atoms: s.add(v*v==a)
        bad=[]
        for f in cp2.factors:
            for r_ in range(R):
                n2 = sum((x*x for x in f[:,r_]),0)
                bad.append(z3.And(n2.t != 1, n2.t != 0))
        s.add(z3.Or(bad))
        t0=time.time(); r=s.check(); print("unit-norm query:", r, round(time.time()-t0,2))
print("total solve", round(tot,2))
