import warnings; warnings.filterwarnings("ignore")
import numpy as np, z3, time, sys, itertools
import symr2 as S
from symr2 import sym, SR, SB, explore
import tensorly as tl
S.install()
exec(open("p7.py").read().split("op = sys.argv[1]")[0].split("S.install()")[1])
import tensorly.metrics.factors as F
rows = int(sys.argv[1]); R = int(sys.argv[2]); mode = sys.argv[3]
S.SymBackend.register_method("to_numpy", lambda t: np.array(t, dtype=object).view(S.SArr))
def lsa_stub(cost):
    """fork over all permutations; assume the returned one is optimal (min cost)"""
    cost = np.asarray(cost, dtype=object); n = cost.shape[0]
    perms = list(itertools.permutations(range(n)))
    tot = lambda p: sum((cost[i, p[i]] for i in range(n)), 0)
    for p in perms:
        cond = None
        for q in perms:
            if q == p: continue
            c = (tot(p) <= tot(q))
            c = c.t if isinstance(c, SB) else z3.BoolVal(bool(c))
            cond = c if cond is None else z3.And(cond, c)
        if cond is None or bool(SB(cond)):
            return np.arange(n), np.array(p)
    raise S.Abort()
F.linear_sum_assignment = lsa_stub
def run():
    A = sym("a", (rows, R))
    if mode == "range":
        B = sym("b", (rows, R))
        perm = None
    else:
        perm = PERM
        c = sym("c", (R,))
        B = (np.asarray(A)[:, list(perm)] * np.asarray(c)).view(S.SArr)
        for x in c: S.CTX.side.append(x.t != 0)
    val, p = F.congruence_coefficient(A, B)
    return val, p, perm
for PERM in (itertools.permutations(range(R)) if mode != "range" else [None]):
    t0 = time.time(); paths = explore(run); print("perm", PERM, "paths", len(paths), "exec", round(time.time()-t0,2), "queries", S.CTX.nqueries)
    res = {}
    for pc, side, out in paths:
        if isinstance(out, tuple) and out[0] != 'exc':
            val, p, perm = out; val = val.item() if isinstance(val, np.ndarray) else val
            s = z3.Solver(); s.set("timeout", 60000)
            for c in pc+side: s.add(c)
            for v,a in S.CTX.sqrt_atoms: s.add(v*v == a)
            if mode == "range": s.add(z3.Or(S.tolift(val) < 0, S.tolift(val) > 1))
            else: s.add(z3.Or(S.tolift(val) != 1, z3.BoolVal(list(p) != [list(perm).index(i) for i in range(R)] and list(p) != list(perm))))
            t0=time.time(); r = str(s.check()); res[r] = res.get(r,0)+1
        else: res['raised'] = res.get('raised',0)+1
    print("   verdicts", res)
