s = open('symr2.py').read()
def rep(a, b):
    global s
    assert a in s, a
    s = s.replace(a, b)
rep('''        for v, a in self.sqrt_atoms:
            if a.eq(arg): return v
        for v, a in self.sqrt_atoms:
            if self.identical(a, arg): return v
        v = self.fresh("sqrt")
        self.sqrt_atoms.append((v, arg))''','''        def strip(a):
            if z3.is_app(a) and a.decl().kind()==z3.Z3_OP_ITE and a.arg(2).eq(z3.simplify(-a.arg(1))) : return a.arg(1), True
            return a, False
        core, isabs = strip(arg)
        for v, a in self.sqrt_atoms:
            if a.eq(arg): return v
        for v, a in self.sqrt_atoms:
            c2, abs2 = strip(a)
            if self.identical(c2, core):
                nn1 = isabs or nn or self.known_nonneg(core)
                nn2 = abs2 or self.known_nonneg(c2)
                if (isabs == abs2) or (nn1 and nn2):
                    return v
        v = self.fresh("sqrt")
        self.sqrt_atoms.append((v, arg))''')
rep('''    def sqrt(self, arg):
        arg = z3.simplify(arg)''','''    def sqrt(self, arg, nn=False):
        arg = z3.simplify(arg)
        if nn: self.nonneg_pool.append(arg)''')
rep('''        if self.nn: CTX.nonneg_pool.append(self.t)
        v = CTX.sqrt(self.t)''','''        v = CTX.sqrt(self.t, self.nn)''')
rep('''        return SR(z3.If(self.t>=0, self.t, -self.t), ab=self.t)''','''        tt = z3.simplify(self.t)
        return SR(z3.If(tt>=0, tt, z3.simplify(-tt)), ab=tt)''')
open('symr2.py','w').write(s)
print("patched2")
