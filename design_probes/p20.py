"""C08(c) both exits with symbolic tol; C14(a) zero-budget warm start with symbolic weights."""
import warnings; warnings.filterwarnings("ignore")
import numpy as np, z3, time, sys
import symr2 as S
from symr2 import sym, SR, explore
import tensorly as tl
S.install()
from tensorly.decomposition import parafac
from tensorly.cp_tensor import cp_to_tensor
def fresh(shape, tag):
    a = np.empty(shape, dtype=object).view(S.SArr)
    for idx in np.ndindex(*shape): a[idx] = SR(S.CTX.fresh(tag))
    return a
S.SymBackend.register_method("solve", lambda A, B: fresh(np.shape(B), "x"))
# rational powers -> root atoms (R=2 -> sqrt)
_pow = SR.__pow__
def pow2(self, n):
    if isinstance(n, float) and abs(n - 0.5) < 1e-12: return self.sqrt()
    return _pow(self, n)
SR.__pow__ = pow2
S.SymBackend.register_method("prod", lambda t, axis=None: __import__("functools").reduce(lambda a, b: a*b, list(np.asarray(t, dtype=object).ravel())))

case = sys.argv[1]
if case == "exits":
    def run():
        T = sym("t", (2,2,2)); tol = SR(z3.Real("tol")); S.CTX.side.append(tol.t > 0)
        F = [sym(f"f{m}", (2,1)) for m in range(3)]
        cp, errs = parafac(T, 1, n_iter_max=3, init=(None, F), tol=tol, normalize_factors=True, return_errors=True)
        return cp, errs, list(S.CTX.sqrt_atoms)
    t0 = time.time(); paths = explore(run); print("paths", len(paths), "exec", round(time.time()-t0,2))
    for pc, side, out in paths:
        if out[0] == "exc": print("  raised", out); continue
        cp, errs, atoms = out
        s = z3.Solver(); s.set("timeout", 60000)
        for c in pc + side: s.add(c)
        for v, a in atoms: s.add(v*v == a)
        # unit-norm columns (or zero) on every factor?
        bad = []
        for f in cp.factors:
            n2 = sum((x*x for x in np.asarray(f, dtype=object)[:,0]), 0)
            bad.append(z3.And(S.tolift(n2) != 1, S.tolift(n2) != 0))
        s.add(z3.Or(bad))
        print("  sweeps run:", len(errs), " some returned column not unit-norm?", s.check())
else:
    R = int(sys.argv[2])
    S.CTX = S.Ctx()
    T = sym("t", (2,2,2)); w = sym("w", (R,)); F = [sym(f"f{m}", (2,R)) for m in range(3)]
    before = cp_to_tensor((w, [f.copy() for f in F]))
    cp = parafac(T, R, n_iter_max=0, init=(w.copy(), [f.copy() for f in F]))
    after = cp_to_tensor(cp)
    s = z3.Solver(); s.set("timeout", 60000)
    for c in S.CTX.side: s.add(c)
    for v, a in S.CTX.sqrt_atoms: s.add(v*v == a)
    s.add(z3.Or([S.tolift(x) != S.tolift(y) for x, y in zip(np.asarray(before,dtype=object).ravel(), np.asarray(after,dtype=object).ravel())]))
    t0 = time.time(); r = s.check(); print("zero-budget warm start changes the tensor?", r, round(time.time()-t0, 2))
    if str(r) == "sat":
        m = s.model(); print("   weights:", [m.eval(x.t, model_completion=True) for x in w])
        for x, y in list(zip(np.asarray(before,dtype=object).ravel(), np.asarray(after,dtype=object).ravel()))[:3]:
            print("   before", m.eval(S.tolift(x), model_completion=True), "after", m.eval(S.tolift(y), model_completion=True))
        print("   returned weights", cp.weights, " factor0[0,0] =", str(np.asarray(cp.factors[0],dtype=object)[0,0])[:120])
