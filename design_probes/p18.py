"""finite obligation probe: sqrt arguments that can cancel (PARAFAC2 error) vs guarded ones (CP error_calc)"""
import warnings; warnings.filterwarnings("ignore")
import numpy as np, z3, time, sys
import symr2 as S
from symr2 import sym, SR
import tensorly as tl
S.install(); S.CTX = S.Ctx()
from tensorly.decomposition._parafac2 import _parafac2_reconstruction_error
from tensorly.decomposition._cp import error_calc
from tensorly.tenalg import unfolding_dot_khatri_rao

def addends(t):
    """top-level additive decomposition of a z3 term"""
    t = z3.simplify(t, som=False)
    out = []
    def rec(u, sign):
        k = u.decl().kind()
        if k == z3.Z3_OP_ADD:
            for c in u.children(): rec(c, sign)
        elif k == z3.Z3_OP_SUB:
            ch = u.children(); rec(ch[0], sign)
            for c in ch[1:]: rec(c, -sign)
        elif k == z3.Z3_OP_UMINUS: rec(u.children()[0], -sign)
        else: out.append(u if sign > 0 else -u)
    rec(t, 1); return out
def finite_obligation(arg, pre):
    adds = addends(arg)
    M = z3.Sum([z3.If(a >= 0, a, -a) for a in adds])
    u = z3.RealVal("1/1125899906842624")
    s = z3.Solver(); s.set("timeout", 60000)
    for p in pre: s.add(p)
    s.add(M > 0, arg < u * M)
    t0 = time.time(); r = s.check(); return str(r), round(time.time()-t0,2), len(adds)

# PARAFAC2 error with Givens-free concrete orthonormal projections (identity-like) and symbolic factors
R = 1
A = sym("a", (2,R)); B = sym("b", (R,R)); C = sym("c", (2,R))
P = [np.array([[1],[0]], dtype=object).view(S.SArr), np.array([[0],[1],[0]], dtype=object).view(S.SArr)]
X = [sym("x0", (2,2)), sym("x1", (3,2))]
err = _parafac2_reconstruction_error(X, (None, [A,B,C], P))
v, arg = S.CTX.sqrt_atoms[-1]
print("parafac2: sqrt arg is abs-guarded:", arg.decl().kind()==z3.Z3_OP_ITE, " finite obligation:", finite_obligation(arg, []))

# CP error_calc (abs-guarded)
S.CTX = S.Ctx()
T = sym("t", (2,2,2)); F = [sym(f"f{m}", (2,R)) for m in range(3)]; w = sym("w", (R,))
mttkrp = unfolding_dot_khatri_rao(T, (w, F), 2)
nt = tl.norm(T, 2)
e, _, _ = error_calc(T, nt, w, F, None, None, mttkrp)
v, arg = S.CTX.sqrt_atoms[-1]
guarded = arg.decl().kind()==z3.Z3_OP_ITE
print("cp error_calc: sqrt arg is abs-guarded:", guarded, " -> obligation on |x|: addends all non-negative by construction" if guarded else finite_obligation(arg, []))
