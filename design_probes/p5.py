import warnings; warnings.filterwarnings("ignore")
import numpy as np, z3, time, sys
import symr2 as S
from symr2 import sym, SR, explore
import tensorly as tl
from tensorly.decomposition import parafac
from tensorly.cp_tensor import cp_to_tensor
S.install()
shape=(2,2,2); R=2
def sym_solve(A, B):
    n = A.shape[0]; B2 = B.reshape(n, -1)
    X = np.empty(B2.shape, dtype=object)
    for idx in np.ndindex(*B2.shape): X[idx] = SR(S.CTX.fresh("x"))
    return X.reshape(B.shape)
S.SymBackend.register_method("solve", sym_solve)
S.CTX = S.Ctx()
T = sym("t",shape)
init = (None,[sym(f"f{m}",(shape[m],R)) for m in range(len(shape))])
cp, errs = parafac(T, R, n_iter_max=1, init=init, tol=0, return_errors=True)
for v,a in S.CTX.sqrt_atoms:
    print(v, "  kind:", a.decl().name(), " size", len(str(a)))
full = cp_to_tensor(cp)
true_sq = sum(((a-b)*(a-b) for a,b in zip(T.ravel(), full.ravel())), 0)
v,a = S.CTX.sqrt_atoms[-1]
print("abs-arg?", a.decl().kind()==z3.Z3_OP_ITE)
A = a.arg(1) if a.decl().kind()==z3.Z3_OP_ITE else a
t0=time.time()
s = z3.Solver(); s.set("timeout", 30000); s.add(A != true_sq.t); print(s.check(), time.time()-t0)
t0=time.time()
d = z3.simplify(A - true_sq.t, som=True)
print("simplify som:", len(str(d)), time.time()-t0, str(d)[:300])
