import warnings; warnings.filterwarnings("ignore")
import numpy as np, z3, time, itertools
import tensorly as tl
from tensorly import tenalg
from tensorly.tenalg.core_tenalg import mode_dot, khatri_rao, unfolding_dot_khatri_rao
def sym(name, shape):
    a = np.empty(shape, dtype=object)
    for idx in np.ndindex(*shape):
        a[idx] = z3.Real(f"{name}_{'_'.join(map(str,idx))}")
    return a
T = sym("t",(2,3,2)); M = sym("m",(4,3))
r = mode_dot(T, M, 1)
print(r.shape, r.dtype, r[0,0,0])
# spec
spec = np.empty((2,4,2),dtype=object)
for i,j,k in np.ndindex(2,4,2):
    spec[i,j,k] = z3.Sum([M[j,l]*T[i,l,k] for l in range(3)])
s = z3.Solver()
t0=time.time()
s.add(z3.Or([r[idx]!=spec[idx] for idx in np.ndindex(2,4,2)]))
print(s.check(), time.time()-t0)
# einsum
try:
    from tensorly.tenalg.einsum_tenalg import mode_dot as emd
    r2 = emd(T,M,1)
    print("einsum ok", r2.shape, r2[0,0,0])
except Exception as e:
    print("einsum fail", type(e), e)
# mttkrp 
A=[sym("a",(2,2)),sym("b",(3,2)),sym("c",(2,2))]
w=sym("w",(2,))
t0=time.time()
mk = unfolding_dot_khatri_rao(T,(w,A),0)
print(mk.shape, mk[0,0])
spec = np.empty((2,2),dtype=object)
for i,r_ in np.ndindex(2,2):
    spec[i,r_]=z3.Sum([T[i,j,k]*w[r_]*A[1][j,r_]*A[2][k,r_] for j in range(3) for k in range(2)])
s=z3.Solver(); s.add(z3.Or([mk[idx]!=spec[idx] for idx in np.ndindex(2,2)]))
print(s.check(), time.time()-t0)
