"""C17 probe: one-step inductive harness on the real BackendManager with real threads and token backends."""
import warnings; warnings.filterwarnings("ignore")
import threading, queue, itertools, z3, sys
import tensorly as tl
from tensorly.backend import BackendManager
from tensorly.backend.core import Backend
from tensorly.tenalg import TenalgBackendManager
from tensorly.tenalg.base_tenalg import TenalgBackend

WHICH = sys.argv[1]
MGR, BASE = (BackendManager, Backend) if WHICH == "backend" else (TenalgBackendManager, TenalgBackend)
Bk = z3.DeclareSort("Bk")

class Worker(threading.Thread):
    def __init__(self):
        super().__init__(daemon=True); self.q = queue.Queue(); self.r = queue.Queue(); self.start()
    def run(self):
        while True:
            f = self.q.get()
            try: self.r.put(("ok", f()))
            except BaseException as e: self.r.put(("exc", e))
    def call(self, f):
        self.q.put(f); return self.r.get()

def make_token(name):
    if BASE is Backend:
        cls = type("Tok_"+name, (Backend,), {}, backend_name="tok_"+name)
    else:
        cls = type("Tok_"+name, (TenalgBackend,), {}, backend_name="tok_"+name)
    inst = cls(); inst.term = z3.Const(name, Bk)
    return inst

NT = 3
results = {}
def observe(workers):
    return [w.call(lambda: MGR.current_backend())[1] for w in workers]

def scenario(has, op, actor, local):
    workers = [Worker() for _ in range(NT)]
    g = make_token("g"); slots = [make_token(f"s{t}") for t in range(NT)]; new = make_token("new")
    # inject pre-state
    MGR._backend = g
    for t in range(NT):
        if has[t]: workers[t].call(lambda t=t: setattr(MGR._THREAD_LOCAL_DATA, "backend", slots[t]))
    pre = observe(workers)
    spec_pre = [slots[t] if has[t] else g for t in range(NT)]
    assert all(a is b for a,b in zip(pre, spec_pre)), "pre-state injection broken"
    status = "ok"
    if op == "set":
        st, v = workers[actor].call(lambda: MGR.set_backend(new, local_threadsafe=local))
        if st == "exc": status = f"exc:{type(v).__name__}"
        exp = [new if (t == actor or (not local and not has[t])) else spec_pre[t] for t in range(NT)]
    elif op == "ctx":
        def f():
            with MGR.backend_context(new, local_threadsafe=local):
                inside = MGR.current_backend()
            return inside
        st, v = workers[actor].call(f)
        if st == "exc": status = f"exc:{type(v).__name__}:{str(v)[:40]}"
        # spec: entering thread back to its previous observation; for local flavour nobody else changes
        exp = list(spec_pre)
        if not local:
            exp = [spec_pre[t] if (t == actor or has[t]) else None for t in range(NT)]  # None = unconstrained by spec
    elif op == "bad":
        st, v = workers[actor].call(lambda: MGR.set_backend("nope", local_threadsafe=local))
        status = "raised" if st == "exc" else "no-raise"
        exp = list(spec_pre)
    post = observe(workers)
    # solver decides: exists interpretation of tokens (all distinct) with post != exp
    s = z3.Solver()
    toks = [g, new] + slots
    s.add(z3.Distinct([k.term for k in toks]))
    s.add(z3.Or([p.term != e.term for p,e in zip(post, exp) if e is not None] or [z3.BoolVal(False)]))
    r = str(s.check())
    return r, status, [getattr(p,'backend_name','?') for p in post], [getattr(e,'backend_name','*') if e is not None else '*' for e in exp]

saved = (MGR._backend, dict(MGR._THREAD_LOCAL_DATA.__dict__))
bad = 0; total = 0
for has in itertools.product([False, True], repeat=NT):
    for op in ("set", "ctx", "bad"):
        for actor in range(NT):
            for local in (False, True):
                total += 1
                r, status, post, exp = scenario(has, op, actor, local)
                if r != "unsat" or status.startswith("exc"):
                    bad += 1
                    if bad <= 6: print("VIOL", WHICH, dict(has=has, op=op, actor=actor, local=local), status, "post", post, "exp", exp)
print(WHICH, "scenarios", total, "violating", bad)
MGR._backend = saved[0]
