import warnings; warnings.filterwarnings("ignore")
import numpy as np, z3, time
import symr
from symr import sym, SR, explore
import tensorly as tl
from tensorly.tenalg.core_tenalg import khatri_rao, unfolding_dot_khatri_rao
from tensorly.cp_tensor import cp_to_tensor, cp_norm, cp_normalize, CPTensor

def neq_any(a, b):
    return z3.Or([x.t != (y.t if isinstance(y,SR) else symr.lift(y)) for x,y in zip(a.ravel(), b.ravel())])

for (I,J,K,R) in [(2,2,2,2),(3,3,3,3),(3,4,2,3)]:
    T = sym("t",(I,J,K)); A=[sym("a",(I,R)),sym("b",(J,R)),sym("c",(K,R))]; w=sym("w",(R,))
    symr.CTX = symr.Ctx()
    t0=time.time()
    mk = unfolding_dot_khatri_rao(T,(w,A),0)
    spec = np.empty((I,R),dtype=object)
    for i,r_ in np.ndindex(I,R):
        acc = 0
        for j in range(J):
            for k in range(K):
                acc = acc + T[i,j,k]*w[r_]*A[1][j,r_]*A[2][k,r_]
        spec[i,r_]=acc
    s=z3.Solver(); s.add(neq_any(mk,spec)); print("mttkrp",(I,J,K,R), s.check(), round(time.time()-t0,3))
    t0=time.time()
    full = cp_to_tensor((w,A))
    spec = np.empty((I,J,K),dtype=object)
    for i,j,k in np.ndindex(I,J,K):
        acc=0
        for r_ in range(R): acc = acc + w[r_]*A[0][i,r_]*A[1][j,r_]*A[2][k,r_]
        spec[i,j,k]=acc
    s=z3.Solver(); s.add(neq_any(full,spec)); print("cp_to_tensor", s.check(), round(time.time()-t0,3))
    # cp_norm^2 == sum dense^2
    t0=time.time()
    symr.CTX = symr.Ctx()
    n = cp_norm((w,A))
    dense2 = sum((x*x for x in spec.ravel()), 0)
    s=z3.Solver(); s.set("timeout",60000)
    for c in symr.CTX.side: s.add(c)
    s.add(n.t*n.t != dense2.t); print("cp_norm", s.check(), round(time.time()-t0,3), len(symr.CTX.side))
