import warnings; warnings.filterwarnings("ignore")
import numpy as np, z3, time, sys
import symr
from symr import sym, SR, explore
import tensorly as tl
from tensorly.backend.numpy_backend import NumpyBackend
from tensorly.decomposition import parafac
from tensorly.cp_tensor import cp_to_tensor

MODE = sys.argv[1]  # havoc | contract | cramer
class SymBackend(NumpyBackend, backend_name="numpy"):
    pass
def sym_solve(A, B):
    n = A.shape[0]
    B2 = B.reshape(n, -1)
    if MODE == "cramer":
        assert n <= 2
        if n == 1:
            X = B2 / A[0,0]
        else:
            det = A[0,0]*A[1,1]-A[0,1]*A[1,0]
            symr.CTX.side.append(det.t != 0)
            X = np.empty(B2.shape, dtype=object)
            for j in range(B2.shape[1]):
                X[0,j] = (A[1,1]*B2[0,j]-A[0,1]*B2[1,j])/det
                X[1,j] = (A[0,0]*B2[1,j]-A[1,0]*B2[0,j])/det
        return X.reshape(B.shape)
    X = np.empty(B2.shape, dtype=object)
    for idx in np.ndindex(*B2.shape):
        X[idx] = SR(symr.CTX.fresh("x"))
    if MODE == "contract":
        AX = A.dot(X)
        for idx in np.ndindex(*B2.shape):
            symr.CTX.side.append(AX[idx].t == B2[idx].t)
    return X.reshape(B.shape)
SymBackend.register_method("solve", sym_solve)
def sym_sqrt(x):
    if isinstance(x, np.ndarray):
        return np.vectorize(lambda e: e.sqrt() if isinstance(e,SR) else np.sqrt(e), otypes=[object])(x)
    return x.sqrt() if isinstance(x,SR) else np.sqrt(x)
SymBackend.register_method("sqrt", sym_sqrt)
tl.set_backend(SymBackend())

shape=(2,2,2); R=int(sys.argv[2]); NIT=int(sys.argv[3])
def run():
    T = sym("t",shape)
    init = (None,[sym(f"f{m}",(shape[m],R)) for m in range(3)])
    errs_cb=[]
    def cb(cp, err): errs_cb.append((cp, err))
    cp, errs = parafac(T, R, n_iter_max=NIT, init=init, tol=0, return_errors=True, callback=None)
    return T, cp, errs
t0=time.time()
paths = explore(run)
print("paths", len(paths), "exec time", round(time.time()-t0,2))
for pc, side, (T, cp, errs) in paths:
    print("pc", len(pc), "side", len(side), "errs", len(errs))
    full = cp_to_tensor(cp)
    true_sq = sum(((a-b)*(a-b) for a,b in zip(T.ravel(), full.ravel())), 0)
    normsq = sum((a*a for a in T.ravel()),0)
    e = errs[-1]
    # e = unnorm / norm ; claim e*e*normsq == true_sq
    s = z3.Solver(); s.set("timeout", 120000)
    for c in side+pc: s.add(c)
    s.add(normsq.t > 0)
    s.add(e.t*e.t*normsq.t != true_sq.t)
    t0=time.time(); r = s.check(); print("C06 query", r, round(time.time()-t0,2))
    if len(errs)>=2:
        s = z3.Solver(); s.set("timeout", 120000)
        for c in side+pc: s.add(c)
        s.add(normsq.t > 0)
        s.add(errs[-1].t > errs[-2].t)
        t0=time.time(); r = s.check(); print("C07 query", r, round(time.time()-t0,2))
