import warnings; warnings.filterwarnings("ignore")
import numpy as np, tensorly as tl
from tensorly.decomposition import parafac
rng = np.random.RandomState(0)
X = rng.randn(4,5)
for norm in (False, True):
    for n in (1,2,3):
        cp, errs = parafac(X, 2, n_iter_max=n, init="random", random_state=1, tol=0, return_errors=True, normalize_factors=norm)
        true = np.linalg.norm(X - tl.cp_to_tensor(cp))/np.linalg.norm(X)
        print("matrix normalize=%s n=%d reported=%.6f true=%.6f" % (norm, n, errs[-1], true))
X = rng.randn(3,4,2)
for n in (1,2,3):
    cp, errs = parafac(X, 2, n_iter_max=n, init="random", random_state=1, tol=0, return_errors=True, normalize_factors=True)
    true = np.linalg.norm(X - tl.cp_to_tensor(cp))/np.linalg.norm(X)
    print("order3 normalize n=%d reported=%.6f true=%.6f" % (n, errs[-1], true))
