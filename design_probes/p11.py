import warnings; warnings.filterwarnings("ignore")
import numpy as np, z3, time, sys
import symr2 as S
from symr2 import sym, SR, explore
import tensorly as tl
from tensorly.solvers.nnls import hals_nnls
S.install()
r=int(sys.argv[1]); n=int(sys.argv[2]); m=r  # U is m x r with m=r (square, generic)
def run():
    U = sym("u",(m,r)); M = sym("m",(m,n)); V0 = sym("v",(r,n))
    UtU = U.T.dot(U); UtM = U.T.dot(M)
    V = hals_nnls(UtM, UtU, V=V0.copy(), n_iter_max=1, tol=0)
    return U, M, V0, np.asarray(V, dtype=object), UtU, UtM
t0=time.time()
paths = explore(run)
print("paths", len(paths), "exec", round(time.time()-t0,2), "queries", S.CTX.nqueries)
obj = lambda U,M,V: sum((x*x for x in (M - U.dot(V)).ravel()), 0)
tot=0; res={}
for pc, side, (U,M,V0,V,UtU,UtM) in paths:
    pre = [x.t >= 0 for x in V0.ravel()]
    # (a) nonneg output
    s = z3.Solver(); s.set("timeout",60000)
    for c in pc+side+pre: s.add(c)
    s.add(z3.Or([S.tolift(x) < 0 for x in V.ravel()])); t0=time.time(); ra=str(s.check()); ta=time.time()-t0
    # (b) descent
    s = z3.Solver(); s.set("timeout",60000)
    for c in pc+side+pre: s.add(c)
    s.add(obj(U,M,V).t > obj(U,M,V0).t); t0=time.time(); rb=str(s.check()); tb=time.time()-t0
    # (c) fixed point => KKT  (grad = UtU V - UtM >= 0 where V==0, ==0 where V>0)
    G = UtU.dot(V0) - UtM
    s = z3.Solver(); s.set("timeout",60000)
    for c in pc+side+pre: s.add(c)
    s.add(z3.And([S.tolift(a) == b.t for a,b in zip(V.ravel(), V0.ravel())]))
    s.add(z3.And([UtU[k,k].t > 0 for k in range(r)]))
    s.add(z3.Or([z3.Not(z3.And(g.t >= 0, z3.Implies(v.t > 0, g.t == 0))) for g,v in zip(G.ravel(), V0.ravel())]))
    t0=time.time(); rc=str(s.check()); tc=time.time()-t0
    res.setdefault((ra,rb,rc),0); res[(ra,rb,rc)]+=1; tot+=ta+tb+tc
print("results (nonneg, descent, fixpoint=>KKT):", res, "solve time", round(tot,1))
