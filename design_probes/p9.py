import warnings; warnings.filterwarnings("ignore")
import numpy as np, z3, time, sys
import symr2 as S
from symr2 import sym, SR, explore
import tensorly as tl
from tensorly.decomposition import parafac
from tensorly.cp_tensor import cp_to_tensor
S.install()
shape=tuple(int(c) for c in sys.argv[1]); R=int(sys.argv[2]); TACTIC=sys.argv[3]
def sym_solve(A, B):
    n = A.shape[0]; B2 = B.reshape(n, -1)
    if n == 1:
        S.CTX.side.append(A[0,0].t != 0)
        X = B2 / A[0,0]
    else:
        det = A[0,0]*A[1,1]-A[0,1]*A[1,0]
        S.CTX.side.append(det.t != 0)
        X = np.empty(B2.shape, dtype=object)
        for j in range(B2.shape[1]):
            X[0,j] = (A[1,1]*B2[0,j]-A[0,1]*B2[1,j])/det
            X[1,j] = (A[0,0]*B2[1,j]-A[1,0]*B2[0,j])/det
    return X.reshape(B.shape)
S.SymBackend.register_method("solve", sym_solve)
def run():
    T = sym("t",shape)
    F = [sym(f"f{m}",(shape[m],R)) for m in range(len(shape))]
    F0 = [f.copy() for f in F]
    cp = parafac(T, R, n_iter_max=1, init=(None,F), tol=0, fixed_modes=list(range(len(shape)-1)))
    sq = lambda full: sum(((a-b)*(a-b) for a,b in zip(T.ravel(), full.ravel())), 0)
    return sq(cp_to_tensor((None,F0))), sq(cp_to_tensor(cp)), F0, cp
t0=time.time()
paths = explore(run)
print("paths", len(paths), "exec", round(time.time()-t0,2))
for pc, side, (obj0, obj1, F0, cp) in paths:
    if TACTIC in ("direct","cert"):
        s = z3.Solver()
    else:
        s = z3.Tactic(TACTIC).solver()
    s.set("timeout",300000)
    for c in pc+side: s.add(c)
    if TACTIC != "cert":
        s.add(obj1.t > obj0.t)
        t0=time.time(); r=s.check(); print("ascent query:", r, round(time.time()-t0,2))
    else:
        from tensorly.tenalg.core_tenalg import khatri_rao
        from tensorly.base import unfold
        last = len(shape)-1
        KR = khatri_rao(F0, skip_matrix=last)
        D = F0[last] - cp.factors[last]
        M = D.dot(KR.T)
        sos = sum((x*x for x in M.ravel()), 0)
        s = z3.Solver(); s.set("timeout",300000)
        for c in pc+side: s.add(c)
        s.add(obj0.t - obj1.t != sos.t)
        t0=time.time(); r=s.check(); print("certificate identity:", r, round(time.time()-t0,2))
