from typing import List, Tuple
from tensorly.tenalg.tenalg_utils import _validate_contraction_modes
from tensorly.tt_tensor import validate_tt_rank


def _modes_are_normalised(shape1: List[int], shape2: List[int], m1: int, m2: int) -> Tuple[List[int], List[int]]:
    """
    pre: 1 <= len(shape1) <= 3 and 1 <= len(shape2) <= 3
    pre: all(1 <= s <= 3 for s in shape1) and all(1 <= s <= 3 for s in shape2)
    pre: -len(shape1) <= m1 < len(shape1) and -len(shape2) <= m2 < len(shape2)
    post: 0 <= _[0][0] < len(shape1) and 0 <= _[1][0] < len(shape2)
    post: shape1[_[0][0]] == shape2[_[1][0]]
    raises: ValueError
    """
    return _validate_contraction_modes(tuple(shape1), tuple(shape2), ([m1], [m2]))


def _tt_rank_boundary(shape: List[int], rank: List[int]) -> List[int]:
    """
    pre: 2 <= len(shape) <= 4 and all(1 <= s <= 4 for s in shape)
    pre: all(1 <= r <= 5 for r in rank)
    post: _[0] == 1 and _[-1] == 1 and len(_) == len(shape) + 1
    post: all(_[i+1] <= rank[i+1] for i in range(len(shape)-1))
    raises: ValueError
    """
    return validate_tt_rank(tuple(shape), list(rank), allow_overparametrization=False)
