"""C16 probe: non-interference of the global RNG stream on seeded calls."""
import warnings; warnings.filterwarnings("ignore")
import numpy as np, z3, time, sys
import symr2 as S
from symr2 import sym, SR, explore
import tensorly as tl
S.install()

RND = z3.Function("rnd", z3.IntSort(), z3.IntSort(), z3.IntSort(), z3.RealSort())
class SymRNG:
    """seed=None -> global stream (fresh vars per draw, per run); int -> seeded stream (UF of seed, draw#, position)"""
    GLOBAL_DRAWS = 0
    def __init__(self, seed, run_tag): self.seed = seed; self.k = 0; self.run = run_tag
    def _draw(self, shape):
        shape = tuple(shape) if not isinstance(shape, int) else (shape,)
        a = np.empty(shape, dtype=object).view(S.SArr)
        self.k += 1
        for pos, idx in enumerate(np.ndindex(*shape)):
            if self.seed is None:
                SymRNG.GLOBAL_DRAWS += 1
                a[idx] = SR(z3.Real(f"glob_{self.run}_{SymRNG.GLOBAL_DRAWS}"))
            else:
                a[idx] = SR(RND(self.seed, self.k, pos))
        return a
    def random_sample(self, size=None): return self._draw(size)
    def randn(self, *shape): return self._draw(shape)
    def normal(self, size=None, **kw): return self._draw(size)
    rand = randn
RUN = [0]
GLOBAL = {}
def check_random_state(seed):
    if seed is None:
        return GLOBAL.setdefault(RUN[0], SymRNG(None, RUN[0]))
    if isinstance(seed, SymRNG): return seed
    if isinstance(seed, int): return SymRNG(seed, RUN[0])
    raise ValueError
S.SymBackend.register_method("check_random_state", check_random_state)
def sym_solve(A, B):
    X = np.empty(B.shape, dtype=object).view(S.SArr)
    for idx in np.ndindex(*B.shape): X[idx] = SR(S.CTX.fresh("x"))
    return X
S.SymBackend.register_method("solve", sym_solve)
# functional (memoised) solve so that two runs with identical args agree
_memo = []
def f_solve(A, B):
    A = np.asarray(A, dtype=object); B = np.asarray(B, dtype=object)
    for (A2, B2, X2) in _memo:
        if A2.shape == A.shape and B2.shape == B.shape:
            same = all(S.CTX.identical(S.tolift(a), S.tolift(b)) for a,b in zip(list(A.ravel())+list(B.ravel()), list(A2.ravel())+list(B2.ravel())))
            if same: return X2
    X = sym_solve(A, B); _memo.append((A, B, X)); return X
S.SymBackend.register_method("solve", f_solve)

from tensorly.decomposition import parafac, constrained_parafac
from tensorly.random import random_cp
which = sys.argv[1]
S.CTX = S.Ctx()
T = sym("t", (2,2,2))
def call():
    if which == "random_cp": return random_cp((2,2,2), 2, random_state=7)
    if which == "parafac": return parafac(T, 2, n_iter_max=1, init="random", random_state=7, tol=0)
    if which == "constrained": return constrained_parafac(T, 2, n_iter_max=0, init="random", random_state=7, non_negative=True)
outs = []
for run in (1, 2):
    RUN[0] = run
    before = SymRNG.GLOBAL_DRAWS
    cp = call()
    outs.append(cp)
    print("run", run, "global draws consumed:", SymRNG.GLOBAL_DRAWS - before)
s = z3.Solver(); s.set("timeout", 60000)
diffs = []
for f1, f2 in zip(outs[0].factors, outs[1].factors):
    for a, b in zip(np.asarray(f1,dtype=object).ravel(), np.asarray(f2,dtype=object).ravel()):
        diffs.append(S.tolift(a) != S.tolift(b))
s.add(z3.Or(diffs))
t0 = time.time(); print(which, "outputs can differ?:", s.check(), round(time.time()-t0,2))
