"""Smoke: which public entry points execute under the prototype symbolic backend (1 path, havoc kernels)?"""
import warnings; warnings.filterwarnings("ignore")
import numpy as np, z3, time, sys, traceback
import symr2 as S
from symr2 import sym, SR, SB
import tensorly as tl
S.install()
exec(open("p7.py").read().split("op = sys.argv[1]")[0].split("S.install()")[1])   # sort/argsort/argmin/argmax/sum overrides

def fresh_arr(shape, nn=False, tag="k"):
    a = np.empty(shape, dtype=object).view(S.SArr)
    for idx in np.ndindex(*shape):
        v = S.CTX.fresh(tag); a[idx] = SR(v, nn=nn)
        if nn: S.CTX.side.append(v >= 0)
    return a
def h_solve(A, B): return fresh_arr(np.shape(B), tag="x")
def h_svd(M, full_matrices=True):
    m, n = np.shape(M); k = min(m, n)
    if full_matrices: return fresh_arr((m,m),tag="U"), fresh_arr((k,),nn=True,tag="s"), fresh_arr((n,n),tag="V")
    return fresh_arr((m,k),tag="U"), fresh_arr((k,),nn=True,tag="s"), fresh_arr((k,n),tag="V")
def h_qr(M):
    m, n = np.shape(M); k = min(m,n); return fresh_arr((m,k),tag="Q"), fresh_arr((k,n),tag="R")
def h_lstsq(A, B): return (fresh_arr((np.shape(A)[1],)+tuple(np.shape(B)[1:]),tag="l"), None, None, None)
def h_eigh(M): n=np.shape(M)[0]; return fresh_arr((n,),tag="w"), fresh_arr((n,n),tag="Q")
for n_,f in dict(solve=h_solve, svd=h_svd, qr=h_qr, lstsq=h_lstsq, eigh=h_eigh).items(): S.SymBackend.register_method(n_, f)
class RNG:
    def random_sample(self, size=None): return fresh_arr(tuple(size) if not isinstance(size,int) else (size,), nn=True, tag="r")
    def randn(self, *shape): return fresh_arr(shape, tag="r")
    def normal(self, size=None, **k): return fresh_arr(tuple(size), tag="r")
    rand = randn
S.SymBackend.register_method("check_random_state", lambda seed: RNG())
import math
import tensorly.decomposition._tucker as _tk, tensorly.solvers.nnls as _nn
_tk.sqrt = lambda x: x.sqrt() if isinstance(x, SR) else math.sqrt(x)
_nn.sqrt = lambda x: x.sqrt() if isinstance(x, SR) else math.sqrt(x)
SR.__index__ = lambda self: (_ for _ in ()).throw(TypeError("symbolic index"))

from tensorly import decomposition as D
from tensorly.regression import CPRegressor, TuckerRegressor
from tensorly.metrics import congruence_coefficient, correlation_index
from tensorly.cp_tensor import cp_mode_dot, cp_permute_factors, CPTensor
from tensorly.tt_tensor import pad_tt_rank
from tensorly import random as R_

T3 = lambda: sym("t", (2,2,2))
cases = {
 "parafac svd": lambda: D.parafac(T3(), 2, n_iter_max=1),
 "parafac random norm": lambda: D.parafac(T3(), 2, n_iter_max=2, init="random", normalize_factors=True, tol=0),
 "parafac mask": lambda: D.parafac(T3(), 2, n_iter_max=1, init="random", mask=np.array([[[1,0],[1,1]],[[1,1],[0,1]]])),
 "parafac sparsity": lambda: D.parafac(T3(), 2, n_iter_max=1, init="random", sparsity=2),
 "parafac linesearch": lambda: D.parafac(T3(), 2, n_iter_max=1, init="random", linesearch=True),
 "nn_parafac": lambda: D.non_negative_parafac(T3(), 2, n_iter_max=1, init="random"),
 "nn_parafac_hals": lambda: D.non_negative_parafac_hals(T3(), 2, n_iter_max=1, init="random"),
 "constrained nonneg": lambda: D.constrained_parafac(T3(), 2, n_iter_max=1, n_iter_max_inner=1, init="random", non_negative=True),
 "constrained simplex": lambda: D.constrained_parafac(T3(), 2, n_iter_max=1, n_iter_max_inner=1, init="random", simplex=1.0),
 "tucker": lambda: D.tucker(T3(), [2,2,1], n_iter_max=1),
 "partial_tucker": lambda: D.partial_tucker(T3(), [2,1], modes=[0,1], n_iter_max=1),
 "nn_tucker": lambda: D.non_negative_tucker(T3(), [2,2,1], n_iter_max=1),
 "nn_tucker_hals": lambda: D.non_negative_tucker_hals(T3(), [2,2,1], n_iter_max=1),
 "tensor_train": lambda: D.tensor_train(T3(), [1,2,2,1]),
 "tensor_train_matrix": lambda: D.tensor_train_matrix(sym("t",(2,2,2,2)), [1,2,1]),
 "tensor_ring": lambda: D.tensor_ring(T3(), [1,2,2,1]),
 "tensor_ring_als": lambda: D.tensor_ring_als(T3(), [2,2,2,2], n_iter_max=1),
 "parafac2": lambda: D.parafac2([sym("a",(2,2)), sym("b",(3,2))], 2, n_iter_max=1, n_iter_parafac=1),
 "randomised_parafac": lambda: D.randomised_parafac(T3(), 2, n_samples=2, n_iter_max=1),
 "cmtf": lambda: D.coupled_matrix_tensor_3d_factorization(T3(), sym("m",(2,3)), 2, n_iter_max=1, init="random"),
 "robust_pca": lambda: D.robust_pca(sym("m",(2,3)), n_iter_max=1),
 "CPRegressor": lambda: CPRegressor(2, n_iter_max=1, verbose=0).fit(sym("X",(3,2,2)), sym("y",(3,))).predict(sym("Z",(2,2,2))),
 "TuckerRegressor": lambda: TuckerRegressor([2,2], n_iter_max=1, verbose=0).fit(sym("X",(3,2,2)), sym("y",(3,))).predict(sym("Z",(2,2,2))),
 "congruence": lambda: congruence_coefficient(sym("a",(2,2)), sym("b",(2,2))),
 "correlation_index": lambda: correlation_index([sym("a",(2,2)), sym("c",(3,2))], [sym("b",(2,2)), sym("d",(3,2))]),
 "pad_tt_rank": lambda: pad_tt_rank([sym("a",(1,2,2)), sym("b",(2,2,1))]),
 "random_cp": lambda: R_.random_cp((2,2,2), 2, random_state=1),
 "random_tucker orth": lambda: R_.random_tucker((2,2,2), [2,2,1], orthogonal=True, random_state=1),
 "random_tt": lambda: R_.random_tt((2,2,2), [1,2,2,1], random_state=1),
 "random_parafac2": lambda: R_.random_parafac2([(2,2),(3,2)], 2, random_state=1),
}
only = sys.argv[1:]
for name, f in cases.items():
    if only and not any(o in name for o in only): continue
    S.CTX = S.Ctx()
    t0 = time.time()
    import signal
    def _to(sig, frm): raise TimeoutError("case timeout")
    signal.signal(signal.SIGALRM, _to); signal.alarm(60)
    try:
        # single path: take first feasible branch everywhere
        r = f()
        print(f"OK   {name:24s} {time.time()-t0:6.2f}s decisions={len(S.CTX.decisions)} queries={S.CTX.nqueries}", flush=True)
    except BaseException as e:
        tb = traceback.extract_tb(e.__traceback__)
        loc = [f"{fr.filename.split('/')[-1]}:{fr.lineno}" for fr in tb if "/repo/" in fr.filename][-2:]
        print(f"FAIL {name:24s} {type(e).__name__}: {str(e)[:90]}  @ {loc}", flush=True)
    finally:
        signal.alarm(0)
