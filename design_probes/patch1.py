s = open('symr2.py').read()
def rep(a, b):
    global s
    assert a in s, a
    s = s.replace(a, b)
rep('''    __slots__ = ("t","sq")   # sq: if this value is sqrt(arg), sq = arg term
    def __init__(self, t, sq=None): self.t = t; self.sq = sq''','''    __slots__ = ("t","sq","nn","ab")   # sq: sqrt-of arg; nn: known nonneg; ab: abs-of term
    def __init__(self, t, sq=None, nn=False, ab=None):
        self.t = t; self.sq = sq; self.ab = ab
        self.nn = nn or sq is not None or ab is not None or (z3.is_rational_value(t) and t.numerator_as_long() >= 0)''')
rep('''        if is0(self.t): return SR(b)
        return SR(self.t + b)''','''        if is0(self.t): return SR(b)
        return SR(self.t + b, nn=self.nn and _nn(o))''')
rep('''        if isinstance(o, SR) and o is self and self.sq is not None: return SR(self.sq)''','''        if isinstance(o, SR) and o is self and self.sq is not None: return SR(self.sq, nn=True)
        if isinstance(o, SR) and self.ab is not None and o.ab is not None and self.ab.eq(o.ab): return SR(self.ab*self.ab, nn=True)
        if isinstance(o, SR) and (o is self or self.t.eq(o.t)): return SR(self.t*self.t, nn=True)''')
rep('''        return SR(self.t * b)
    __rmul__ = __mul__''','''        return SR(self.t * b, nn=self.nn and _nn(o))
    __rmul__ = __mul__''')
rep('''            if n == 2 and self.sq is not None: return SR(self.sq)''','''            if n == 2: return self*self''')
rep('''        if self.sq is not None: return self
        return SR(z3.If(self.t>=0, self.t, -self.t))''','''        if self.nn: return self
        if CTX is not None and CTX.known_nonneg(self.t): return SR(self.t, nn=True)
        return SR(z3.If(self.t>=0, self.t, -self.t), ab=self.t)''')
rep('''    def sqrt(self):
        v = CTX.sqrt(self.t)
        return SR(v, self.t)''','''    def sqrt(self):
        if self.nn: CTX.nonneg_pool.append(self.t)
        v = CTX.sqrt(self.t)
        return SR(v, self.t)''')
rep('''def sym(name, shape):''','''def _nn(o):
    if isinstance(o, SR): return o.nn
    try: return bool(o >= 0)
    except Exception: return False

def sym(name, shape):''')
rep('''        self.nfresh = 0; self.nqueries = 0; self.tsolve = 0.0''','''        self.nfresh = 0; self.nqueries = 0; self.tsolve = 0.0
        self.nonneg_pool = []''')
rep('''    def sqrt(self, arg):''','''    def identical(self, a, b, timeout=10000):
        """polynomial/rational identity, decided by the solver with no path condition"""
        s = z3.Solver(); s.set("timeout", timeout); s.add(a != b)
        self.nqueries += 1; t0=time.time(); r = str(s.check()); self.tsolve += time.time()-t0
        return r == "unsat"
    def known_nonneg(self, t):
        for p in self.nonneg_pool:
            if p.eq(t) or self.identical(p, t): return True
        return False
    def sqrt(self, arg):''')
rep('''            if self.valid(a == arg, timeout=5000): return v''','''            if self.identical(a, arg): return v''')
rep('''CTX.side = []; CTX.sqrt_atoms = []''','''CTX.side = []; CTX.sqrt_atoms = []; CTX.nonneg_pool = []''')
open('symr2.py','w').write(s)
print("patched")
