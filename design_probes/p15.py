import warnings; warnings.filterwarnings("ignore")
import numpy as np, z3, time, sys
import symr2 as S
from symr2 import sym, SR
import tensorly as tl
from tensorly.tenalg import multi_mode_dot
S.install(); S.CTX = S.Ctx()
shape = tuple(int(c) for c in sys.argv[1]); ranks = tuple(int(c) for c in sys.argv[2])
X = sym("x", shape)
import itertools
def givens_orth(name, n, k):
    """n x k matrix with orthonormal columns, rationally parametrised by Givens angles t (c=(1-t^2)/(1+t^2), s=2t/(1+t^2))"""
    Q = np.eye(n, dtype=object)
    cnt = 0
    for j in range(k):
        for i in range(n-1, j, -1):
            t = SR(z3.Real(f"{name}_t{cnt}")); cnt += 1
            den = 1 + t*t
            c = (1 - t*t)/den; sn = (2*t)/den
            G = np.eye(n, dtype=object)
            G[j,j] = c; G[i,i] = c; G[j,i] = -sn; G[i,j] = sn
            Q = Q.dot(G)
    return Q[:, :k].view(S.SArr)
PARAM = len(sys.argv) > 3
U = [givens_orth(f"u{k}", shape[k], ranks[k]) if PARAM else sym(f"u{k}", (shape[k], ranks[k])) for k in range(len(shape))]
facts = []
for Uk in (U if not PARAM else []):
    G = np.asarray(Uk).T.dot(np.asarray(Uk))
    for i in range(G.shape[0]):
        for j in range(i, G.shape[1]): facts.append(S.tolift(G[i,j]) == (1 if i==j else 0))
core = multi_mode_dot(X, U, transpose=True)
rec = multi_mode_dot(core, U)
lhs = sum(((a-b)*(a-b) for a,b in zip(X.ravel(), np.asarray(rec,dtype=object).ravel())), 0)
rhs = sum((a*a for a in X.ravel()),0) - sum((a*a for a in np.asarray(core,dtype=object).ravel()),0)
for name, mk in (("z3-default", lambda: z3.Solver()), ("nlsat", lambda: z3.Tactic("qfnra-nlsat").solver())):
    s = mk(); s.set("timeout", 120000)
    for f in facts: s.add(f)
    s.add(lhs.t != rhs.t)
    t0=time.time(); print(name, shape, ranks, "HOOI error identity:", s.check(), round(time.time()-t0,2))
# Groebner-style help: substitute. Alternative encoding: prove via intermediate lemma  <X,rec> == ||core||^2 and ||rec||^2 == ||core||^2
ip = sum((a*b for a,b in zip(X.ravel(), np.asarray(rec,dtype=object).ravel())),0)
c2 = sum((a*a for a in np.asarray(core,dtype=object).ravel()),0)
r2 = sum((a*a for a in np.asarray(rec,dtype=object).ravel()),0)
s = z3.Solver(); s.set("timeout",120000); s.add(ip.t != c2.t); t0=time.time(); print("<X,rec>==||core||^2 (no facts):", s.check(), round(time.time()-t0,2))
s = z3.Solver(); s.set("timeout",120000)
for f in facts: s.add(f)
s.add(r2.t != c2.t); t0=time.time(); print("||rec||^2==||core||^2 (orth facts):", s.check(), round(time.time()-t0,2))
