import warnings; warnings.filterwarnings("ignore")
import numpy as np, z3, time, sys
import symr2 as S
from symr2 import sym, SR, explore
import tensorly as tl
from tensorly.decomposition import parafac
from tensorly.cp_tensor import cp_to_tensor
S.install()
MODE=sys.argv[1]; shape=tuple(int(c) for c in sys.argv[2]); R=int(sys.argv[3]); NIT=int(sys.argv[4]); NORM = len(sys.argv)>5 and sys.argv[5]=="norm"
def sym_solve(A, B):
    n = A.shape[0]; B2 = B.reshape(n, -1)
    if MODE == "cramer":
        if n == 1: X = B2 / A[0,0]
        else:
            det = A[0,0]*A[1,1]-A[0,1]*A[1,0]
            S.CTX.side.append(det.t != 0)
            X = np.empty(B2.shape, dtype=object)
            for j in range(B2.shape[1]):
                X[0,j] = (A[1,1]*B2[0,j]-A[0,1]*B2[1,j])/det
                X[1,j] = (A[0,0]*B2[1,j]-A[1,0]*B2[0,j])/det
        return X.reshape(B.shape)
    X = np.empty(B2.shape, dtype=object)
    for idx in np.ndindex(*B2.shape): X[idx] = SR(S.CTX.fresh("x"))
    return X.reshape(B.shape)
S.SymBackend.register_method("solve", sym_solve)

def unify_atoms():
    """prove equalities between sqrt atoms whose args are equal modulo |.| of a known-nonneg polynomial"""
    C = S.CTX
    lem = []
    atoms = C.sqrt_atoms
    for i,(v1,a1) in enumerate(atoms):
        for (v2,a2) in atoms[i+1:]:
            # strip abs: If(x>=0,x,-x)
            def strip(a):
                if z3.is_app(a) and a.decl().kind()==z3.Z3_OP_ITE:
                    return a.arg(1), True
                return a, False
            b1,ab1 = strip(a1); b2,ab2 = strip(a2)
            if C.identical(b1,b2):
                # need: the non-abs one is known nonneg (in pool) or both abs
                if (ab1 and ab2) or any(p.eq(b1) or p.eq(b2) for p in C.nonneg_pool) or (not ab1 and not ab2):
                    lem.append(v1==v2)
    return lem

def run():
    T = sym("t",shape)
    init = (None,[sym(f"f{m}",(shape[m],R)) for m in range(len(shape))])
    cp, errs = parafac(T, R, n_iter_max=NIT, init=init, tol=0, return_errors=True, normalize_factors=NORM)
    full = cp_to_tensor(cp)
    true_sq = sum(((a-b)*(a-b) for a,b in zip(T.ravel(), full.ravel())), 0)
    normsq = sum((a*a for a in T.ravel()),0)
    spec = true_sq.sqrt()/normsq.sqrt()
    lem = []
    return errs, spec, normsq, lem
t0=time.time()
paths = explore(run)
print("paths", len(paths), "exec", round(time.time()-t0,2), "queries", S.CTX.nqueries, "tsolve", round(S.CTX.tsolve,2))
for pc, side, (errs, spec, normsq, lem) in paths:
    s = z3.Solver(); s.set("timeout",60000)
    for c in pc+side+lem: s.add(c)
    s.add(normsq.t>0); s.add(errs[-1].t != spec.t)
    t0=time.time(); r=s.check(); print("C06 last-error query:", r, round(time.time()-t0,2), "pc",len(pc), "lemmas", len(lem), "atoms", len(S.CTX.sqrt_atoms))
    if str(r)=="sat":
        m=s.model(); print({str(d):m[d] for d in m.decls() if not str(d).startswith('/')})
