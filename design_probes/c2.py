import warnings; warnings.filterwarnings("ignore")
import numpy as np, tensorly as tl
from tensorly.decomposition import parafac2
from tensorly.random import random_parafac2
from tensorly.parafac2_tensor import parafac2_to_slices
nan_runs = 0
for seed in range(20):
    p2 = random_parafac2([(5,4),(6,4),(4,4)], 2, random_state=seed, full=False)
    slices = parafac2_to_slices(p2)
    try:
        dec, errs = parafac2(slices, 2, n_iter_max=200, random_state=seed, return_errors=True, tol=1e-12)
        if any(np.isnan(e) for e in errs):
            nan_runs += 1
            first = [i for i,e in enumerate(errs) if np.isnan(e)][0]
            print("seed", seed, "NaN at iteration", first, "previous", errs[max(0,first-1)])
    except Exception as e:
        print("seed", seed, "exception", type(e).__name__, str(e)[:80])
print("runs with NaN errors:", nan_runs, "/ 20")
