import warnings; warnings.filterwarnings("ignore")
import numpy as np, z3, time, sys
import symr2 as S
from symr2 import sym, SR, SB, explore
import tensorly as tl
from tensorly.tenalg import proximal as P
S.install()
# argsort/sort/argmin/argmax on symbolic arrays: forking via python comparisons
def s_sort(t, axis=-1):
    t = np.asarray(t, dtype=object)
    if axis is None: t = t.ravel(); axis = 0
    def sort1(v):
        v = list(v)
        # insertion sort with forking comparisons
        for i in range(1, len(v)):
            j = i
            while j > 0 and bool(v[j] < v[j-1]):
                v[j], v[j-1] = v[j-1], v[j]; j -= 1
        return v
    out = np.apply_along_axis(lambda v: np.array(sort1(v), dtype=object), axis, t)
    return out.view(S.SArr)
def s_argsort(t, axis=-1):
    t = np.asarray(t, dtype=object)
    def as1(v):
        idx = list(range(len(v)))
        for i in range(1, len(idx)):
            j = i
            while j > 0 and bool(v[idx[j]] < v[idx[j-1]]):
                idx[j], idx[j-1] = idx[j-1], idx[j]; j -= 1
        return np.array(idx)
    if all(not isinstance(e, SR) for e in t.ravel()): return np.argsort(t.astype(float), axis=axis, kind="stable")
    return np.apply_along_axis(as1, axis, t)
def s_argmin(t, axis=None):
    t = np.asarray(t, dtype=object)
    def am(v):
        b = 0
        for i in range(1, len(v)):
            if bool(v[i] < v[b]): b = i
        return b
    if axis is None: return am(t.ravel())
    return np.apply_along_axis(am, axis, t)
def s_argmax(t, axis=None):
    t = np.asarray(t, dtype=object)
    def am(v):
        b = 0
        for i in range(1, len(v)):
            if bool(v[i] > v[b]): b = i
        return b
    if axis is None: return am(t.ravel())
    return np.apply_along_axis(am, axis, t)
def s_sum(t, axis=None, **kw):
    t = np.asarray(t)
    if t.dtype == object:
        # SB entries count as 0/1
        f = np.vectorize(lambda e: SR(z3.If(e.t, z3.RealVal(1), z3.RealVal(0))) if isinstance(e, SB) else e, otypes=[object])
        t = f(t)
    r = np.sum(t, axis=axis)
    return r.view(S.SArr) if isinstance(r, np.ndarray) else r
for n,f in dict(sort=s_sort, argsort=s_argsort, argmin=s_argmin, argmax=s_argmax, sum=s_sum).items():
    S.SymBackend.register_method(n, f)

op = sys.argv[1]; n = int(sys.argv[2])
def concretize_index(x):
    """turn a symbolic integer-valued SR into a python int by forking over candidates"""
    if not isinstance(x, SR): return int(x)
    for k in range(-1, n+1):
        if bool(x == k): return k
    raise S.Abort()
# patch: simplex_prox uses to_change (symbolic count) as index -> need int. Provide __index__ on SR
SR.__index__ = lambda self: concretize_index(self)
SR.__int__ = lambda self: concretize_index(self)

def run():
    v = sym("v", (n,1)) if op not in ("soft","hard") else sym("v",(n,))
    if op == "simplex":
        r = 1
        p = P.simplex_prox(v, r)
    elif op == "mono":
        p = P.monotonicity_prox(v)
    elif op == "unimodal":
        p = P.unimodality_prox(v)
    elif op == "soft":
        p = P.soft_thresholding(v, 1)
    elif op == "hard":
        p = P.hard_thresholding(v, 1)
    elif op == "nn":
        p = P.proximal_operator(v, non_negative=True)
    return v, np.asarray(p, dtype=object)
t0=time.time()
paths = explore(run)
print(op, n, "paths", len(paths), "exec", round(time.time()-t0,2), "queries", S.CTX.nqueries, "tsolve", round(S.CTX.tsolve,2))
# property check per path
viol = 0; tq=0
for pc, side, (v, p) in paths:
    vv = [x.t for x in v.ravel()]; pp=[S.tolift(x) for x in p.ravel()]
    s = z3.Solver(); s.set("timeout",60000)
    for c in pc+side: s.add(c)
    q = [z3.Real(f"q{i}") for i in range(n)]
    dist = lambda a: z3.Sum([(a[i]-vv[i])*(a[i]-vv[i]) for i in range(n)])
    if op == "simplex":
        feas_p = z3.And([x>=0 for x in pp]+[z3.Sum(pp)==1]); feas_q = z3.And([x>=0 for x in q]+[z3.Sum(q)==1])
    elif op == "mono":
        feas_p = z3.And([pp[i]<=pp[i+1] for i in range(n-1)]); feas_q = z3.And([q[i]<=q[i+1] for i in range(n-1)])
    elif op == "nn":
        feas_p = z3.And([x>=0 for x in pp]); feas_q = z3.And([x>=0 for x in q])
    elif op == "unimodal":
        um = lambda a: z3.Or([z3.And([a[i]<=a[i+1] for i in range(k)]+[a[i]>=a[i+1] for i in range(k,n-1)]) for k in range(n)])
        feas_p = um(pp); feas_q = um(q)
    else:
        feas_p = z3.BoolVal(True); feas_q=None
    # violation: infeasible output, or a strictly closer feasible q exists
    if feas_q is not None:
        s.add(z3.Or(z3.Not(feas_p), z3.And(feas_q, dist(q) < dist(pp))))
    elif op=="soft":
        # prox of |.|_1: KKT v - p in subdiff
        s.add(z3.Or([z3.Not(z3.If(pp[i]>0, vv[i]-pp[i]==1, z3.If(pp[i]<0, vv[i]-pp[i]==-1, z3.And(vv[i]<=1, vv[i]>=-1)))) for i in range(n)]))
    elif op=="hard":
        # nearest 1-sparse: p has at most one nonzero, equals v there, and index has max |v|
        nz = z3.Sum([z3.If(pp[i]!=0,1,0) for i in range(n)])
        s.add(z3.Or(nz>1, z3.Or([z3.And(pp[i]!=0, pp[i]!=vv[i]) for i in range(n)]),
              z3.Or([z3.And(dist(pp) > dist([vv[j] if j==k else z3.RealVal(0) for j in range(n)])) for k in range(n)])))
    t0=time.time(); r = str(s.check()); tq += time.time()-t0
    if r != "unsat":
        viol += 1
        if viol <= 2:
            if r=="sat": m = s.model(); print("  ", r, {str(d): m[d] for d in m.decls() if str(d).startswith('v_')}, [m.eval(x) for x in pp] if r=="sat" else "")
print("violating/unknown paths:", viol, "of", len(paths), "query time", round(tq,2))
