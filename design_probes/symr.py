"""Throwaway probe of a symbolic real scalar + path forking executor."""
import z3, numpy as np
from fractions import Fraction

class Abort(BaseException): pass

class Ctx:
    def __init__(self):
        self.solver = z3.Solver()
        self.pc = []          # path condition for current run
        self.decisions = []   # list of bools taken in current run
        self.prefix = []      # forced prefix
        self.pending = []     # prefixes to explore
        self.side = []        # side constraints (definitional: sqrt etc.)
        self.nfresh = 0
        self.nqueries = 0
    def fresh(self, base="k"):
        self.nfresh += 1
        return z3.Real(f"__{base}{self.nfresh}")
    def feasible(self, extra):
        self.nqueries += 1
        self.solver.push()
        for c in self.side + self.pc + [extra]:
            self.solver.add(c)
        r = self.solver.check()
        self.solver.pop()
        return str(r) != "unsat"   # unknown treated as feasible
    def branch(self, cond):
        cond = z3.simplify(cond)
        if z3.is_true(cond): return True
        if z3.is_false(cond): return False
        i = len(self.decisions)
        if i < len(self.prefix):
            d = self.prefix[i]
        else:
            t = self.feasible(cond); f = self.feasible(z3.Not(cond))
            if t and f:
                self.pending.append(self.decisions + [False])
                d = True
            elif t: d = True
            elif f: d = False
            else: raise Abort()
        self.decisions.append(d)
        self.pc.append(cond if d else z3.Not(cond))
        return d

CTX = None

def lift(x):
    if isinstance(x, SR): return x.t
    if isinstance(x, (bool, np.bool_)): return z3.RealVal(int(x))
    if isinstance(x, (int, np.integer)): return z3.RealVal(int(x))
    if isinstance(x, (float, np.floating)):
        return z3.RealVal(str(Fraction(float(x))))
    if isinstance(x, Fraction): return z3.RealVal(str(x))
    raise TypeError(type(x))

class SB:
    def __init__(self, t): self.t = t
    def __bool__(self): return CTX.branch(self.t)
    def __and__(self, o): return SB(z3.And(self.t, o.t if isinstance(o,SB) else z3.BoolVal(bool(o))))
    def __or__(self, o): return SB(z3.Or(self.t, o.t if isinstance(o,SB) else z3.BoolVal(bool(o))))
    def __invert__(self): return SB(z3.Not(self.t))
    __rand__=__and__; __ror__=__or__

class SR:
    __array_priority__ = 1000
    def __init__(self, t): self.t = t
    def __repr__(self): return f"SR({self.t})"
    def _b(self, o, f):
        try: ot = lift(o)
        except TypeError: return NotImplemented
        return SR(f(self.t, ot))
    def __add__(self,o): return self._b(o, lambda a,b:a+b)
    def __radd__(self,o): return self._b(o, lambda a,b:b+a)
    def __sub__(self,o): return self._b(o, lambda a,b:a-b)
    def __rsub__(self,o): return self._b(o, lambda a,b:b-a)
    def __mul__(self,o): return self._b(o, lambda a,b:a*b)
    def __rmul__(self,o): return self._b(o, lambda a,b:b*a)
    def __truediv__(self,o): return self._b(o, lambda a,b:a/b)
    def __rtruediv__(self,o): return self._b(o, lambda a,b:b/a)
    def __neg__(self): return SR(-self.t)
    def __pos__(self): return self
    def __pow__(self, n):
        if isinstance(n,(int,np.integer)) and n>=0:
            r = z3.RealVal(1)
            for _ in range(int(n)): r = r*self.t
            return SR(r)
        if n == 0.5: return self.sqrt()
        raise TypeError(n)
    def __abs__(self): return SR(z3.If(self.t>=0, self.t, -self.t))
    def conjugate(self): return self
    def sqrt(self):
        s = CTX.fresh("sqrt")
        CTX.side.append(z3.And(s>=0, s*s==self.t))
        return SR(s)
    def _c(self,o,f):
        try: ot = lift(o)
        except TypeError: return NotImplemented
        return SB(f(self.t,ot))
    def __lt__(self,o): return self._c(o, lambda a,b:a<b)
    def __le__(self,o): return self._c(o, lambda a,b:a<=b)
    def __gt__(self,o): return self._c(o, lambda a,b:a>b)
    def __ge__(self,o): return self._c(o, lambda a,b:a>=b)
    def __eq__(self,o): return self._c(o, lambda a,b:a==b)
    def __ne__(self,o): return self._c(o, lambda a,b:a!=b)
    __hash__ = None

def sym(name, shape):
    a = np.empty(shape, dtype=object)
    for idx in np.ndindex(*shape):
        a[idx] = SR(z3.Real(f"{name}_{'_'.join(map(str,idx))}"))
    return a

def explore(fn, max_paths=1000):
    """run fn under all feasible decision sequences; yields (pc, side, result)"""
    global CTX
    CTX = Ctx()
    CTX.pending = [[]]
    out = []
    while CTX.pending and len(out) < max_paths:
        CTX.prefix = CTX.pending.pop()
        CTX.pc = []; CTX.decisions = []; CTX.side = []
        try:
            res = fn()
        except Abort:
            continue
        out.append((list(CTX.pc), list(CTX.side), res))
    return out
