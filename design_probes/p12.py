import warnings; warnings.filterwarnings("ignore")
import numpy as np, z3, time, sys
import symr2 as S
from symr2 import sym, SR, explore
import tensorly as tl
from tensorly.decomposition import tensor_train
from tensorly.tt_tensor import tt_to_tensor
S.install()
shape=tuple(int(c) for c in sys.argv[1]); ORTH = len(sys.argv)>2
def sym_svd(M, full_matrices=True):
    M = np.asarray(M, dtype=object); m,n = M.shape; k = min(m,n)
    assert not full_matrices
    U = np.empty((m,k),dtype=object).view(S.SArr); s_ = np.empty((k,),dtype=object).view(S.SArr); V = np.empty((k,n),dtype=object).view(S.SArr)
    for idx in np.ndindex(m,k): U[idx]=SR(S.CTX.fresh("U"))
    for idx in np.ndindex(k): s_[idx]=SR(S.CTX.fresh("s"), nn=True); S.CTX.side.append(s_[idx].t>=0)
    for idx in np.ndindex(k,n): V[idx]=SR(S.CTX.fresh("V"))
    USV = (np.asarray(U)*np.asarray(s_)).dot(np.asarray(V))
    for idx in np.ndindex(m,n): S.CTX.side.append(S.tolift(M[idx]) == USV[idx].t)
    if ORTH:
        UtU = np.asarray(U).T.dot(np.asarray(U))
        for i in range(k):
            for j in range(k): S.CTX.side.append(UtU[i,j].t == (1 if i==j else 0))
    return U, s_, V
S.SymBackend.register_method("svd", sym_svd)
import tensorly.tenalg.svd as svdmod
def run():
    T = sym("t", shape)
    # flip_sign off via monkeypatching svd_flip to identity for this probe
    tt = tensor_train(T, rank=[1]+[max(shape)**2]*(len(shape)-1)+[1])
    return T, tt
svdmod.svd_flip = lambda U,V,u_based_decision=True: (U,V)
t0=time.time(); paths = explore(run); print("paths", len(paths), "exec", round(time.time()-t0,2))
for pc, side, (T, tt) in paths:
    print("ranks", tt.rank)
    rec = tt_to_tensor(tt)
    s = z3.Solver(); s.set("timeout",200000)
    for c in pc+side: s.add(c)
    s.add(z3.Or([a.t != S.tolift(b) for a,b in zip(T.ravel(), np.asarray(rec,dtype=object).ravel())]))
    t0=time.time(); print("exactness:", s.check(), round(time.time()-t0,2))
    if ORTH:
        # left-orthogonality of first core
        G = np.asarray(tt.factors[0],dtype=object).reshape(-1, tt.rank[1])
        GtG = G.T.dot(G)
        s = z3.Solver(); s.set("timeout",200000)
        for c in pc+side: s.add(c)
        s.add(z3.Or([S.tolift(GtG[i,j]) != (1 if i==j else 0) for i in range(G.shape[1]) for j in range(G.shape[1])]))
        t0=time.time(); print("left-orth core0:", s.check(), round(time.time()-t0,2))
