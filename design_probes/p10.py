import warnings; warnings.filterwarnings("ignore")
import numpy as np, z3, time, sys
import symr2 as S
from symr2 import sym, SR, explore
import tensorly as tl
from tensorly.decomposition import parafac
from tensorly.cp_tensor import cp_to_tensor
from tensorly.tenalg.core_tenalg import khatri_rao
from tensorly.base import unfold
S.install()
shape=tuple(int(c) for c in sys.argv[1]); R=int(sys.argv[2]); MUT=len(sys.argv)>3
CALLS=[]
def sym_solve(A, B):
    n = A.shape[0]; B2 = B.reshape(n, -1)
    X = np.empty(B2.shape, dtype=object).view(S.SArr)
    for idx in np.ndindex(*B2.shape): X[idx] = SR(S.CTX.fresh("x"))
    AX = np.asarray(A).dot(np.asarray(X))
    for idx in np.ndindex(*B2.shape): S.CTX.side.append(AX[idx].t == B2[idx].t)
    CALLS.append((A,B2,X))
    return X.reshape(B.shape)
S.SymBackend.register_method("solve", sym_solve)
if MUT:
    # mutant: wrong gram pairing (include own factor) -- emulate by patching unfolding_dot_khatri_rao? simpler: perturb solve input
    import tensorly.decomposition._cp as _cp
    orig = _cp.unfolding_dot_khatri_rao
    _cp.unfolding_dot_khatri_rao = lambda t, cp, mode: orig(t, cp, mode) * 2
def run():
    CALLS.clear()
    T = sym("t",shape)
    F = [sym(f"f{m}",(shape[m],R)) for m in range(len(shape))]
    F0 = [f.copy() for f in F]
    cp = parafac(T, R, n_iter_max=1, init=(None,F), tol=0, fixed_modes=list(range(len(shape)-1)))
    return T, F0, cp
t0=time.time()
paths = explore(run)
print("paths", len(paths), "exec", round(time.time()-t0,2))
for pc, side, (T, F0, cp) in paths:
    last = len(shape)-1
    K = khatri_rao(F0, skip_matrix=last)          # (prod others) x R   -- harness-side reference design matrix
    Y = unfold(T, last)                            # I_last x prod others
    new = cp.factors[last]; old = F0[last]
    f = lambda Fm: sum((x*x for x in (Y - Fm.dot(K.T)).ravel()), 0)
    D = old - new
    g = (new.dot(K.T) - Y).dot(K)                  # gradient/2 at new
    sos = sum((x*x for x in D.dot(K.T).ravel()), 0)
    cross = sum((a*b for a,b in zip(D.ravel(), g.ravel())), 0)
    # (o) objective used here equals dense-reconstruction objective
    dense = lambda Fl: sum(((a-b)*(a-b) for a,b in zip(T.ravel(), cp_to_tensor((None,Fl)).ravel())),0)
    s = z3.Solver(); s.set("timeout",120000); s.add(f(old).t != dense(F0).t); t0=time.time(); print("obj form identity:", s.check(), round(time.time()-t0,2))
    # (i) unconditional identity
    s = z3.Solver(); s.set("timeout",120000); s.add(f(old).t - f(new).t != sos.t + 2*cross.t); t0=time.time(); print("I1 identity:", s.check(), round(time.time()-t0,2))
    # (ii) g == 0 from the solve contract
    s = z3.Solver(); s.set("timeout",120000)
    for c in pc+side: s.add(c)
    s.add(z3.Or([x.t != 0 for x in g.ravel()])); t0=time.time(); r=s.check(); print("normal-eq (g==0) from contract:", r, round(time.time()-t0,2))
    if str(r)=="sat":
        m=s.model(); print("  model sample", {str(d):m[d] for d in list(m.decls())[:6]})
