"""C11 data-flow probe: does every returned constrained factor come out of the proximal operator?"""
import warnings; warnings.filterwarnings("ignore")
import numpy as np, z3, time, sys
import symr2 as S
from symr2 import sym, SR, explore
import tensorly as tl
S.install()
import tensorly.solvers.admm as ADMM
import tensorly.decomposition._constrained_cp as CC
from tensorly.tenalg.proximal import validate_constraints

def fresh(shape, tag):
    a = np.empty(shape, dtype=object).view(S.SArr)
    for idx in np.ndindex(*shape): a[idx] = SR(S.CTX.fresh(tag))
    return a
S.SymBackend.register_method("solve", lambda A, B: fresh(np.shape(B), "x"))
def h_svd(M, full_matrices=True):
    m, n = np.shape(M); k = min(m, n)
    if full_matrices: return fresh((m,m),"U"), fresh((k,),"s"), fresh((n,n),"V")
    return fresh((m,k),"U"), fresh((k,),"s"), fresh((k,n),"V")
S.SymBackend.register_method("svd", h_svd)
import tensorly.tenalg.svd as svdmod
svdmod.svd_flip = lambda U, V, u_based_decision=True: (U, V)

TAGGED = []
def prox_stub(tensor, n_const=1, order=0, **kw):
    if n_const is None: return tensor
    kind, par = validate_constraints(n_const=n_const, order=order, **kw)
    if kind is None: return tensor
    out = fresh(np.shape(tensor), "p")
    if kind == "non_negative":
        for e in out.ravel(): S.CTX.side.append(e.t >= 0)
    TAGGED.append((kind, out))
    return out
ADMM.proximal_operator = prox_stub
CC.proximal_operator = prox_stub

case = sys.argv[1]
def run():
    TAGGED.clear()
    T = sym("t", (2,2,2))
    kw = dict(non_negative={0: True, 2: True})
    if case == "svd1":   cp = CC.constrained_parafac(T, 2, n_iter_max=1, n_iter_max_inner=1, init="svd", **kw)
    if case == "svd0":   cp = CC.constrained_parafac(T, 2, n_iter_max=0, n_iter_max_inner=1, init="svd", **kw)
    if case == "user0":  cp = CC.constrained_parafac(T, 2, n_iter_max=0, init=(None, [sym(f"f{m}", (2,2)) for m in range(3)]), **kw)
    if case == "user1fixed": cp = CC.constrained_parafac(T, 2, n_iter_max=1, n_iter_max_inner=1, fixed_modes=[0], init=(None, [sym(f"f{m}", (2,2)) for m in range(3)]), **kw)
    return cp
t0 = time.time(); paths = explore(run); print(case, "paths", len(paths), "exec", round(time.time()-t0, 2))
for pc, side, cp in paths:
    if isinstance(cp, tuple) and cp[0] == "exc": print("  raised", cp); continue
    for mode in (0, 2):
        s = z3.Solver(); s.set("timeout", 30000)
        for c in pc + side: s.add(c)
        s.add(z3.Or([S.tolift(x) < 0 for x in np.asarray(cp.factors[mode], dtype=object).ravel()]))
        print("  mode", mode, "can be negative?", s.check())
