"""C01 with SYMBOLIC shapes: run real tensorly.base functions against an index-map array model."""
import warnings; warnings.filterwarnings("ignore")
import z3, time, sys, itertools
import tensorly as tl
from tensorly.backend.core import Backend
from tensorly import base

SOLVER = z3.Solver()
FACTS = []      # definitional constraints (reshape index witnesses)
OBLIG = []      # obligations (reshape size compat)
_n = [0]
def fresh(p="i"):
    _n[0]+=1; return z3.Int(f"__{p}{_n[0]}")
def prod(xs):
    r = z3.IntVal(1)
    for x in xs: r = r*x
    return r
def ravel(idx, shape):
    r = z3.IntVal(0)
    for i,d in zip(idx, shape): r = r*d + i
    return r
class IT:
    """lazy tensor: shape (list of z3 Int / int), off(idx)-> linear offset in the ORIGINAL buffer"""
    def __init__(self, shape, off): self.shape = tuple(shape); self.off = off
    @property
    def ndim(self): return len(self.shape)
class IdxBackend(Backend, backend_name="numpy"):
    @staticmethod
    def shape(t): return t.shape
    @staticmethod
    def ndim(t): return len(t.shape)
    @staticmethod
    def transpose(t, axes=None):
        axes = list(axes) if axes is not None else list(range(len(t.shape)))[::-1]
        def off(idx):
            src = [None]*len(axes)
            for k,a in enumerate(axes): src[a] = idx[k]
            return t.off(src)
        return IT([t.shape[a] for a in axes], off)
    def moveaxis(self, t, source, destination):
        axes = list(range(len(t.shape)))
        if source < 0: source = axes[source]
        if destination < 0: destination = axes[destination]
        axes.pop(source); axes.insert(destination, source)
        return self.transpose(t, axes)
    @staticmethod
    def reshape(t, newshape):
        newshape = list(newshape) if not isinstance(newshape, int) else [newshape]
        total = prod(t.shape)
        if any(isinstance(d,int) and d == -1 for d in newshape):
            k = [i for i,d in enumerate(newshape) if isinstance(d,int) and d==-1]
            assert len(k)==1
            known = prod([d for i,d in enumerate(newshape) if i!=k[0]])
            m = fresh("m")
            FACTS.append(z3.And(m>=0, m*known == total))
            OBLIG.append(("divisible", total % known == 0))
            newshape[k[0]] = m
        else:
            OBLIG.append(("size", prod(newshape) == total))
        old = t
        def off(idx):
            wit = [fresh("w") for _ in old.shape]
            FACTS.append(z3.And([z3.And(w>=0, w<d) for w,d in zip(wit, old.shape)] + [ravel(wit, old.shape) == ravel(idx, newshape)]))
            return old.off(wit)
        return IT(newshape, off)
tl.set_backend(IdxBackend())

order = int(sys.argv[1]); B = int(sys.argv[2])
def check(name, goal_builder):
    global FACTS, OBLIG
    FACTS=[]; OBLIG=[]
    dims = [z3.Int(f"d{k}") for k in range(order)]
    pre = [z3.And(d>=1, d<=B) for d in dims]
    T = IT(dims, lambda idx: ravel(idx, dims))
    goals = goal_builder(T, dims)
    res=[]
    for gname, assume, goal in goals:
        s = z3.Solver(); s.set("timeout", 120000)
        s.add(pre); s.add(FACTS); s.add(assume); s.add(z3.Not(goal))
        t0=time.time(); r = s.check(); res.append((gname, str(r), round(time.time()-t0,2)))
    for oname, ob in OBLIG:
        s = z3.Solver(); s.set("timeout", 120000); s.add(pre); s.add(FACTS); s.add(z3.Not(ob))
        t0=time.time(); r = s.check(); res.append(("oblig:"+oname, str(r), round(time.time()-t0,2)))
    print(name, res)

for mode in range(order):
    def gb(T, dims, mode=mode):
        U = base.unfold(T, mode)
        Fd = base.fold(U, mode, tuple(dims))
        idx = [z3.Int(f"x{k}") for k in range(order)]
        inr = z3.And([z3.And(i>=0, i<d) for i,d in zip(idx, dims)])
        goals = []
        # layout: U[i_mode, col] == T[idx] with col = ravel of remaining idx in increasing order
        rest = [k for k in range(order) if k!=mode]
        col = ravel([idx[k] for k in rest], [dims[k] for k in rest])
        goals.append(("unfold-shape", z3.BoolVal(True), z3.And(U.shape[0]==dims[mode], U.shape[1]==prod([dims[k] for k in rest]))))
        goals.append(("unfold-layout", inr, U.off([idx[mode], col]) == ravel(idx, dims)))
        goals.append(("fold-shape", z3.BoolVal(True), z3.And([a==b for a,b in zip(Fd.shape, dims)])))
        goals.append(("roundtrip", inr, Fd.off(idx) == ravel(idx, dims)))
        return goals
    check(f"order{order} B{B} mode{mode}", gb)
