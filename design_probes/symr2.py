"""Probe v2: symbolic real with smart constructors, sqrt interning, If-merging backend ops, path forking."""
import z3, numpy as np, time
from fractions import Fraction

class Abort(BaseException): pass

class Ctx:
    def __init__(self):
        self.solver = z3.Solver()
        self.pc = []; self.decisions = []; self.prefix = []; self.pending = []
        self.side = []      # always-true definitional facts (e.g. sqrt var >= 0)
        self.sqrt_atoms = []  # (var, arg)
        self.nfresh = 0; self.nqueries = 0; self.tsolve = 0.0
        self.nonneg_pool = []
    def fresh(self, base="k"):
        self.nfresh += 1
        return z3.Real(f"__{base}{self.nfresh}")
    def check(self, *extra, timeout=20000):
        self.nqueries += 1
        s = self.solver; s.push(); s.set("timeout", timeout)
        for c in self.side + self.pc + list(extra): s.add(c)
        t0 = time.time(); r = s.check(); self.tsolve += time.time()-t0
        m = s.model() if str(r) == "sat" else None
        s.pop()
        return str(r), m
    def valid(self, prop, timeout=20000):
        r, _ = self.check(z3.Not(prop), timeout=timeout)
        return r == "unsat"
    def branch(self, cond):
        cond = z3.simplify(cond)
        if z3.is_true(cond): return True
        if z3.is_false(cond): return False
        i = len(self.decisions)
        if i < len(self.prefix):
            d = self.prefix[i]
        else:
            t = self.check(cond)[0] != "unsat"; f = self.check(z3.Not(cond))[0] != "unsat"
            if t and f:
                self.pending.append(self.decisions + [False]); d = True
            elif t: d = True
            elif f: d = False
            else: raise Abort()
        self.decisions.append(d)
        import os, traceback
        if os.environ.get("SYMDBG"):
            fr = [f for f in traceback.extract_stack() if "/repo/" in f.filename][-1:]
            print("BRANCH", d, str(cond)[:80].replace("\n"," "), [(f.filename.split("/")[-1], f.lineno) for f in fr], flush=True)
        self.pc.append(cond if d else z3.Not(cond))
        return d
    def identical(self, a, b, timeout=10000):
        """polynomial/rational identity, decided by the solver with no path condition"""
        s = z3.Solver(); s.set("timeout", timeout); s.add(a != b)
        self.nqueries += 1; t0=time.time(); r = str(s.check()); self.tsolve += time.time()-t0
        return r == "unsat"
    def known_nonneg(self, t):
        for p in self.nonneg_pool:
            if p.eq(t) or self.identical(p, t): return True
        return False
    def sqrt(self, arg, nn=False):
        arg = z3.simplify(arg)
        if nn: self.nonneg_pool.append(arg)
        if z3.is_rational_value(arg):
            fr = Fraction(arg.numerator_as_long(), arg.denominator_as_long())
            import math
            n, d = fr.numerator, fr.denominator
            if n >= 0 and math.isqrt(n)**2 == n and math.isqrt(d)**2 == d:
                return z3.RealVal(str(Fraction(math.isqrt(n), math.isqrt(d))))
        def strip(a):
            if z3.is_app(a) and a.decl().kind()==z3.Z3_OP_ITE and a.arg(2).eq(z3.simplify(-a.arg(1))) : return a.arg(1), True
            return a, False
        core, isabs = strip(arg)
        for v, a in self.sqrt_atoms:
            if a.eq(arg): return v
        for v, a in self.sqrt_atoms:
            c2, abs2 = strip(a)
            if self.identical(c2, core):
                nn1 = isabs or nn or self.known_nonneg(core)
                nn2 = abs2 or self.known_nonneg(c2)
                if (isabs == abs2) or (nn1 and nn2):
                    return v
        v = self.fresh("sqrt")
        self.sqrt_atoms.append((v, arg))
        self.side.append(v >= 0)
        return v

CTX = None

def lift(x):
    if isinstance(x, SR): return x.t
    if isinstance(x, (bool, np.bool_)): return z3.RealVal(int(x))
    if isinstance(x, (int, np.integer)): return z3.RealVal(int(x))
    if isinstance(x, (float, np.floating)): return z3.RealVal(str(Fraction(float(x))))
    if isinstance(x, Fraction): return z3.RealVal(str(x))
    raise TypeError(type(x))

class SB:
    def __init__(self, t): self.t = t
    def __bool__(self): return CTX.branch(self.t)
    def __and__(self, o): return SB(z3.And(self.t, o.t if isinstance(o,SB) else z3.BoolVal(bool(o))))
    def __or__(self, o): return SB(z3.Or(self.t, o.t if isinstance(o,SB) else z3.BoolVal(bool(o))))
    def __invert__(self): return SB(z3.Not(self.t))
    __rand__=__and__; __ror__=__or__
    def __mul__(self, o):  # bool * bool in unimodality_prox
        return SB(z3.And(self.t, o.t)) if isinstance(o, SB) else NotImplemented

def is0(t): return z3.is_rational_value(t) and t.numerator_as_long() == 0
def is1(t): return z3.is_rational_value(t) and t.numerator_as_long() == t.denominator_as_long()

class SR:
    pass
    __slots__ = ("t","sq","nn","ab")   # sq: sqrt-of arg; nn: known nonneg; ab: abs-of term
    def __init__(self, t, sq=None, nn=False, ab=None):
        self.t = t; self.sq = sq; self.ab = ab
        self.nn = nn or sq is not None or ab is not None or (z3.is_rational_value(t) and t.numerator_as_long() >= 0)
    def __repr__(self): return f"SR({self.t})"
    def _l(self, o):
        try: return lift(o)
        except TypeError: return None
    def __add__(self,o):
        b = self._l(o)
        if b is None: return NotImplemented
        if is0(b): return self
        if is0(self.t): return SR(b)
        return SR(self.t + b, nn=self.nn and _nn(o))
    __radd__ = __add__
    def __sub__(self,o):
        b = self._l(o)
        if b is None: return NotImplemented
        if is0(b): return self
        return SR(self.t - b)
    def __rsub__(self,o):
        b = self._l(o)
        if b is None: return NotImplemented
        return SR(b - self.t)
    def __mul__(self,o):
        b = self._l(o)
        if b is None: return NotImplemented
        if isinstance(o, SR) and o is self and self.sq is not None: return SR(self.sq, nn=True)
        if isinstance(o, SR) and self.ab is not None and o.ab is not None and self.ab.eq(o.ab): return SR(self.ab*self.ab, nn=True)
        if isinstance(o, SR) and (o is self or self.t.eq(o.t)): return SR(self.t*self.t, nn=True)
        if isinstance(o, SR) and self.sq is not None and o.sq is not None and self.t.eq(o.t): return SR(self.sq)
        if is0(b) or is0(self.t): return SR(z3.RealVal(0))
        if is1(b): return self
        if is1(self.t): return SR(b, getattr(o,'sq',None))
        return SR(self.t * b, nn=self.nn and _nn(o))
    __rmul__ = __mul__
    def __truediv__(self,o):
        b = self._l(o)
        if b is None: return NotImplemented
        if is1(b): return self
        return SR(self.t / b)
    def __rtruediv__(self,o):
        b = self._l(o)
        if b is None: return NotImplemented
        return SR(b / self.t)
    def __neg__(self): return SR(-self.t)
    def __pos__(self): return self
    def __pow__(self, n):
        if isinstance(n, float) and n == int(n): n = int(n)
        if isinstance(n,(int,np.integer)) and n>=0:
            if n == 2: return self*self
            r = SR(z3.RealVal(1))
            for _ in range(int(n)): r = r*self
            return r
        if n == 0.5: return self.sqrt()
        raise TypeError(n)
    def __abs__(self):
        if self.nn: return self
        if CTX is not None and CTX.known_nonneg(self.t): return SR(self.t, nn=True)
        tt = z3.simplify(self.t)
        return SR(z3.If(tt>=0, tt, z3.simplify(-tt)), ab=tt)
    def conjugate(self): return self
    def sqrt(self):
        v = CTX.sqrt(self.t, self.nn)
        return SR(v, self.t)
    def _c(self,o,f):
        b = self._l(o)
        if b is None: return NotImplemented
        return SB(f(self.t,b))
    def __lt__(self,o): return self._c(o, lambda a,b:a<b)
    def __le__(self,o): return self._c(o, lambda a,b:a<=b)
    def __gt__(self,o): return self._c(o, lambda a,b:a>b)
    def __ge__(self,o): return self._c(o, lambda a,b:a>=b)
    def __eq__(self,o): return self._c(o, lambda a,b:a==b)
    def __ne__(self,o): return self._c(o, lambda a,b:a!=b)
    __hash__ = None

def _nn(o):
    if isinstance(o, SR): return o.nn
    try: return bool(o >= 0)
    except Exception: return False

class SArr(np.ndarray):
    """object ndarray whose comparisons stay symbolic (object arrays of SB) instead of forking per element"""
    __array_priority__ = 100
    def _cmp(self, o, uf):
        r = uf(np.asarray(self), np.asarray(o, dtype=object) if not isinstance(o, np.ndarray) else np.asarray(o), dtype=object)
        if isinstance(r, np.ndarray):
            if all(isinstance(e, (bool, np.bool_)) for e in r.ravel()): return np.asarray(r, dtype=bool)
            return r.view(SArr)
        return r
    def __eq__(self, o): return self._cmp(o, np.equal)
    def __ne__(self, o): return self._cmp(o, np.not_equal)
    def __lt__(self, o): return self._cmp(o, np.less)
    def __le__(self, o): return self._cmp(o, np.less_equal)
    def __gt__(self, o): return self._cmp(o, np.greater)
    def __ge__(self, o): return self._cmp(o, np.greater_equal)
    __hash__ = None

def sym(name, shape):
    a = np.empty(shape, dtype=object).view(SArr)
    for idx in np.ndindex(*shape):
        a[idx] = SR(z3.Real(f"{name}_{'_'.join(map(str,idx))}"))
    return a

def tolift(x):
    return x.t if isinstance(x, SR) else lift(x)

def explore(fn, max_paths=100000):
    global CTX
    CTX = Ctx(); CTX.pending = [[]]
    out = []
    while CTX.pending and len(out) < max_paths:
        CTX.prefix = CTX.pending.pop()
        CTX.pc = []; CTX.decisions = []; CTX.side = []; CTX.sqrt_atoms = []; CTX.nonneg_pool = []
        try: res = fn()
        except Abort: continue
        except Exception as e: res = ("exc", type(e).__name__)
        out.append((list(CTX.pc), list(CTX.side), res))
    return out

# ---------- symbolic numpy backend for tensorly
import tensorly as tl
from tensorly.backend.numpy_backend import NumpyBackend
class SymBackend(NumpyBackend, backend_name="numpy"):
    pass
def _vec(f):
    g = np.vectorize(f, otypes=[object])
    return lambda x: np.asarray(g(x), dtype=object).view(SArr)
def _obj(x):
    a = np.asarray(x)
    if a.dtype != object: a = a.astype(object)
    return a.view(SArr)
def s_tensor(data, dtype=None, **kw):
    if isinstance(data, np.ndarray) and data.dtype == bool: return data
    if dtype is not None and np.issubdtype(np.dtype(dtype) if dtype is not object else np.float64, np.integer): return np.array(data, dtype=dtype)
    return np.array(data, dtype=object).view(SArr)
def s_zeros(shape, dtype=None, **kw): return np.zeros(shape, dtype=object).view(SArr)
def s_ones(shape, dtype=None, **kw): return np.ones(shape, dtype=object).view(SArr)
def s_eye(N, M=None, dtype=None, **kw): return np.eye(N, M, dtype=object).view(SArr)
def s_zeros_like(t, **kw): return np.zeros(np.shape(t), dtype=object).view(SArr)
def s_all(t, **kw):
    t = np.asarray(t)
    if t.dtype == object:
        terms = [e.t if isinstance(e, SB) else z3.BoolVal(bool(e)) for e in t.ravel()]
        return bool(SB(z3.And(terms)))
    return np.all(t, **kw)
def s_any(t, axis=None, **kw):
    t = np.asarray(t)
    if t.dtype == object:
        terms = [e.t if isinstance(e, SB) else z3.BoolVal(bool(e)) for e in t.ravel()]
        return bool(SB(z3.Or(terms)))
    return np.any(t, axis=axis, **kw)
def s_sqrt(x):
    f = lambda e: e.sqrt() if isinstance(e,SR) else SR(lift(e)).sqrt()
    return _vec(f)(x) if isinstance(x, np.ndarray) and x.ndim>0 else f(x if not isinstance(x,np.ndarray) else x.item())
def s_abs(x):
    f = lambda e: abs(e)
    return _vec(f)(x) if isinstance(x, np.ndarray) and x.ndim>0 else f(x if not isinstance(x,np.ndarray) else x.item())
def _ite(c, a, b):
    if isinstance(c, SB):
        ct = z3.simplify(c.t)
        if z3.is_true(ct): return a
        if z3.is_false(ct): return b
        return SR(z3.If(ct, tolift(a), tolift(b)))
    return a if c else b
def s_where(cond, x=None, y=None):
    if x is None: return np.where(cond)
    c, xx, yy = np.broadcast_arrays(_obj(cond), _obj(x), _obj(y))
    out = np.empty(c.shape, dtype=object)
    for idx in np.ndindex(*c.shape): out[idx] = _ite(c[idx], xx[idx], yy[idx])
    return out
def _max2(a,b):
    if not isinstance(a,SR) and not isinstance(b,SR): return max(a,b)
    return _ite(SR(tolift(a)) >= b, a, b)
def _min2(a,b):
    if not isinstance(a,SR) and not isinstance(b,SR): return min(a,b)
    return _ite(SR(tolift(a)) <= b, a, b)
def s_clip(t, a_min=None, a_max=None):
    t = _obj(t)
    out = t
    if a_min is not None:
        am = np.broadcast_to(_obj(a_min), t.shape); o2 = np.empty(t.shape, dtype=object)
        for idx in np.ndindex(*t.shape): o2[idx] = _max2(out[idx], am[idx])
        out = o2
    if a_max is not None:
        am = np.broadcast_to(_obj(a_max), t.shape); o2 = np.empty(t.shape, dtype=object)
        for idx in np.ndindex(*t.shape): o2[idx] = _min2(out[idx], am[idx])
        out = o2
    return out if out.ndim else out.item()
def _reduce(f, t, axis):
    t = _obj(t)
    if axis is None:
        r = None
        for e in t.ravel(): r = e if r is None else f(r,e)
        return r
    t2 = np.moveaxis(t, axis, 0)
    out = np.empty(t2.shape[1:], dtype=object)
    for idx in np.ndindex(*t2.shape[1:]):
        r = None
        for k in range(t2.shape[0]):
            e = t2[(k,)+idx]; r = e if r is None else f(r,e)
        out[idx] = r
    return out
def s_max(t, axis=None): return _reduce(_max2, t, axis)
def s_min(t, axis=None): return _reduce(_min2, t, axis)
def s_sign(t):
    f = lambda e: SR(z3.If(e.t>0, z3.RealVal(1), z3.If(e.t<0, z3.RealVal(-1), z3.RealVal(0)))) if isinstance(e,SR) else np.sign(e)
    return _vec(f)(t) if isinstance(t,np.ndarray) and t.ndim>0 else f(t)
def s_maximum(a,b):
    a,b = np.broadcast_arrays(_obj(a),_obj(b)); out = np.empty(a.shape,dtype=object)
    for idx in np.ndindex(*a.shape): out[idx]=_max2(a[idx],b[idx])
    return out
for n,f in dict(all=s_all, any=s_any, tensor=s_tensor, zeros=s_zeros, ones=s_ones, eye=s_eye, zeros_like=s_zeros_like, sqrt=s_sqrt, abs=s_abs, where=s_where, clip=s_clip, max=s_max, min=s_min, sign=s_sign, maximum=s_maximum).items():
    SymBackend.register_method(n, f)
SymBackend.register_method("context", lambda t: {"dtype": object})
SymBackend.register_method("eps", lambda dtype: Fraction(1, 2**52))
def install():
    tl.set_backend(SymBackend())
